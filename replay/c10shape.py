"""C10: the shapes of a `_WrapNumbers` state + input snapshot for the one-step contract of `run()`.

Shared by the contract (values are solver terms) and by the replay runner (values are the integers of a
counter-model), so the state a counter-model is replayed on is built by the same code that built the verified one.

shape string: tokens joined by '-', one token per device key k0, k1, ...:
    <status><d0><d1>...   status: b = in the previous snapshot and in the new one   g = only in the previous one (gone)
                                  n = only in the new one (new)                     a = in neither (absent)
                          one digit per tuple position i: state of reminders[name][(key, i)]
                                  0 = no entry   1 = entry holding 0 that reminder_keys does not index (what a read of the
                                  defaultdict leaves behind)   2 = indexed entry holding a symbolic offset >= 0
                          (n / a keys: digits 0 or 1 only - a key that is not cached has no live offsets; b / g keys:
                          all digits in {1,2} or all in {0,1} - an indexed offset exists only once every position of
                          the key was read.  These are exactly the layouts reachable through run(): the invariant)
    'first-<arity>-<nkeys>': the name was never seen (or was cleared): no state for it at all
Symbol names: o_<key>_<i> previous raw value, r_<key>_<i> new raw value, m_<key>_<i> stored offset (>= 1), x_<j> other-name state.
"""
import collections
import itertools

NAME, OTHER = "psutil.net_io_counters", "psutil.disk_io_counters"


def parse(shape):
    if shape.startswith("first"):
        _, ar, nk = shape.split("-")
        return {"first": True, "keys": [("k%d" % j, "n", [0] * int(ar)) for j in range(int(nk))]}
    keys = []
    for j, tok in enumerate(shape.split("-")):
        keys.append(("k%d" % j, tok[0], [int(ch) for ch in tok[1:]]))
    return {"first": False, "keys": keys}


def build(shape, val):
    """-> dict(cache, reminders, reminder_keys, input, off, old, raw, arity): the three state maps as run() keeps them,
    the new snapshot, and per (key, i) the entry offset.  val(name) gives the value of a symbol."""
    sh = parse(shape)
    cache, reminders, reminder_keys = {}, {}, {}
    # the other function's history: must come out untouched
    cache[OTHER] = {"k0": (val("x_0"), val("x_1")), "z": (val("x_2"), val("x_3"))}
    reminders[OTHER] = collections.defaultdict(int)
    reminders[OTHER][("k0", 0)] = val("x_4")
    reminder_keys[OTHER] = collections.defaultdict(set)
    reminder_keys[OTHER]["k0"].add(("k0", 0))
    inp, off, old, raw = {}, {}, {}, {}
    if not sh["first"]:
        cache[NAME] = {}
        reminders[NAME] = collections.defaultdict(int)
        reminder_keys[NAME] = collections.defaultdict(set)
    for key, status, digits in sh["keys"]:
        ar = len(digits)
        if status in "bg":
            old[key] = tuple(val(f"o_{key}_{i}") for i in range(ar))
            cache[NAME][key] = old[key]
        if status in "bn":
            raw[key] = tuple(val(f"r_{key}_{i}") for i in range(ar))
            inp[key] = raw[key]
        for i, d in enumerate(digits):
            if sh["first"]:
                off[(key, i)] = 0
                continue
            if d == 0:
                off[(key, i)] = 0
            elif d == 1:
                reminders[NAME][(key, i)] = 0
                off[(key, i)] = 0
            else:
                assert status in "bg", "live offsets only for cached keys"
                v = val(f"m_{key}_{i}")
                reminders[NAME][(key, i)] = v
                reminder_keys[NAME][key].add((key, i))
                off[(key, i)] = v
    return {"cache": cache, "reminders": reminders, "reminder_keys": reminder_keys, "input": inp, "off": off,
            "old": old, "raw": raw, "first": sh["first"], "keys": sh["keys"]}


def symbols(shape):
    names = []
    build(shape, lambda n: names.append(n) or 0)
    return names


# ---- enumeration ---------------------------------------------------------------------------------------------------

def _tokens(arity, full):
    # reachable layouts of a cached key: every position has an entry (1 or 2: the key went through a call that read them
    # all), or only left-over zero entries from an earlier life (0 or 1: the key came back as new and was not read yet)
    reach = list(dict.fromkeys(list(itertools.product((1, 2), repeat=arity)) + list(itertools.product((0, 1), repeat=arity))))
    live = reach if full else \
        [(0,) * arity, (2,) * arity, (1,) * arity, (2, 1, 2)[:arity], (1, 2, 1)[:arity], (1, 0, 1)[:arity], (0, 1, 0)[:arity]]
    dead = list(itertools.product((0, 1), repeat=arity)) if full else [(0,) * arity, (1, 0, 1)[:arity], (0, 1, 0)[:arity]]
    out = []
    for st in "bg":
        out += [st + "".join(map(str, p)) for p in dict.fromkeys(live)]
    for st in "na":
        out += [st + "".join(map(str, p)) for p in dict.fromkeys(dead)]
    return out


def shapes(tier):
    """quick: every status combination of 2 keys (arity 2) with a covering set of reminder states, 1 key with arity 1 and
    3 (all reminder states), the first call.  thorough: all reminder states for 2 keys, and 3 keys with the covering set
    on two of them."""
    out = ["first-2-2", "first-1-1", "first-2-0", "b22-b22-b22", "b212-g11-n010-a00", "b1-b22-g222-n0"]
    out += _tokens(1, True) + _tokens(3, False) + _tokens(2, True)
    small = _tokens(2, False)
    out += [f"{a}-{b}" for a in small for b in small]
    if tier == "thorough":
        full = _tokens(2, True)
        out += [f"{a}-{b}" for a in full for b in full]
        tiny = ["b22", "b01", "b12", "g22", "g21", "g10", "n00", "n10", "a00", "a01"]
        out += [f"{a}-{b}-{c}" for a in small for b in tiny for c in tiny]
        out += [f"{a}-{b}" for a in _tokens(1, True) for b in _tokens(1, True)]
    return list(dict.fromkeys(out))


# ---- the step the property states (reference for the replay) -----------------------------------------------------------

def expected(st):
    """(result, offsets after the call) the property asks of one call on state `st` with integer values"""
    if st["first"]:
        return dict(st["input"]), {k: 0 for k in st["off"]}
    res, off2 = {}, {}
    for key, status, digits in st["keys"]:
        for i in range(len(digits)):
            off2[(key, i)] = 0
        if status == "n":
            res[key] = st["raw"][key]
        elif status == "b":
            bits = []
            for i in range(len(digits)):
                o, r, m = st["old"][key][i], st["raw"][key][i], st["off"][(key, i)]
                m2 = m + (o if r < o else 0)
                off2[(key, i)] = m2
                bits.append(r + m2)
            res[key] = tuple(bits)
    return res, off2
