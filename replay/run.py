"""Replay a solver counter-model against the real code.

usage: run.py <runner id> <model json> <meta json>
Runs under /venv/bin/python with PYTHONPATH=/repo (the tree under check) and
cwd=/verif.  The runner builds the concrete scenario from the model, calls the
real, unmodified function and returns its inputs and outcome; the failed
contract clause is then evaluated concretely (same clause text, same
evaluator, python values instead of terms).  Prints one JSON line."""
import fractions
import json
import os
import sys
import traceback

HERE = os.path.dirname(os.path.dirname(os.path.abspath(__file__)))
sys.path.insert(0, HERE)


def unjson(v):
    if isinstance(v, dict) and "frac" in v:
        return fractions.Fraction(v["frac"][0], v["frac"][1])
    if isinstance(v, dict) and "raw" in v:
        return v["raw"]
    if isinstance(v, list):
        return [unjson(x) for x in v]
    return v


def search_main():
    """run.py --search <rid> <meta json> <budget> <seed>: try candidate inputs until the clause fails"""
    rid, meta_s, budget, seed = sys.argv[2:6]
    meta = json.loads(meta_s)
    from replay import runners
    out = {"reproduced": False, "observed": None, "tried": 0}
    if rid not in runners.SEARCH:
        out["observed"] = "no witness search for " + rid
        print(json.dumps(out))
        return
    name = meta["obligation"]
    n = 0
    n_post = 0
    if not (name.startswith("post#") or name.startswith("xpost:")):
        # a proof artefact (invariant, frame, callee precondition): any clause of the contract may be the one that fails
        try:
            import importlib
            mod = importlib.import_module(f"contracts.{meta['prop']}")
            cc = next(x for x in mod.REGISTRY.all + list(getattr(mod, "BOUNDED_CONTRACTS", [])) if x.name == meta["contract"])
            n_post = len(cc.ensures)
        except Exception:
            n_post = 0
    try:
        for model in runners.SEARCH[rid](meta, int(seed), int(budget)):
            n += 1
            try:
                r = runners.RUNNERS[rid](model, meta)
            except Exception:
                continue
            bad = False
            if "verdict" in r and not name.startswith("post#") and not name.startswith("xpost:unexpected"):
                bad = bool(r["verdict"])    # the runner carries its own oracle (any clause of the contract)
            elif name.startswith("xpost:unexpected"):
                bad = r.get("exc") is not None and type(r["exc"]).__name__ == name.split()[-1]
            elif name.startswith("post#"):
                try:
                    bad = ("verdict" in r and bool(r["verdict"])) or ("verdict" not in r and not eval_clause_concrete(meta, name, r))
                except Exception:
                    bad = False
            elif "verdict" not in r and r.get("exc") is None and n_post:
                for k in range(n_post):
                    try:
                        if not eval_clause_concrete(meta, f"post#{k}:", r):
                            bad = True
                            out["clause"] = f"post#{k}"
                            break
                    except Exception:
                        pass
            if bad:
                out["reproduced"] = True
                out["model"] = model
                out["observed"] = {k: repr(v)[:600] for k, v in r.items() if k != "env"}
                out["inputs"] = {k: repr(v)[:300] for k, v in r.get("env", {}).items()}
                break
            if n >= int(budget):
                break
    except Exception:
        out["observed"] = "search error: " + traceback.format_exc()[-1200:]
    out["tried"] = n
    print(json.dumps(out, default=str))


def sweep_main():
    """run.py --sweep <rid> <meta json> <budget> <seed>: bounded stand-in - every candidate input of
    the contract's generator is run through the real code and ALL ensures clauses are evaluated"""
    import importlib
    rid, meta_s, budget, seed = sys.argv[2:6]
    meta = json.loads(meta_s)
    from replay import runners
    mod = importlib.import_module(f"contracts.{meta['prop']}")
    c = next(x for x in mod.REGISTRY.all + list(getattr(mod, "BOUNDED_CONTRACTS", [])) if x.name == meta["contract"])
    out = {"cases": 0, "evaluations": 0, "failures": [], "samples": [], "distinct": 0}
    _seen = set()
    for model in runners.SEARCH[rid](meta, int(seed), int(budget)):
        if out["cases"] >= int(budget):
            break
        try:
            r = runners.RUNNERS[rid](model, meta)
        except Exception:
            continue
        out["cases"] += 1
        try:
            _seen.add(json.dumps(model, sort_keys=True, default=str))
        except Exception:
            _seen.add(repr(model))
        out["distinct"] = len(_seen)
        out["calls"] = out.get("calls", 0) + int(r.get("calls", 0) or 0)
        if len(out["samples"]) < 3:
            out["samples"].append({k: repr(v)[:200] for k, v in model.items()})
        if "verdict" in r:
            out["evaluations"] += 1
            fname = f"{c.name} :: " + (r.get("tag") or "differs from the independent decoding")
            # a few witnesses per distinct failure name: a frequent (recorded) failure must not crowd out a different one
            if r["verdict"] and sum(1 for f in out["failures"] if f["name"] == fname) < 3 and len(out["failures"]) < 40:
                out["failures"].append({"name": fname,
                                        "model": model,
                                        "observed": repr(r.get("result"))[:300], "expected": repr(r.get("expected"))[:300]})
            continue
        if r.get("exc") is not None:
            if not getattr(c, "raises_any", False):
                out["failures"].append({"name": f"{c.name}: unexpected {type(r['exc']).__name__}", "model": model})
            continue
        for k, cl in enumerate(c.ensures):
            out["evaluations"] += 1
            try:
                ok = eval_clause_concrete(meta, f"post#{k}:", r)
            except Exception:
                ok = True
            if not ok and len(out["failures"]) < 5:
                out["failures"].append({"name": f"{c.name} :: post#{k}:{' '.join(str(cl).split())[:80]}", "model": model,
                                        "observed": repr(r.get("result"))[:300]})
    print(json.dumps(out, default=str))


def main():
    if sys.argv[1] == "--search":
        return search_main()
    if sys.argv[1] == "--sweep":
        return sweep_main()
    rid, model_s, meta_s = sys.argv[1:4]
    model = {k: unjson(v) for k, v in json.loads(model_s).items()}
    meta = json.loads(meta_s)
    from replay import runners
    prop, _, rname = rid.partition(":")
    out = {"reproduced": False, "observed": None}
    try:
        r = runners.RUNNERS[rid](model, meta)
    except Exception:
        out["observed"] = "runner error: " + traceback.format_exc()[-1500:]
        print(json.dumps(out, default=str))
        return
    out["observed"] = {k: repr(v)[:600] for k, v in r.items() if k != "env"}
    out["inputs"] = {k: repr(v)[:300] for k, v in r.get("env", {}).items()}
    name = meta["obligation"]
    try:
        if name.startswith("xpost:unexpected"):
            cls = name.split()[-1]
            out["reproduced"] = r.get("exc") is not None and type(r["exc"]).__name__ == cls
        elif name.startswith("post#") or name.startswith("xpost:"):
            if "verdict" in r:
                out["reproduced"] = bool(r["verdict"])
            else:
                out["reproduced"] = not eval_clause_concrete(meta, name, r)
        elif "verdict" in r:
            out["reproduced"] = bool(r["verdict"])
        if name.startswith("pre@") and "verdict" in r:
            out["reproduced"] = bool(r["verdict"])
    except Exception:
        out["observed"]["clause_eval_error"] = traceback.format_exc()[-1200:]
    print(json.dumps(out, default=str))


def eval_clause_concrete(meta, name, r):
    """evaluate the failed ensures clause on concrete values -> python bool"""
    import importlib
    from vc import contract as cm
    from vc.interp import Interp, Ctx, RepoFunc, ModuleSrc
    from vc import smt
    mod = importlib.import_module(f"contracts.{meta['prop']}")
    c = next(x for x in mod.REGISTRY.all if x.name == meta["contract"])
    if name.startswith("post#"):
        k = int(name[5:name.index(":")])
        clause = c.ensures[k]
        if r.get("exc") is not None:
            return True  # raised instead of returning: judged by the xpost obligations
    else:
        return True
    ctx = Ctx([])
    it = Interp(ctx, mod.REGISTRY, c)
    it.env_over.update(c.env)
    env = dict(r["env"])
    ctx.ghost.update(env.pop("__ghost__", {}))
    env["result"] = r.get("result")
    env = cm.spec_env(it, c, env)
    func = RepoFunc(ModuleSrc.get(c.file), c.qualname, None)
    t = cm.eval_clause(it, clause, env, func)
    if t.sx == "true":
        return True
    if t.sx == "false":
        return False
    # residual term without free symbols: ask the solver to evaluate it
    out, _ = smt.run_solver(f"(set-logic ALL)\n(assert (not {t.sx}))\n(check-sat)\n", "z3", 20)
    return "unsat" in out.split()


if __name__ == "__main__":
    main()
