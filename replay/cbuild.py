"""Build psutil's C extension from the working tree's C sources into a scratch directory (never into /repo).

build(repo, out, sanitize) -> out ; `out/psutil` is an importable copy of the package (the working tree's *.py
plus freshly compiled _psutil_linux / _psutil_posix).  sanitize=True compiles with clang ASan+UBSan; run such a
build with asan_env()."""
import glob
import os
import re
import shutil
import subprocess
import sysconfig
from concurrent.futures import ThreadPoolExecutor

ASAN_RT = "/usr/lib/llvm-14/lib/clang/14.0.6/lib/linux/libclang_rt.asan-x86_64.so"


def macros(repo):
    txt = open(os.path.join(repo, "psutil/__init__.py")).read()
    m = re.search(r'^__version__ = "([\d.]+)"', txt, re.M)
    ver = int(m.group(1).replace(".", "")) if m else 700
    return ["-DPSUTIL_POSIX=1", "-DPSUTIL_LINUX=1", f"-DPSUTIL_VERSION={ver}", "-DPSUTIL_SIZEOF_PID_T=4",
            "-DPy_LIMITED_API=0x03060000"]


def build(repo, out, sanitize=False):
    pkg = os.path.join(out, "psutil")
    os.makedirs(pkg, exist_ok=True)
    for f in glob.glob(os.path.join(repo, "psutil", "*.py")):
        shutil.copy(f, pkg)
    inc = sysconfig.get_paths()["include"]
    cc = ["clang"] if sanitize else ["cc"]
    flags = ["-fPIC", "-O1", "-g", "-I" + inc] + macros(repo)
    if sanitize:
        flags += ["-fsanitize=address,undefined", "-fno-sanitize-recover=undefined", "-fno-omit-frame-pointer"]
    common = ["psutil/_psutil_common.c", "psutil/_psutil_posix.c"]
    linux = ["psutil/_psutil_linux.c"] + sorted(
        os.path.relpath(p, repo) for p in glob.glob(os.path.join(repo, "psutil/arch/linux/*.c")))
    objs = {}

    def comp(src):
        o = os.path.join(out, src.replace("/", "_") + ".o")
        p = subprocess.run(cc + flags + ["-c", os.path.join(repo, src), "-o", o], capture_output=True, text=True)
        if p.returncode != 0:
            raise RuntimeError(f"compile {src}: {p.stderr[-1500:]}")
        objs[src] = o

    with ThreadPoolExecutor(8) as ex:
        list(ex.map(comp, common + linux))
    link = ["-shared"] + (["-fsanitize=address,undefined", "-shared-libasan"] if sanitize else [])
    for name, srcs in (("_psutil_posix", common), ("_psutil_linux", common + linux)):
        so = os.path.join(pkg, name + ".abi3.so")
        p = subprocess.run(cc + link + [objs[s] for s in srcs] + ["-o", so], capture_output=True, text=True)
        if p.returncode != 0:
            raise RuntimeError(f"link {name}: {p.stderr[-1500:]}")
    return out


def asan_env(out, extra=None):
    env = dict(os.environ)
    env.update({"LD_PRELOAD": ASAN_RT, "PYTHONPATH": out, "PYTHONMALLOC": "malloc",
                "ASAN_OPTIONS": "detect_leaks=0:abort_on_error=0:exitcode=77:allocator_may_return_null=1",
                "UBSAN_OPTIONS": "print_stacktrace=1:halt_on_error=1:exitcode=78"})
    env.update(extra or {})
    return env


if __name__ == "__main__":
    import sys
    import time
    t = time.time()
    build(sys.argv[1], sys.argv[2], sanitize=len(sys.argv) > 3)
    print("built in", round(time.time() - t, 1), "s")
