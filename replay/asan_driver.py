"""Runs inside a child interpreter whose psutil extension was built with ASan+UBSan from the working tree.
argv: <mode> <json>.  Prints 'CALL <id> <desc>' (flushed) before every call so the parent can name the
call that killed the interpreter; prints 'RESULT <json>' lines for differential checks."""
import ctypes
import json
import os
import sys

import psutil._psutil_linux as cext
import psutil._psutil_posix as cext_posix

MUTATORS = {"setpriority", "proc_ioprio_set", "proc_cpu_affinity_set"}


def pool():
    big = [0, 1, -1, 2, 7, 8, 2 ** 13, 2 ** 18, 2 ** 31 - 1, 2 ** 31, -2 ** 31, -2 ** 31 - 1, 2 ** 63 - 1, 2 ** 63, -2 ** 63 - 1,
           2 ** 64, 10 ** 100, os.getpid(), "", "lo", "eth0", "x" * 15, "x" * 16, "x" * 17, "x" * 300, "a\0b", "\udcff", "é" * 20,
           b"", b"lo", b"\xff" * 40, None, 1.5, float("nan"), True, [], [0], [0, 0, 1], [-1], [2 ** 70], ["a"], [None],
           list(range(2048)), [1023], [1024], [10 ** 6], (), (0,), {}, {1}, object(), "/proc/mounts", "/nonexistent", "/",
           # names around the sizes of typical message / path buffers (an error path may format the name it was given)
           "n" * 900, "n" * 1000, "n" * 1023, "n" * 1024, "n" * 1100, "n" * 4096, "n" * 70000]
    small = [0, -1, 2 ** 31 - 1, 2 ** 31, 2 ** 64, os.getpid(), "lo", "x" * 300, "n" * 1100, None, [0], [2 ** 70], 1.5]
    tiny = [0, -1, 2 ** 31, 7, 2 ** 20, "x", None]
    return big, small, tiny


def desc(a):
    r = repr(a)
    return r if len(r) < 60 else r[:57] + "..."


def grid(entries, skip, limit):
    big, small, tiny = pool()
    me = os.getpid()
    n = 0
    for mod, name in entries:
        f = getattr(cext if mod == "linux" else cext_posix, name, None)
        if f is None:
            continue
        first_big = big
        first_small = small
        first_tiny = tiny
        if name in MUTATORS:      # never touch a process other than this disposable child
            safe = [me, 0, 2 ** 31 - 1, 2 ** 31, "x", None, 2 ** 64]
            first_big = first_small = first_tiny = safe
        cases = [()]
        cases += [(a,) for a in first_big]
        cases += [(a, b) for a in first_small for b in small]
        cases += [(a, b, c) for a in first_tiny for b in tiny for c in tiny]
        if name == "proc_cpu_affinity_set":
            cases += [(me, s) for s in big]
        if name == "proc_ioprio_set":
            cases += [(me, c, d) for c in (0, 1, 2, 3, 4, 7, 8, -1, 2 ** 18, 2 ** 18 - 1, 2 ** 20, 2 ** 31 - 1, -2 ** 31)
                      for d in (0, 7, 8, 8191, 8192, -1, 2 ** 31 - 1, -2 ** 31)]
        if name == "setpriority":
            cases += [(me, v) for v in list(range(0, 20)) + [2 ** 31 - 1, -2 ** 31, 100, -100][:2]]
        for args in cases:
            n += 1
            if n <= skip:
                continue
            if n > limit:
                return
            print(f"CALL {n} {mod}.{name}({', '.join(desc(a) for a in args)})", flush=True)
            try:
                f(*args)
            except Exception:  # noqa: BLE001   a Python exception is a legal outcome
                pass
    print(f"DONE {n}", flush=True)


def users_files(files):
    libc = ctypes.CDLL(None)
    for i, path in enumerate(files):
        print(f"CALL {i} users() on {path}", flush=True)
        libc.utmpname(path.encode())
        try:
            r = cext.users()
            print("RESULT " + json.dumps({"file": path, "value": [[x[0].encode("utf-8", "surrogateescape").hex(),
                                                                   x[1].encode("utf-8", "surrogateescape").hex(),
                                                                   x[2].encode("utf-8", "surrogateescape").hex(), x[3], x[4]]
                                                                  for x in r]}), flush=True)
        except Exception as e:  # noqa: BLE001
            print("RESULT " + json.dumps({"file": path, "exc": repr(e)}), flush=True)
    print("DONE", flush=True)


def mounts_files(files, repeat):
    for i, path in enumerate(files):
        print(f"CALL {i} disk_partitions({path!r})", flush=True)
        out = None
        for _ in range(repeat):
            try:
                r = cext.disk_partitions(path)
                out = {"file": path, "value": [[s.encode("utf-8", "surrogateescape").hex() for s in t] for t in r]}
            except Exception as e:  # noqa: BLE001
                out = {"file": path, "exc": type(e).__name__}
        junk = [str(k) * 3 for k in range(2000)]      # reuse freed blocks: makes a double release visible
        del junk
        print("RESULT " + json.dumps(out), flush=True)
    print("DONE", flush=True)


if __name__ == "__main__":
    mode, arg = sys.argv[1], json.loads(sys.argv[2])
    if mode == "grid":
        grid([tuple(e) for e in arg["entries"]], arg.get("skip", 0), arg.get("limit", 10 ** 9))
    elif mode == "users":
        users_files(arg["files"])
    elif mode == "mounts":
        mounts_files(arg["files"], arg.get("repeat", 3))
