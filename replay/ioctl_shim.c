/* LD_PRELOAD shim used only by replay runner c17:ethtool: answers SIOCETHTOOL with the speed words given in
 * VF_SPEED / VF_SPEED_HI (what a driver reporting that link speed would return); every other ioctl goes to libc. */
#define _GNU_SOURCE
#include <dlfcn.h>
#include <stdarg.h>
#include <stdlib.h>
#include <net/if.h>
#include <linux/ethtool.h>
#include <linux/sockios.h>

int ioctl(int fd, unsigned long req, ...) {
    static int (*real)(int, unsigned long, void *) = 0;
    va_list ap;
    void *arg;
    va_start(ap, req);
    arg = va_arg(ap, void *);
    va_end(ap);
    if (!real)
        real = (int (*)(int, unsigned long, void *))dlsym(RTLD_NEXT, "ioctl");
    if (req == SIOCETHTOOL && getenv("VF_SPEED_HI")) {
        struct ifreq *ifr = (struct ifreq *)arg;
        struct ethtool_cmd *e = (struct ethtool_cmd *)ifr->ifr_data;
        e->speed = (unsigned short)strtoul(getenv("VF_SPEED") ? getenv("VF_SPEED") : "0", 0, 0);
        e->speed_hi = (unsigned short)strtoul(getenv("VF_SPEED_HI"), 0, 0);
        e->duplex = 1;
        return 0;
    }
    return real(fd, req, arg);
}
