"""Runners for the C-level properties (C17, C18): the extension is rebuilt from the working tree's C sources
into a scratch directory (removed at exit) and the real code is driven there - never the stale in-place .so."""
import atexit
import ctypes
import itertools
import json
import os
import random
import shutil
import signal
import struct
import subprocess
import sys
import tempfile

from replay.runners import runner, search, RUNNERS, SEARCH  # noqa: F401

REPO = os.environ.get("VERIF_REPO", "/repo")
_BUILD = {}


def fresh_build(sanitize=False):
    key = bool(sanitize)
    if key not in _BUILD:
        from replay import cbuild
        d = tempfile.mkdtemp(prefix="vfcext_")
        atexit.register(shutil.rmtree, d, True)
        cbuild.build(REPO, d, sanitize=sanitize)
        _BUILD[key] = d
    return _BUILD[key]


def fresh_psutil():
    """psutil imported from the fresh build (py files of the working tree + just-compiled extension)"""
    d = fresh_build()
    cur = sys.modules.get("psutil")
    if cur is not None and getattr(cur, "__file__", "").startswith(d):
        return cur
    for k in [k for k in sys.modules if k == "psutil" or k.startswith("psutil.")]:
        del sys.modules[k]
    sys.path.insert(0, d)
    import psutil
    assert psutil.__file__.startswith(d), psutil.__file__
    return psutil


# ---------------------------------------------------------------------------------------------------------
# C18: live children
# ---------------------------------------------------------------------------------------------------------
_KIDS = {}
SYS_ioprio_get = 252
_libc = ctypes.CDLL(None, use_errno=True)


def kids():
    if not _KIDS:
        for nm in ("child", "bystander"):
            p = subprocess.Popen([sys.executable, "-c", "import time; time.sleep(3600)"])
            _KIDS[nm] = p
            atexit.register(lambda p=p: (p.kill(), p.wait()))
    return _KIDS["child"].pid, _KIDS["bystander"].pid


def k_ioprio(pid):
    r = _libc.syscall(SYS_ioprio_get, 1, pid)
    return (r >> 13, r & 0x1fff)


def snapshot(pid):
    import resource
    return {"nice": os.getpriority(os.PRIO_PROCESS, pid), "aff": sorted(os.sched_getaffinity(pid)),
            "ioprio": k_ioprio(pid), "nofile": resource.prlimit(pid, resource.RLIMIT_NOFILE)}


@runner("c18:live")
def c18_live(model, meta):
    import resource
    psutil = fresh_psutil()
    # counter-model of the C proof -> the concrete request it stands for
    if "op" not in model:
        if "getpriority_ret" in model:
            model = {"op": "nice", "value": int(model["getpriority_ret"])}
        else:
            model = {"op": "nice", "value": -1}
    cpid, bpid = kids()
    p = psutil.Process(cpid)
    before_b, before_me = snapshot(bpid), snapshot(os.getpid())
    op = model["op"]
    problems = []
    try:
        if op == "nice":
            v = model["value"]
            p.nice(v)
            k = os.getpriority(os.PRIO_PROCESS, cpid)
            try:
                got = p.nice()
            except Exception as e:  # noqa: BLE001
                got = f"raised {e!r}"
            if not (got == v == k):
                problems.append(f"nice({v}): kernel reports {k}, Process.nice() -> {got}")
        elif op == "ionice":
            cls, lvl = model["ioclass"], model["level"]
            valid = (cls in (1, 2) and (lvl is None or 0 <= lvl <= 7)) or (cls in (0, 3) and not lvl)
            prev = k_ioprio(cpid)
            try:
                p.ionice(cls, lvl)
                err = None
            except ValueError as e:
                err = e
            if not valid:
                if err is None:
                    problems.append(f"ionice({cls}, {lvl}) invalid request accepted")
                if k_ioprio(cpid) != prev:
                    problems.append(f"ionice({cls}, {lvl}) invalid request changed the kernel value")
            else:
                if err is not None:
                    problems.append(f"ionice({cls}, {lvl}) valid request raised {err!r}")
                got, k = tuple(p.ionice()), k_ioprio(cpid)
                if (int(got[0]), got[1]) != k:
                    problems.append(f"ionice get {got} != kernel {k}")
                if cls != 0 and k != (cls, lvl or 0):
                    problems.append(f"ionice({cls}, {lvl}): kernel reports {k}")
                if cls == 0 and k[0] != 0 and k != prev and False:
                    problems.append("none class")
        elif op == "ionice_noclass":
            prev = k_ioprio(cpid)
            try:
                p.ionice(value=model["level"])
                problems.append("a level without a class was accepted")
            except ValueError:
                pass
            if k_ioprio(cpid) != prev:
                problems.append("a level without a class changed the kernel value")
        elif op == "affinity":
            cpus = model["cpus"]
            p.cpu_affinity(cpus)
            want = sorted(set(cpus)) if cpus else model["eligible"]
            got, k = p.cpu_affinity(), sorted(os.sched_getaffinity(cpid))
            if not (got == want == k):
                problems.append(f"cpu_affinity({cpus}): want {want}, get {got}, kernel {k}")
        elif op == "affinity_bad":
            prev = sorted(os.sched_getaffinity(cpid))
            try:
                p.cpu_affinity(model["cpus"])
                problems.append(f"cpu_affinity({model['cpus']}) accepted")
            except ValueError:
                pass
            except Exception as e:  # noqa: BLE001
                problems.append(f"cpu_affinity({model['cpus']}) raised {e!r} instead of ValueError")
            if sorted(os.sched_getaffinity(cpid)) != prev:
                problems.append("rejected cpu_affinity request changed the mask")
        elif op == "rlimit":
            res = model["res"]
            cur = resource.prlimit(cpid, res)
            if tuple(p.rlimit(res)) != tuple(cur):
                problems.append(f"rlimit({res}) get {p.rlimit(res)} != kernel {cur}")
            soft = model["soft"]
            hard = cur[1]
            if soft == "inf":
                soft = resource.RLIM_INFINITY
            if hard != resource.RLIM_INFINITY and (soft == resource.RLIM_INFINITY or soft > hard):
                soft = hard
            p.rlimit(res, (soft, hard))
            k = resource.prlimit(cpid, res)
            if not (tuple(p.rlimit(res)) == tuple(k) == (soft, hard)):
                problems.append(f"rlimit({res}, {(soft, hard)}): get {p.rlimit(res)}, kernel {k}")
            resource.prlimit(cpid, res, cur)
        elif op == "rlimit_bad":
            res = resource.RLIMIT_NOFILE
            prev = resource.prlimit(cpid, res)
            try:
                p.rlimit(res, tuple(model["limits"]))
                problems.append(f"rlimit limits={model['limits']} accepted")
            except ValueError:
                pass
            if resource.prlimit(cpid, res) != prev:
                problems.append("rejected rlimit request changed the limits")
    except psutil.AccessDenied as e:
        return {"env": {}, "result": f"skipped: {e!r}", "exc": None, "verdict": False}
    if snapshot(bpid) != before_b:
        problems.append(f"bystander changed: {before_b} -> {snapshot(bpid)}")
    if snapshot(os.getpid()) != before_me:
        problems.append("the calling process changed")
    return {"env": {}, "result": problems, "exc": None, "verdict": bool(problems), "expected": [],
            "tag": problems[0][:120] if problems else None}


@search("c18:live")
def c18_live_search(meta, seed, budget):
    import resource
    rnd = random.Random(seed)
    cpid, _ = kids()
    elig = sorted(os.sched_getaffinity(cpid))
    root = os.geteuid() == 0
    for v in (range(-20, 20) if root else range(0, 20)):
        yield {"op": "nice", "value": v}
    if not root:
        return
    for cls in (0, 1, 2, 3, 0):
        for lvl in (None, 0, 1, 2, 3, 4, 5, 6, 7, 8, -1):
            yield {"op": "ionice", "ioclass": cls, "level": lvl}
    for lvl in (0, 1, 7):
        yield {"op": "ionice_noclass", "level": lvl}
    yield {"op": "affinity", "cpus": [], "eligible": elig}
    for c in elig:
        yield {"op": "affinity", "cpus": [c], "eligible": elig}
    for a, b in itertools.combinations(elig, 2):
        yield {"op": "affinity", "cpus": [b, a, b], "eligible": elig}       # duplicates, unordered
    ncpu = os.cpu_count()
    for bad in ([ncpu + 7], [-1], [ncpu, ncpu + 1], [10 ** 6], [2 ** 40]):
        yield {"op": "affinity_bad", "cpus": bad}
    res = sorted({getattr(resource, n) for n in dir(resource) if n.startswith("RLIMIT_")})
    for r in res:
        for soft in (0, 1, 1024, "inf"):
            yield {"op": "rlimit", "res": r, "soft": soft}
    for lim in ([1], [1, 2, 3], []):
        yield {"op": "rlimit_bad", "limits": lim}
    yield {"op": "affinity", "cpus": [], "eligible": elig}
    n = 0
    while n < budget:
        n += 1
        k = rnd.randint(1, len(elig))
        yield {"op": "affinity", "cpus": rnd.sample(elig, k) + rnd.sample(elig, 1), "eligible": elig}


@runner("c18:ioprio_set")
def c18_ioprio_set(model, meta):
    """UB obligations of the packing: run the sanitizer build on the counter-model's (ioclass, iodata)"""
    d = fresh_build(sanitize=True)
    from replay import cbuild
    cls = int(model.get("arg1_ioclass", 1 << 20))
    dat = int(model.get("arg2_iodata", 0))
    code = ("import os, psutil._psutil_linux as c\n"
            f"try:\n    c.proc_ioprio_set(os.getpid(), {cls}, {dat})\nexcept (OSError, ValueError) as e:\n    print('py-exc', e)\n")
    p = subprocess.run([sys.executable, "-c", code], env=cbuild.asan_env(d), capture_output=True, text=True, timeout=120)
    bad = p.returncode != 0 and "runtime error" in p.stderr
    return {"env": {}, "result": (p.returncode, p.stderr[-600:]), "exc": None, "verdict": bad}


@runner("c18:ionice_set")
def c18_ionice_set(model, meta):
    psutil = fresh_psutil()
    from unittest import mock
    calls = []
    cls, val = int(model.get("ioclass", 0)), model.get("value")
    val = None if val is None else int(val)
    p = psutil.Process()
    with mock.patch.object(psutil._psplatform.cext, "proc_ioprio_set", lambda *a: calls.append(a), create=True):
        try:
            p._proc.ionice_set(cls, val)
            exc = None
        except Exception as e:  # noqa: BLE001
            exc = e
    v = 0 if val is None else val
    invalid = v < 0 or v > 7 or (v != 0 and cls in (0, 3))
    bad = (invalid and (calls or not isinstance(exc, ValueError))) or (not invalid and calls != [(p.pid, cls, v)])
    return {"env": {"ioclass": cls, "v": v, "pid": p.pid, "log": [("proc_ioprio_set",) + c for c in calls]},
            "result": None, "exc": exc, "verdict": bad}


def parse_allowed(s):
    out = []
    for part in s.split(","):
        lo, _, hi = part.partition("-")
        out.extend(range(int(lo), int(hi or lo) + 1))
    return out


@runner("c18:eligible")
def c18_eligible(model, meta):
    """generated status record + simulated kernel (sched_setaffinity fails with EINVAL iff the request has no
    allowed CPU)"""
    import errno
    from unittest import mock
    from replay.runners import fake_procfs
    psutil = fresh_psutil()
    allowed = model["allowed"]
    ncpu = model.get("ncpu", 16)
    pid = os.getpid()
    status = (f"Name:\tx\nUid:\t0\t0\t0\t0\nGid:\t0\t0\t0\t0\nThreads:\t1\nCpus_allowed:\tff\n"
              f"Cpus_allowed_list:\t{allowed}\nvoluntary_ctxt_switches:\t1\nnonvoluntary_ctxt_switches:\t1\n").encode()
    calls = []
    want = parse_allowed(allowed)

    def k_setaffinity(pid_, cpus):
        if not (set(cpus) & set(want)):
            raise OSError(errno.EINVAL, "Invalid argument")
        calls.append(list(cpus))

    problems = []
    if True:
        p = psutil.Process(pid)
        with mock.patch.object(psutil._psplatform.Process, "_read_status_file", lambda self: status), \
                mock.patch.object(psutil._psplatform, "per_cpu_times", lambda: [None] * ncpu), \
                mock.patch.object(psutil._psplatform.cext, "proc_cpu_affinity_set", k_setaffinity), \
                mock.patch.object(psutil.Process, "_raise_if_pid_reused", lambda self: None):
            try:
                p.cpu_affinity([])
            except Exception as e:  # noqa: BLE001
                problems.append(f"cpu_affinity([]) raised {e!r}")
            passed = sorted(calls[-1]) if calls else None
            # the kernel intersects the request with the allowed set
            if passed is None or not set(want) <= set(passed):
                problems.append(f"cpu_affinity([]) does not select all eligible CPUs: passes {passed}, eligible {want}")
            inel = [c for c in range(ncpu) if c not in want]
            tag = None
            if inel:
                n0 = len(calls)
                try:
                    p.cpu_affinity([inel[0]])
                    problems.append(f"cpu_affinity([{inel[0]}]) (ineligible) accepted")
                except ValueError:
                    pass
                except OSError as e:
                    if "-" not in allowed:
                        tag = "ineligible-cpu-not-diagnosed-when-allowed-list-has-no-range"
                    problems.append(f"cpu_affinity([{inel[0]}]) (ineligible) raised {e!r} instead of ValueError")
                if len(calls) != n0:
                    problems.append("rejected request reached the kernel")
            try:
                p.cpu_affinity([ncpu + 3])
                problems.append("nonexistent CPU accepted")
            except ValueError:
                pass
            except OSError as e:
                problems.append(f"nonexistent CPU raised {e!r} instead of ValueError")
    if problems and tag is None:
        tag = problems[0][:100]
    return {"env": {}, "result": problems, "expected": [], "exc": None, "verdict": bool(problems), "tag": tag}


@search("c18:eligible")
def c18_eligible_search(meta, seed, budget):
    rnd = random.Random(seed)
    for a in ("0-7", "0-15", "3-5", "0-3,8-11", "0-1,4-5,8-9", "2-3,7", "0,2-3", "1-2,4,6-7", "0-3,5", "5", "0,2"):
        yield {"allowed": a, "ncpu": 16}
    n = 0
    while n < budget:
        n += 1
        parts, cur = [], 0
        for _ in range(rnd.randint(1, 4)):
            lo = cur + rnd.randint(0, 3)
            hi = lo + rnd.randint(0, 4)
            parts.append(f"{lo}-{hi}" if hi > lo else f"{lo}")
            cur = hi + 2
        s = ",".join(parts)
        if "-" in s:
            yield {"allowed": s, "ncpu": max(16, cur + 1)}
