"""Runners for the C-level properties (C17, C18): the extension is rebuilt from the working tree's C sources
into a scratch directory (removed at exit) and the real code is driven there - never the stale in-place .so."""
import atexit
import ctypes
import itertools
import json
import os
import random
import re
import shutil
import signal
import struct
import subprocess
import sys
import tempfile

from replay.runners import runner, search, RUNNERS, SEARCH  # noqa: F401

REPO = os.environ.get("VERIF_REPO", "/repo")
_BUILD = {}


def fresh_build(sanitize=False):
    key = bool(sanitize)
    if key not in _BUILD:
        from replay import cbuild
        d = tempfile.mkdtemp(prefix="vfcext_")
        atexit.register(shutil.rmtree, d, True)
        cbuild.build(REPO, d, sanitize=sanitize)
        _BUILD[key] = d
    return _BUILD[key]


def fresh_psutil():
    """psutil imported from the fresh build (py files of the working tree + just-compiled extension)"""
    d = fresh_build()
    cur = sys.modules.get("psutil")
    if cur is not None and getattr(cur, "__file__", "").startswith(d):
        return cur
    for k in [k for k in sys.modules if k == "psutil" or k.startswith("psutil.")]:
        del sys.modules[k]
    sys.path.insert(0, d)
    import psutil
    assert psutil.__file__.startswith(d), psutil.__file__
    return psutil


# ---------------------------------------------------------------------------------------------------------
# C18: live children
# ---------------------------------------------------------------------------------------------------------
_KIDS = {}
SYS_ioprio_get = 252
_libc = ctypes.CDLL(None, use_errno=True)


def kids():
    if not _KIDS:
        for nm in ("child", "bystander"):
            p = subprocess.Popen([sys.executable, "-c", "import time; time.sleep(3600)"])
            _KIDS[nm] = p
            atexit.register(lambda p=p: (p.kill(), p.wait()))
    return _KIDS["child"].pid, _KIDS["bystander"].pid


def k_ioprio(pid):
    r = _libc.syscall(SYS_ioprio_get, 1, pid)
    return (r >> 13, r & 0x1fff)


def snapshot(pid):
    import resource
    return {"nice": os.getpriority(os.PRIO_PROCESS, pid), "aff": sorted(os.sched_getaffinity(pid)),
            "ioprio": k_ioprio(pid), "nofile": resource.prlimit(pid, resource.RLIMIT_NOFILE)}


@runner("c18:live")
def c18_live(model, meta):
    import resource
    psutil = fresh_psutil()
    # counter-model of the C proof -> the concrete request it stands for
    if "op" not in model:
        if "getpriority_ret" in model:
            model = {"op": "nice", "value": int(model["getpriority_ret"])}
        else:
            model = {"op": "nice", "value": -1}
    cpid, bpid = kids()
    p = psutil.Process(cpid)
    before_b, before_me = snapshot(bpid), snapshot(os.getpid())
    op = model["op"]
    problems = []
    known_tag = None
    import contextlib
    stack = contextlib.ExitStack()
    if model.get("oneshot"):
        # the same round trip inside a oneshot() block whose caches are already filled: a setter followed by its getter
        # must still report the value just set ("get reads the kernel")
        stack.enter_context(p.oneshot())
        for warm in ("name", "cpu_times", "uids", "num_threads", "ppid", "memory_info"):
            try:
                getattr(p, warm)()
            except Exception:  # noqa: BLE001
                pass
    try:
      with stack:
        if op == "nice":
            v = model["value"]
            p.nice(v)
            k = os.getpriority(os.PRIO_PROCESS, cpid)
            try:
                got = p.nice()
            except Exception as e:  # noqa: BLE001
                got = f"raised {e!r}"
            if not (got == v == k):
                problems.append(f"nice({v}): kernel reports {k}, Process.nice() -> {got}")
        elif op == "ionice":
            cls, lvl = model["ioclass"], model["level"]
            valid = (cls in (1, 2) and (lvl is None or 0 <= lvl <= 7)) or (cls in (0, 3) and not lvl)
            prev = k_ioprio(cpid)
            try:
                p.ionice(cls, lvl)
                err = None
            except ValueError as e:
                err = e
            if not valid:
                if err is None:
                    problems.append(f"ionice({cls}, {lvl}) invalid request accepted")
                if k_ioprio(cpid) != prev:
                    problems.append(f"ionice({cls}, {lvl}) invalid request changed the kernel value")
            else:
                if err is not None:
                    problems.append(f"ionice({cls}, {lvl}) valid request raised {err!r}")
                got, k = tuple(p.ionice()), k_ioprio(cpid)
                if (int(got[0]), got[1]) != k:
                    problems.append(f"ionice get {got} != kernel {k}")
                if cls != 0 and k != (cls, lvl or 0):
                    problems.append(f"ionice({cls}, {lvl}): kernel reports {k}")
                if cls == 0 and k[0] != 0 and k != prev and False:
                    problems.append("none class")
        elif op == "ionice_noclass":
            prev = k_ioprio(cpid)
            try:
                p.ionice(value=model["level"])
                problems.append("a level without a class was accepted")
            except ValueError:
                pass
            if k_ioprio(cpid) != prev:
                problems.append("a level without a class changed the kernel value")
        elif op == "affinity":
            cpus = model["cpus"]
            prev = sorted(os.sched_getaffinity(cpid))
            p.cpu_affinity(cpus)
            want = sorted(set(cpus)) if cpus else model["eligible"]
            got, k = p.cpu_affinity(), sorted(os.sched_getaffinity(cpid))
            if not (got == want == k):
                problems.append(f"cpu_affinity({cpus}): want {want}, get {got}, kernel {k}")
                if not cpus and got == k == prev and prev != want:
                    known_tag = "empty-list-keeps-a-narrowed-mask"
        elif op == "affinity_bad":
            prev = sorted(os.sched_getaffinity(cpid))
            try:
                p.cpu_affinity(model["cpus"])
                problems.append(f"cpu_affinity({model['cpus']}) accepted")
            except ValueError:
                pass
            except Exception as e:  # noqa: BLE001
                problems.append(f"cpu_affinity({model['cpus']}) raised {e!r} instead of ValueError")
            if sorted(os.sched_getaffinity(cpid)) != prev:
                problems.append("rejected cpu_affinity request changed the mask")
        elif op == "rlimit":
            res = model["res"]
            cur = resource.prlimit(cpid, res)
            if tuple(p.rlimit(res)) != tuple(cur):
                problems.append(f"rlimit({res}) get {p.rlimit(res)} != kernel {cur}")
            soft = model["soft"]
            hard = cur[1]
            if soft == "inf":
                soft = resource.RLIM_INFINITY
            if hard != resource.RLIM_INFINITY and (soft == resource.RLIM_INFINITY or soft > hard):
                soft = hard
            p.rlimit(res, (soft, hard))
            k = resource.prlimit(cpid, res)
            if not (tuple(p.rlimit(res)) == tuple(k) == (soft, hard)):
                problems.append(f"rlimit({res}, {(soft, hard)}): get {p.rlimit(res)}, kernel {k}")
            resource.prlimit(cpid, res, cur)
        elif op == "rlimit_bad":
            res = resource.RLIMIT_NOFILE
            prev = resource.prlimit(cpid, res)
            try:
                p.rlimit(res, tuple(model["limits"]))
                problems.append(f"rlimit limits={model['limits']} accepted")
            except ValueError:
                pass
            if resource.prlimit(cpid, res) != prev:
                problems.append("rejected rlimit request changed the limits")
    except psutil.AccessDenied as e:
        return {"env": {}, "result": f"skipped: {e!r}", "exc": None, "verdict": False}
    if snapshot(bpid) != before_b:
        problems.append(f"bystander changed: {before_b} -> {snapshot(bpid)}")
    if snapshot(os.getpid()) != before_me:
        problems.append("the calling process changed")
    return {"env": {}, "result": problems, "exc": None, "verdict": bool(problems), "expected": [],
            "tag": (known_tag if known_tag and len(problems) == 1 else problems[0][:120]) if problems else None}


@search("c18:live")
def c18_live_search(meta, seed, budget):
    import resource
    rnd = random.Random(seed)
    cpid, _ = kids()
    elig = sorted(os.sched_getaffinity(cpid))
    root = os.geteuid() == 0
    for v in (range(-20, 20) if root else range(0, 20)):
        yield {"op": "nice", "value": v}
    for v in ((-20, -1, 0, 7, 19) if root else (3, 9, 19)):
        yield {"op": "nice", "value": v, "oneshot": True}
    if not root:
        return
    yield {"op": "ionice", "ioclass": 2, "level": 5, "oneshot": True}
    yield {"op": "ionice", "ioclass": 3, "level": None, "oneshot": True}
    if len(elig) > 1:
        yield {"op": "affinity", "cpus": elig[:1], "eligible": elig, "oneshot": True}
        yield {"op": "affinity", "cpus": elig, "eligible": elig, "oneshot": True}
    yield {"op": "rlimit", "res": resource.RLIMIT_NOFILE, "soft": 512, "oneshot": True}
    for cls in (0, 1, 2, 3, 0):
        for lvl in (None, 0, 1, 2, 3, 4, 5, 6, 7, 8, -1):
            yield {"op": "ionice", "ioclass": cls, "level": lvl}
    for lvl in (0, 1, 7):
        yield {"op": "ionice_noclass", "level": lvl}
    yield {"op": "affinity", "cpus": [], "eligible": elig}
    if len(elig) > 1:
        yield {"op": "affinity", "cpus": elig[-2:] if len(elig) > 2 else elig[-1:], "eligible": elig}
        yield {"op": "affinity", "cpus": [], "eligible": elig}          # [] after a narrower mask
        yield {"op": "affinity", "cpus": elig, "eligible": elig}
    for c in elig:
        yield {"op": "affinity", "cpus": [c], "eligible": elig}
    for a, b in itertools.combinations(elig, 2):
        yield {"op": "affinity", "cpus": [b, a, b], "eligible": elig}       # duplicates, unordered
    ncpu = os.cpu_count()
    for bad in ([ncpu + 7], [-1], [ncpu, ncpu + 1], [10 ** 6], [2 ** 40]):
        yield {"op": "affinity_bad", "cpus": bad}
    res = sorted({getattr(resource, n) for n in dir(resource) if n.startswith("RLIMIT_")})
    for r in res:
        for soft in (0, 1, 1024, "inf"):
            yield {"op": "rlimit", "res": r, "soft": soft}
    for lim in ([1], [1, 2, 3], []):
        yield {"op": "rlimit_bad", "limits": lim}
    yield {"op": "affinity", "cpus": [], "eligible": elig}
    n = 0
    while n < budget:
        n += 1
        k = rnd.randint(1, len(elig))
        yield {"op": "affinity", "cpus": rnd.sample(elig, k) + rnd.sample(elig, 1), "eligible": elig}


@runner("c18:ioprio_set")
def c18_ioprio_set(model, meta):
    """UB obligations of the packing: run the sanitizer build on the counter-model's (ioclass, iodata)"""
    d = fresh_build(sanitize=True)
    from replay import cbuild
    cls = int(model.get("arg1_ioclass", 1 << 20))
    dat = int(model.get("arg2_iodata", 0))
    code = ("import os, psutil._psutil_linux as c\n"
            f"try:\n    c.proc_ioprio_set(os.getpid(), {cls}, {dat})\nexcept (OSError, ValueError) as e:\n    print('py-exc', e)\n")
    p = subprocess.run([sys.executable, "-c", code], env=cbuild.asan_env(d), capture_output=True, text=True, timeout=120)
    bad = p.returncode != 0 and "runtime error" in p.stderr
    return {"env": {}, "result": (p.returncode, p.stderr[-600:]), "exc": None, "verdict": bad}


@runner("c18:ionice_set")
def c18_ionice_set(model, meta):
    psutil = fresh_psutil()
    from unittest import mock
    calls = []
    cls, val = int(model.get("ioclass", 0)), model.get("value")
    val = None if val is None else int(val)
    p = psutil.Process()
    with mock.patch.object(psutil._psplatform.cext, "proc_ioprio_set", lambda *a: calls.append(a), create=True):
        try:
            p._proc.ionice_set(cls, val)
            exc = None
        except Exception as e:  # noqa: BLE001
            exc = e
    v = 0 if val is None else val
    invalid = v < 0 or v > 7 or (v != 0 and cls in (0, 3))
    bad = (invalid and (calls or not isinstance(exc, ValueError))) or (not invalid and calls != [(p.pid, cls, v)])
    return {"env": {"ioclass": cls, "v": v, "pid": p.pid, "log": [("proc_ioprio_set",) + c for c in calls]},
            "result": None, "exc": exc, "verdict": bad}


def parse_allowed(s):
    out = []
    for part in s.split(","):
        lo, _, hi = part.partition("-")
        out.extend(range(int(lo), int(hi or lo) + 1))
    return out


@runner("c18:eligible")
def c18_eligible(model, meta):
    """generated status record + simulated kernel (sched_setaffinity fails with EINVAL iff the request has no
    allowed CPU)"""
    import errno
    from unittest import mock
    from replay.runners import fake_procfs
    psutil = fresh_psutil()
    allowed = model["allowed"]
    ncpu = model.get("ncpu", 16)
    pid = os.getpid()
    status = (f"Name:\tx\nUid:\t0\t0\t0\t0\nGid:\t0\t0\t0\t0\nThreads:\t1\nCpus_allowed:\tff\n"
              f"Cpus_allowed_list:\t{allowed}\nvoluntary_ctxt_switches:\t1\nnonvoluntary_ctxt_switches:\t1\n").encode()
    calls = []
    want = parse_allowed(allowed)

    def k_setaffinity(pid_, cpus):
        if not (set(cpus) & set(want)):
            raise OSError(errno.EINVAL, "Invalid argument")
        calls.append(list(cpus))

    problems = []
    if True:
        p = psutil.Process(pid)
        with mock.patch.object(psutil._psplatform.Process, "_read_status_file", lambda self: status), \
                mock.patch.object(psutil._psplatform, "per_cpu_times", lambda: [None] * ncpu), \
                mock.patch.object(psutil._psplatform.cext, "proc_cpu_affinity_set", k_setaffinity), \
                mock.patch.object(psutil.Process, "_raise_if_pid_reused", lambda self: None):
            try:
                p.cpu_affinity([])
            except Exception as e:  # noqa: BLE001
                problems.append(f"cpu_affinity([]) raised {e!r}")
            passed = sorted(calls[-1]) if calls else None
            # the kernel intersects the request with the allowed set
            if passed is None or not set(want) <= set(passed):
                problems.append(f"cpu_affinity([]) does not select all eligible CPUs: passes {passed}, eligible {want}")
            inel = [c for c in range(ncpu) if c not in want]
            tag = None
            if inel:
                n0 = len(calls)
                try:
                    p.cpu_affinity([inel[0]])
                    problems.append(f"cpu_affinity([{inel[0]}]) (ineligible) accepted")
                except ValueError:
                    pass
                except OSError as e:
                    if "-" not in allowed:
                        tag = "ineligible-cpu-not-diagnosed-when-allowed-list-has-no-range"
                    problems.append(f"cpu_affinity([{inel[0]}]) (ineligible) raised {e!r} instead of ValueError")
                if len(calls) != n0:
                    problems.append("rejected request reached the kernel")
            try:
                p.cpu_affinity([ncpu + 3])
                problems.append("nonexistent CPU accepted")
            except ValueError:
                pass
            except OSError as e:
                problems.append(f"nonexistent CPU raised {e!r} instead of ValueError")
    if problems and tag is None:
        tag = problems[0][:100]
    return {"env": {}, "result": problems, "expected": [], "exc": None, "verdict": bool(problems), "tag": tag}


@search("c18:eligible")
def c18_eligible_search(meta, seed, budget):
    rnd = random.Random(seed)
    for a in ("0-7", "0-15", "3-5", "0-3,8-11", "0-1,4-5,8-9", "2-3,7", "0,2-3", "1-2,4,6-7", "0-3,5", "5", "0,2"):
        yield {"allowed": a, "ncpu": 16}
    n = 0
    while n < budget:
        n += 1
        parts, cur = [], 0
        for _ in range(rnd.randint(1, 4)):
            lo = cur + rnd.randint(0, 3)
            hi = lo + rnd.randint(0, 4)
            parts.append(f"{lo}-{hi}" if hi > lo else f"{lo}")
            cur = hi + 2
        s = ",".join(parts)
        if "-" in s:
            yield {"allowed": s, "ncpu": max(16, cur + 1)}


# ---------------------------------------------------------------------------------------------------------
# C17: sanitizer build of the working tree's extension
# ---------------------------------------------------------------------------------------------------------
UTMP = struct.Struct("hi32s4s32s256shhiii4i20s")
assert UTMP.size == 384
HERE = os.path.dirname(os.path.abspath(__file__))


def utmp_record(ut_type=7, pid=1234, line=b"pts/0", user=b"root", host=b"", sec=1700000000):
    # neighbouring fields are non-zero so that a read past a full-width field becomes visible in the result
    return UTMP.pack(ut_type, pid, line, b"ts/0", user, host, 0x4141, 0x4141, 0x41414141, sec, 0, 0, 0, 0, 0, b"")


def cut(b):
    return b.split(b"\0", 1)[0]


def users_expected(recs):
    out = []
    for (t, pid, line, user, host, sec) in recs:
        if t != 7:
            continue
        h = cut(host[:256])
        if h in (b":0", b":0.0"):
            h = b"localhost"
        out.append([cut(user[:32]).hex(), cut(line[:32]).hex(), h.hex(), float(sec), pid])
    return out


def run_driver(mode, arg, sanitize=True, timeout=600):
    from replay import cbuild
    d = fresh_build(sanitize=sanitize)
    env = cbuild.asan_env(d) if sanitize else dict(os.environ, PYTHONPATH=d)
    p = subprocess.run([sys.executable, os.path.join(HERE, "asan_driver.py"), mode, json.dumps(arg)], env=env,
                       capture_output=True, text=True, timeout=timeout)
    lines = p.stdout.splitlines()
    last_call = next((l for l in reversed(lines) if l.startswith("CALL ")), None)
    done = any(l.startswith("DONE") for l in lines)
    results = [json.loads(l[7:]) for l in lines if l.startswith("RESULT ")]
    return {"rc": p.returncode, "done": done, "last_call": last_call, "results": results,
            "stderr": p.stderr[-8000:], "n_calls": sum(1 for l in lines if l.startswith("CALL "))}


def san_summary(stderr):
    for key in ("ERROR: AddressSanitizer", "runtime error", "SUMMARY:"):
        for ln in stderr.splitlines():
            if key in ln:
                return re.sub(r"==\d+==", "", ln).strip()[:200]
    return stderr.strip().splitlines()[-1][:200] if stderr.strip() else "killed"


@runner("c17:users")
def c17_users(model, meta):
    """counter-model of the field-width obligation -> utmp file -> real users() (sanitizer build)"""
    def field(name, n, default):
        v = model.get(name)
        if isinstance(v, list):
            b = bytes(x & 0xff for x in v)[:n]
            return b + bytes(n - len(b))
        return default
    user = field("getutent#0.ut_user", 32, b"root")
    line = field("getutent#0.ut_line", 32, b"pts/0")
    host = field("getutent#0.ut_host", 256, b"")
    if not host.strip(b"\0"):
        host = b"host.example.org"        # unconstrained by the counter-model: any value is a witness
    if "recs" in model:
        recs = [tuple(bytes.fromhex(x) if isinstance(x, str) else x for x in r) for r in model["recs"]]
    else:
        recs = [(7, 4321, line, user, host, 1700000000), (7, 77, b"tty1", b"second", b":0", 1700000001)]
    d = tempfile.mkdtemp(prefix="vfutmp_")
    try:
        path = os.path.join(d, "utmp")
        with open(path, "wb") as f:
            for (t, pid, ln, us, ho, sec) in recs:
                f.write(utmp_record(t, pid, ln, us, ho, sec))
        r = run_driver("users", {"files": [path]})
    finally:
        shutil.rmtree(d, ignore_errors=True)
    want = users_expected(recs)
    got = r["results"][0].get("value") if r["results"] else None
    bad = (not r["done"]) or got != want
    tag = None
    if not r["done"]:
        tag = "users(): " + san_summary(r["stderr"])
    elif got != want:
        tag = "users() differs from the field-width decoding of the same records"
    return {"env": {}, "result": got if r["done"] else r["stderr"][-400:], "expected": want, "exc": None,
            "verdict": bad, "tag": tag}


@search("c17:users")
def c17_users_search(meta, seed, budget):
    rnd = random.Random(seed)

    def rb(n, full=False):
        k = n if full else rnd.randint(0, n)
        return bytes(rnd.choice(b"abcXYZ09:./-\xff\xc3\xa9 ") for _ in range(k))

    def hx(recs):
        return {"recs": [[t, pid, ln.hex(), us.hex(), ho.hex(), sec] for (t, pid, ln, us, ho, sec) in recs]}
    yield hx([(7, 1, b"pts/0", b"root", b"", 1)])
    yield hx([(7, 1, b"p" * 32, b"u" * 32, b"h" * 256, 2 ** 31 - 1)])                 # every field full width
    yield hx([(7, 5, b"tty1", b"bob", b":0", 5), (7, 6, b"tty2", b"al", b":0.0", 6), (7, 7, b"t", b"x", b":0.0.0", 7)])
    yield hx([(t, t, b"l", b"u", b"h", t) for t in range(0, 10)])                      # every record type
    yield hx([(7, -1, b"\xff" * 32, b"\xfe" * 32, b"\xfd" * 256, -1)])
    yield hx([(7, i, b"l%d" % i, b"u" * 32, b":0" + b"\0" * 10 + b"junk", i) for i in range(64)])
    # a reused slot: a shorter value written over a longer one leaves the old tail after the terminating NUL
    yield hx([(7, 9, b"pts/1\0y/long-old-name", b"bob\0istopher-longname", b"h\0ost.example.org", 9),
              (7, 10, b"\0tty-old", b"\0olduser", b"\0oldhost", 10)])
    n = 0
    while n < budget:
        n += 1
        yield hx([(rnd.choice([7, 7, 7, 8, 6, 1, 0]), rnd.randint(-5, 99999), rb(32, rnd.random() < .3), rb(32, rnd.random() < .3),
                   rnd.choice([b":0", b":0.0", rb(256), rb(256, True)]), rnd.randint(0, 2 ** 31 - 1))
                  for _ in range(rnd.randint(1, 8))])


def mounts_line(dev, mp, typ, opts):
    def esc(b):
        return b.replace(b"\\", b"\\134").replace(b" ", b"\\040").replace(b"\t", b"\\011").replace(b"\n", b"\\012")
    return esc(dev) + b" " + esc(mp) + b" " + esc(typ) + b" " + esc(opts) + b" 0 0\n"


@runner("c17:mounts")
def c17_mounts(model, meta):
    ents = [tuple(bytes.fromhex(x) for x in e) for e in model["entries"]]
    d = tempfile.mkdtemp(prefix="vfmnt_")
    try:
        path = os.path.join(d, "mounts")
        with open(path, "wb") as f:
            for e in ents:
                f.write(mounts_line(*e))
        r = run_driver("mounts", {"files": [path], "repeat": model.get("repeat", 3)})
    finally:
        shutil.rmtree(d, ignore_errors=True)
    res = r["results"][0] if r["results"] else None

    def utf8(b):
        try:
            b.decode("utf-8")
            return True
        except UnicodeDecodeError:
            return False
    # glibc's getmntent() parses each line in a 4096-byte static buffer and drops the rest of a longer line: for such
    # files only "no sanitizer report, no crash" is judged (the truncation is libc's, not the extension's)
    long_line = any(len(mounts_line(*e)) >= 4095 for e in ents)
    if long_line:
        ok = r["done"] and res is not None
        return {"env": {}, "result": res if r["done"] else r["stderr"][-400:], "expected": "no crash", "exc": None,
                "verdict": not ok, "tag": None if ok else "disk_partitions(): " + san_summary(r["stderr"])}
    if all(utf8(e[2]) and utf8(e[3]) for e in ents):
        want = {"file": None, "value": [[x.hex() for x in e] for e in ents]}
    else:
        want = {"file": None, "exc": "UnicodeDecodeError"}       # 's' conversion: a clean Python exception
    bad = (not r["done"]) or res is None or {k: v for k, v in res.items() if k != "file"} != {k: v for k, v in want.items() if k != "file"}
    tag = None
    if not r["done"]:
        tag = "disk_partitions(): " + san_summary(r["stderr"])
    elif bad:
        tag = "disk_partitions() differs from the independent decoding of the same mounts file"
    return {"env": {}, "result": res if r["done"] else r["stderr"][-400:], "expected": want, "exc": None, "verdict": bad, "tag": tag}


@search("c17:mounts")
def c17_mounts_search(meta, seed, budget):
    rnd = random.Random(seed)

    def hx(ents, **kw):
        return dict({"entries": [[x.hex() for x in e] for e in ents]}, **kw)
    yield hx([(b"/dev/sda1", b"/", b"ext4", b"rw,relatime")])
    yield hx([(b"/dev/sda1", b"/mnt/my disk", b"ext4", b"rw"), (b"tmpfs", b"/tmp\ttab", b"tmpfs", b"rw,size=1k")])
    yield hx([(b"/dev/x", b"/m", b"vfat", b"rw,iocharset=\xff\xfe")], repeat=40)           # non-UTF-8 options
    yield hx([(b"/dev/x", b"/m", b"\xff\xfe", b"rw")], repeat=40)                           # non-UTF-8 fs type
    yield hx([(b"/dev/\xff", b"/m\xfe", b"ext4", b"rw")])                                  # surrogateescape fields
    yield hx([(b"d" * 3000, b"/" + b"m" * 3000, b"t" * 100, b"o" * 2000)])                  # 8 kB line
    # long lines that glibc's getmntent() still returns whole (< 4095 bytes): overlay mounts with many lower layers
    yield hx([(b"overlay", b"/var/lib/docker/overlay2/x/merged", b"overlay",
               b"rw,lowerdir=" + b":".join(b"/var/lib/docker/overlay2/l/%032d" % i for i in range(40)))])
    yield hx([(b"/dev/sda1", b"/", b"ext4", b"rw"), (b"/dev/" + b"x" * 1500, b"/mnt/" + b"y" * 1500, b"ext4", b"rw," + b"o" * 900),
              (b"/dev/sdb1", b"/data", b"xfs", b"rw,noatime")])
    yield hx([(b"/dev/sd%d" % i, b"/mnt/%d" % i, b"ext4", b"rw") for i in range(256)])
    n = 0
    while n < budget:
        n += 1
        def rb(k):
            return bytes(rnd.choice(b"abc/ \t\\09,=\xff\xc3\xa9") for _ in range(rnd.randint(1, k))) or b"x"
        big = rnd.choice([40, 40, 40, 700, 1800])        # now and then an entry of a few kB
        yield hx([(rb(30), b"/" + rb(30), rnd.choice([b"ext4", b"tmpfs", rb(8)]), rnd.choice([b"rw", rb(big)]))
                  for _ in range(rnd.randint(1, 6))], repeat=5)


def c_entries():
    out = []
    for mod, f in (("linux", "psutil/_psutil_linux.c"), ("posix", "psutil/_psutil_posix.c")):
        txt = open(os.path.join(REPO, f)).read()
        import re
        for m in re.finditer(r'\{"(\w+)",\s*\w+,\s*METH_VARARGS', txt):
            out.append((mod, m.group(1)))
    return out


@runner("c17:asan")
def c17_asan(model, meta):
    """one slice of the argument grid over every entry of the mod_methods tables"""
    ents = c_entries()
    skip, limit = model.get("skip", 0), model.get("limit", 10 ** 9)
    fails = []
    total = 0
    while len(fails) < 3:
        r = run_driver("grid", {"entries": ents, "skip": skip, "limit": limit}, timeout=1500)
        total += r["n_calls"]
        if r["done"] or r["rc"] == 0:
            break
        fails.append(f"{(r['last_call'] or 'CALL ?').split(' ', 2)[-1]} -> {san_summary(r['stderr'])}")
        try:
            skip = int(r["last_call"].split()[1])
        except Exception:  # noqa: BLE001
            break
    return {"env": {}, "result": fails, "expected": [], "exc": None, "verdict": bool(fails), "calls": total,
            "tag": ("extension entry point " + fails[0])[:220] if fails else None}


@search("c17:asan")
def c17_asan_search(meta, seed, budget):
    # quick: first `budget` calls per slice layout; thorough: the whole grid
    if budget <= 1000:
        yield {"skip": 0, "limit": 10 ** 9 if budget >= 1000 else budget * 40}
    else:
        yield {"skip": 0, "limit": 10 ** 9}


@runner("c17:ethtool")
def c17_ethtool(model, meta):
    """net_if_duplex_speed() on a NIC whose driver reports the counter-model's speed words (ioctl answered by an
    LD_PRELOAD shim), sanitizer build"""
    from replay import cbuild
    d = fresh_build(sanitize=True)
    hi = int(model.get("speed_hi", model.get("ethcmd.speed_hi", 0xffff))) & 0xffff
    lo = int(model.get("speed", model.get("ethcmd.speed", 0xffff))) & 0xffff
    shim = os.path.join(d, "ioctl_shim.so")
    if not os.path.exists(shim):
        subprocess.run(["cc", "-shared", "-fPIC", "-O1", os.path.join(HERE, "ioctl_shim.c"), "-o", shim, "-ldl"], check=True)
    env = cbuild.asan_env(d, {"VF_SPEED": str(lo), "VF_SPEED_HI": str(hi)})
    env["LD_PRELOAD"] = env["LD_PRELOAD"] + " " + shim
    code = "import psutil._psutil_linux as c; print(c.net_if_duplex_speed('lo'))"
    p = subprocess.run([sys.executable, "-c", code], env=env, capture_output=True, text=True, timeout=120)
    full = (hi << 16) | lo
    want = [1, 0 if (full == 0xffffffff or full > 2 ** 31 - 1) else full]
    out = p.stdout.strip()
    bad = p.returncode != 0 or out != str(want)
    tag = None
    if p.returncode != 0:
        tag = "net_if_duplex_speed(): " + san_summary(p.stderr)
    elif bad:
        tag = f"net_if_duplex_speed() -> {out}, expected {want}"
    return {"env": {}, "result": out or p.stderr[-300:], "expected": want, "exc": None, "verdict": bad, "tag": tag}


@search("c17:ethtool")
def c17_ethtool_search(meta, seed, budget):
    for hi, lo in ((0, 1000), (0, 0xffff), (0xffff, 0xffff), (0x7fff, 0xffff), (0x8000, 0), (1, 0x86a0), (0, 0)):
        yield {"speed_hi": hi, "speed": lo}


@runner("c17:mounts_own")
def c17_mounts_own(model, meta):
    """ownership obligations of disk_partitions() concern its error paths: drive them with entries whose 's'
    conversion fails (non-UTF-8 type / options), many times, on the sanitizer build"""
    for ents in ([(b"/dev/x", b"/m", b"vfat", b"rw,iocharset=\xff\xfe")], [(b"/dev/x", b"/m", b"\xff\xfe", b"rw")],
                 [(b"/dev/a", b"/a", b"ext4", b"rw"), (b"/dev/\xff", b"/m\xfe", b"ext4", b"\xfe")]):
        r = c17_mounts({"entries": [[x.hex() for x in e] for e in ents], "repeat": 60}, meta)
        if r["verdict"]:
            return r
    return r
