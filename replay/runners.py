"""Witness builders: counter-model -> concrete scenario -> call of the real,
unmodified psutil code.  Nothing here signals or modifies a real process:
effectful primitives are always intercepted."""
import collections
import fractions
import os
import sys
from unittest import mock

RUNNERS = {}


def runner(rid):
    def deco(f):
        RUNNERS[rid] = f
        return f
    return deco


def num(v, default=0.0):
    if isinstance(v, fractions.Fraction):
        return float(v)
    if isinstance(v, (int, float)):
        return v
    return default


SCPU_FIELDS = ['user', 'nice', 'system', 'idle', 'iowait', 'irq', 'softirq', 'steal', 'guest', 'guest_nice']


def cfg_of(meta):
    out = {}
    if meta.get("cfg") and meta["cfg"] != "-":
        for kv in meta["cfg"].split(","):
            k, _, v = kv.partition("=")
            try:
                out[k] = int(v)
            except ValueError:
                out[k] = v
    return out


def scpu_pair(model, meta):
    n = cfg_of(meta)["n"]
    cls = collections.namedtuple("scputimes", SCPU_FIELDS[:n])
    t1 = cls(*[num(model.get(f"t1_{f}")) for f in cls._fields])
    t2 = cls(*[num(model.get(f"t2_{f}")) for f in cls._fields])
    return cls, t1, t2


@runner("c07:cpu_times_percent_calculate")
def c07_ctp(model, meta):
    import threading
    import psutil
    cls, t1, t2 = scpu_pair(model, meta)
    tid = threading.current_thread().ident
    with mock.patch.object(psutil._psplatform, "scputimes", cls), \
            mock.patch.object(psutil, "cpu_times", lambda percpu=False: t2):
        psutil._last_cpu_times_2[tid] = t1
        try:
            res = psutil.cpu_times_percent(interval=None)
            exc = None
        except Exception as e:  # noqa: BLE001
            res, exc = None, e
    return {"env": {"t1": t1, "t2": t2, "n": len(t1)}, "result": res, "exc": exc}


@runner("c07:cpu_percent_calculate")
def c07_cp(model, meta):
    import threading
    import psutil
    cls, t1, t2 = scpu_pair(model, meta)
    tid = threading.current_thread().ident
    with mock.patch.object(psutil._psplatform, "scputimes", cls), \
            mock.patch.object(psutil, "cpu_times", lambda percpu=False: t2):
        psutil._last_cpu_times[tid] = t1
        try:
            res = psutil.cpu_percent(interval=None)
            exc = None
        except Exception as e:  # noqa: BLE001
            res, exc = None, e
    return {"env": {"t1": t1, "t2": t2, "n": len(t1)}, "result": res, "exc": exc}


@runner("c07:deltas")
def c07_deltas(model, meta):
    import psutil
    cls, t1, t2 = scpu_pair(model, meta)
    with mock.patch.object(psutil._psplatform, "scputimes", cls):
        try:
            res, exc = psutil._cpu_times_deltas(t1, t2), None
        except Exception as e:  # noqa: BLE001
            res, exc = None, e
    return {"env": {"t1": t1, "t2": t2, "n": len(t1)}, "result": res, "exc": exc}
