"""Witness builders: counter-model -> concrete scenario -> call of the real,
unmodified psutil code.  Nothing here signals or modifies a real process:
effectful primitives are always intercepted."""
import errno
import collections
import fractions
import os
import sys
from unittest import mock

RUNNERS = {}


def runner(rid):
    def deco(f):
        RUNNERS[rid] = f
        return f
    return deco


def num(v, default=0.0):
    if isinstance(v, fractions.Fraction):
        return float(v)
    if isinstance(v, (int, float)):
        return v
    return default


SCPU_FIELDS = ['user', 'nice', 'system', 'idle', 'iowait', 'irq', 'softirq', 'steal', 'guest', 'guest_nice']


def cfg_of(meta):
    out = {}
    if meta.get("cfg") and meta["cfg"] != "-":
        for kv in meta["cfg"].split(","):
            k, _, v = kv.partition("=")
            try:
                out[k] = int(v)
            except ValueError:
                out[k] = v
    return out


_REUSED_ATTR = None


def _reused_set(psutil):
    """the module-level set is_running() reports recycled PIDs into, whatever it is called (found by role)"""
    global _REUSED_ATTR
    if _REUSED_ATTR is None:
        here = os.path.dirname(os.path.dirname(os.path.abspath(__file__)))
        if here not in sys.path:
            sys.path.insert(0, here)
        from contracts.common import reused_set_name
        _REUSED_ATTR = reused_set_name()
    return getattr(psutil, _REUSED_ATTR)


def scpu_pair(model, meta):
    n = cfg_of(meta)["n"]
    cls = collections.namedtuple("scputimes", SCPU_FIELDS[:n])
    t1 = cls(*[num(model.get(f"t1_{f}")) for f in cls._fields])
    t2 = cls(*[num(model.get(f"t2_{f}")) for f in cls._fields])
    return cls, t1, t2


@runner("c07:cpu_times_percent_calculate")
def c07_ctp(model, meta):
    import threading
    import psutil
    cls, t1, t2 = scpu_pair(model, meta)
    tid = threading.current_thread().ident
    with mock.patch.object(psutil._psplatform, "scputimes", cls), \
            mock.patch.object(psutil, "cpu_times", lambda percpu=False: t2):
        psutil._last_cpu_times_2[tid] = t1
        try:
            res = psutil.cpu_times_percent(interval=None)
            exc = None
        except Exception as e:  # noqa: BLE001
            res, exc = None, e
    return {"env": {"t1": t1, "t2": t2, "n": len(t1)}, "result": res, "exc": exc}


@runner("c07:cpu_percent_calculate")
def c07_cp(model, meta):
    import threading
    import psutil
    cls, t1, t2 = scpu_pair(model, meta)
    tid = threading.current_thread().ident
    with mock.patch.object(psutil._psplatform, "scputimes", cls), \
            mock.patch.object(psutil, "cpu_times", lambda percpu=False: t2):
        psutil._last_cpu_times[tid] = t1
        try:
            res = psutil.cpu_percent(interval=None)
            exc = None
        except Exception as e:  # noqa: BLE001
            res, exc = None, e
    return {"env": {"t1": t1, "t2": t2, "n": len(t1)}, "result": res, "exc": exc}


@runner("c07:deltas")
def c07_deltas(model, meta):
    import psutil
    cls, t1, t2 = scpu_pair(model, meta)
    with mock.patch.object(psutil._psplatform, "scputimes", cls):
        try:
            res, exc = psutil._cpu_times_deltas(t1, t2), None
        except Exception as e:  # noqa: BLE001
            res, exc = None, e
    return {"env": {"t1": t1, "t2": t2, "n": len(t1)}, "result": res, "exc": exc}


# ---------------------------------------------------------------------------
# fake procfs helpers
# ---------------------------------------------------------------------------

import contextlib
import shutil
import tempfile
import warnings


@contextlib.contextmanager
def fake_procfs(files):
    """temporary procfs tree {relative path: bytes}; psutil.PROCFS_PATH points at it"""
    import psutil
    d = tempfile.mkdtemp(prefix="vfproc_")
    try:
        for rel, content in files.items():
            p = os.path.join(d, rel)
            os.makedirs(os.path.dirname(p), exist_ok=True)
            with open(p, "wb") as f:
                f.write(content)
        if "stat" not in files:
            with open(os.path.join(d, "stat"), "wb") as f:
                f.write(b"cpu  1 2 3 4 5 6 7 8 9 10\ncpu0 1 2 3 4 5 6 7 8 9 10\nbtime 1700000000\n")
        old = psutil.PROCFS_PATH
        psutil.PROCFS_PATH = d
        try:
            yield d
        finally:
            psutil.PROCFS_PATH = old
    finally:
        shutil.rmtree(d, ignore_errors=True)


def meminfo_from_model(model, keys):
    M = {}
    lines = []
    for k in keys:
        nm = k.decode().rstrip(":").replace("(", "_").replace(")", "")
        if model.get(f"has_{nm}") is True:
            v = int(model.get(f"val_{nm}", 0) or 0)
            v = max(0, v) // 1024 * 1024
            M[k] = v
            lines.append(k + b"   " + str(v // 1024).encode() + b" kB\n")
    return M, b"".join(lines)


MEMKEYS = [b'MemTotal:', b'MemFree:', b'Buffers:', b'Cached:', b'SReclaimable:', b'Shmem:', b'MemShared:',
           b'Active:', b'Inactive:', b'Inact_dirty:', b'Inact_clean:', b'Inact_laundry:', b'Slab:',
           b'MemAvailable:', b'Active(file):', b'Inactive(file):', b'SwapTotal:', b'SwapFree:']


class _Ghost(dict):
    pass


@runner("c08:virtual_memory")
def c08_vm(model, meta):
    import psutil
    from psutil import _pslinux
    M, text = meminfo_from_model(model, MEMKEYS)
    log = []
    # modular replay: the callee calculate_avail_vmem is under its own contract; here it is
    # stubbed to return the estimate of the counter-model (any int is a possible estimate:
    # container-distorted figures give > total, large zone watermarks give < 0)
    est = int(model["est"]) if "est" in model else None
    with fake_procfs({"meminfo": text}):
        with warnings.catch_warnings(record=True) as ws:
            warnings.simplefilter("always")
            try:
                if est is not None:
                    with mock.patch.object(_pslinux, "calculate_avail_vmem", lambda mems: est):
                        res, exc = _pslinux.virtual_memory(), None
                else:
                    res, exc = _pslinux.virtual_memory(), None
            except Exception as e:  # noqa: BLE001
                res, exc = None, e
        log = [("warn", str(w.message)) for w in ws]
        if est is None:
            try:
                est = _pslinux.calculate_avail_vmem(dict(M))
            except Exception:  # noqa: BLE001
                est = 0
    return {"env": {"M": M, "log": log, "__ghost__": {"est": est}}, "result": res, "exc": exc,
            "meminfo": text.decode(), "stubbed_estimate": est}


@runner("c08:swap_memory")
def c08_swap(model, meta):
    from psutil import _pslinux
    M, text = meminfo_from_model(model, [b"SwapTotal:", b"SwapFree:"])
    cfg = cfg_of(meta)
    iin, iout = int(model.get("iin", -1)), int(model.get("iout", -1))
    vin, vout = int(model.get("vin", 0)), int(model.get("vout", 0))
    n = max(iin, iout) + 2
    lines = [b"nr_free_pages 1\n"] * n
    if iin >= 0:
        lines[iin] = b"pswpin %d\n" % vin
    if iout >= 0:
        lines[iout] = b"pswpout %d\n" % vout
    files = {"meminfo": text}
    vm_ok = str(cfg.get("vmstat")) == "True"
    if vm_ok:
        files["vmstat"] = b"".join(lines)
    st, sf, su = int(model.get("si_total", 0)), int(model.get("si_free", 0)), int(model.get("si_unit", 1))
    with fake_procfs(files):
        with mock.patch.object(_pslinux.cext, "linux_sysinfo", lambda: (0, 0, 0, 0, st, sf, su)):
            with warnings.catch_warnings(record=True) as ws:
                warnings.simplefilter("always")
                try:
                    res, exc = _pslinux.swap_memory(), None
                except Exception as e:  # noqa: BLE001
                    res, exc = None, e
    log = [("warn", str(w.message)) for w in ws]
    return {"env": {"M": M, "log": log, "iin": iin, "iout": iout, "vin": vin, "vout": vout, "vm_ok": vm_ok,
                    "si_total": st * su, "si_free": sf * su}, "result": res, "exc": exc}


@runner("c08:usage_percent")
def c08_usage(model, meta):
    from psutil import _common
    used, total = num(model.get("used")), num(model.get("total"))
    cfg = cfg_of(meta)
    r = None if str(cfg.get("round")) == "None" else int(cfg["round"])
    try:
        res, exc = _common.usage_percent(used, total, round_=r), None
    except Exception as e:  # noqa: BLE001
        res, exc = None, e
    return {"env": {"used": used, "total": total, "round_": r}, "result": res, "exc": exc}


# ---------------------------------------------------------------------------
# witness search: candidate inputs for obligations the solvers leave undecided
# (a failing input found this way is a real violation; finding none proves nothing)
# ---------------------------------------------------------------------------

SEARCH = {}


def search(rid):
    def deco(f):
        SEARCH[rid] = f
        return f
    return deco


def lat(b):
    return b.decode("latin-1") if isinstance(b, bytes) else b


def unlat(s):
    if isinstance(s, bytes):
        return s
    if isinstance(s, str):
        return s.encode("latin-1", "replace")
    return b""


TRICKY_COMMS = [b"", b"a", b"cat", b"a b", b"a)b", b"a(b", b"(sd-pam)", b"((((", b"))))", b") (", b" (", b"a (b",
                b"foo (bar)", b"a) S 1 (b", b"a) R 1 2 3", b"x\ny", b"\xff\xfe", b"Uid:\t7\t8\t9", b"Threads:\t77",
                b"Gid:\t1\t2\t3", b")", b"(", b" ", b"a) ", b"123456789012345", b"ctxt_switches:\t5", b") R 0 (",
                b"kworker/0:1-ev", b"a)b)c", b"a(b(c", b"x (y) z",
                # the kernel escapes only \n and \\ in the Name: line: a carriage return (or \x0b, \x0c) is published raw
                b"x\rUid:\t0\t0\t0", b"y\rGid:\t0\t0\t0", b"\rThreads:\t9", b"a\x0bb\x0cc"]


def stat_fields(rng, n=52, state=b"S"):
    F = [state] + [str(rng.randrange(0, 10 ** rng.choice([1, 3, 6, 12, 19]))).encode() for _ in range(n - 1)]
    return F


def build_stat(pid, comm, F):
    return str(pid).encode() + b" (" + comm + b") " + b" ".join(F) + b"\n"


def run_stat_method(model, meta, method=None):
    """fake /proc/<pid>/stat from the model, then the real accessor"""
    import psutil
    from psutil import _pslinux
    pid = int(model.get("st_pid_s") or model.get("pid") or 4242)
    comm = unlat(model.get("st_comm", "x"))[:15]
    F = [unlat(x) for x in (model.get("st_F") or [])]
    import random
    rng = random.Random(pid)
    base = stat_fields(rng)
    for k, x in enumerate(F[:len(base)]):
        if x and (k == 0 or x.isdigit()):
            base[k] = x
    if len(F) and len(F) < 40 and len(F) >= 37:
        base = base[:len(F)]
    F = base
    if len(F[0]) != 1:
        F[0] = b"S"
    data = build_stat(pid, comm, F)
    meth = method or meta["contract"].split(".")[-1].split("[")[0].split(" ")[0]
    bt_cached = model.get("BOOT_TIME")
    with fake_procfs({f"{pid}/stat": data}):
        _pslinux.BOOT_TIME = float(num(bt_cached)) if bt_cached is not None else None
        p = _pslinux.Process(pid)
        try:
            res, exc = getattr(p, meth)(), None
        except Exception as e:  # noqa: BLE001
            res, exc = None, e
        bt = _pslinux.BOOT_TIME if bt_cached is not None else 1700000000.0
        _pslinux.BOOT_TIME = None
    env = {"comm": comm, "F": F, "CLK": _pslinux.CLOCK_TICKS, "bt": bt, "self": p, "rec": {"F": F, "comm": comm}}
    return {"env": env, "result": res, "exc": exc, "stat": data.decode("latin-1")}


@runner("c06:stat")
def c06_stat(model, meta):
    return run_stat_method(model, meta)


@search("c06:stat")
def c06_stat_search(meta, seed, budget):
    import random
    rng = random.Random(seed)
    n = 0
    for comm in TRICKY_COMMS:
        for nf in (52, 37):
            yield {"st_pid_s": str(1000 + n), "st_comm": lat(comm), "st_F": [lat(x) for x in stat_fields(rng, nf, rng.choice([b"S", b"R", b"Z", b"D", b"I"]))]}
            n += 1
    while n < budget:
        ln = rng.randrange(0, 16)
        comm = bytes(rng.choice(b"ab() \n\t:)(") for _ in range(ln))
        yield {"st_pid_s": str(1000 + n), "st_comm": lat(comm), "st_F": [lat(x) for x in stat_fields(rng, rng.choice([52, 40, 37]))]}
        n += 1


def build_status(m):
    g = lambda k, d: unlat(m.get(k, d)) or unlat(d)  # noqa: E731
    dig = lambda k, d: (g(k, d) if g(k, d).isdigit() else d.encode())  # noqa: E731
    v = g("ss_v", "x").replace(b"\n", b"")[:15]     # a comm holds at most 15 bytes
    txt = b"Name:\t" + v + b"\n"
    m1 = g("ss_m1", "Umask:\t0022\nState:\tS (sleeping)\nTgid:\t5\nNgid:\t0\nPid:\t5\nPPid:\t1\nTracerPid:\t0\n")
    if b"Uid:" in m1 or b"Gid:" in m1 or b"Threads:" in m1 or b"ctxt" in m1 or (m1 and not m1.endswith(b"\n")):
        m1 = b"Umask:\t0022\nState:\tS (sleeping)\nTgid:\t5\nPid:\t5\nPPid:\t1\n"
    txt += m1
    txt += b"Uid:\t" + b"\t".join(dig(k, d) for k, d in (("ss_ur", "1000"), ("ss_ue", "1001"), ("ss_us", "1002"), ("ss_ufs", "1003"))) + b"\n"
    txt += b"Gid:\t" + b"\t".join(dig(k, d) for k, d in (("ss_gr", "2000"), ("ss_ge", "2001"), ("ss_gs", "2002"), ("ss_gfs", "2003"))) + b"\n"
    txt += b"FDSize:\t64\nGroups:\t4 24\nVmPeak:\t  100 kB\n"
    txt += b"Threads:\t" + dig("ss_nthr", "3") + b"\n"
    txt += b"SigQ:\t0/100\nCpus_allowed:\tff\nCpus_allowed_list:\t0-7\n"
    txt += b"voluntary_ctxt_switches:\t" + dig("ss_vol", "11") + b"\nnonvoluntary_ctxt_switches:\t" + dig("ss_nonvol", "12") + b"\n"
    rec = {"v": v, "ur": dig("ss_ur", "1000"), "ue": dig("ss_ue", "1001"), "us": dig("ss_us", "1002"),
           "gr": dig("ss_gr", "2000"), "ge": dig("ss_ge", "2001"), "gs": dig("ss_gs", "2002"),
           "nthr": dig("ss_nthr", "3"), "vol": dig("ss_vol", "11"), "nonvol": dig("ss_nonvol", "12")}
    return txt, rec


@runner("c06:status")
def c06_status(model, meta):
    from psutil import _pslinux
    pid = 4243
    txt, rec = build_status(model)
    meth = meta["contract"].split(".")[-1]
    with fake_procfs({f"{pid}/status": txt, f"{pid}/stat": build_stat(pid, b"x", stat_fields(__import__("random").Random(1)))}):
        p = _pslinux.Process(pid)
        try:
            res, exc = getattr(p, meth)(), None
        except Exception as e:  # noqa: BLE001
            res, exc = None, e
    return {"env": {"rec": rec, "self": p}, "result": res, "exc": exc, "status": txt.decode("latin-1")}


@search("c06:status")
def c06_status_search(meta, seed, budget):
    import random
    rng = random.Random(seed)
    n = 0
    for comm in TRICKY_COMMS:
        if b"\n" in comm:
            continue
        yield status_model(rng, comm)
        n += 1
    alphabet = b"UidGThreadsctx_w:\t0123456789 ()\\"
    while n < budget:
        comm = bytes(rng.choice(alphabet) for _ in range(rng.randrange(0, 16)))
        yield status_model(rng, comm)
        n += 1


def status_model(rng, comm):
    return {"ss_v": lat(comm), "ss_ur": str(rng.randrange(10, 60000)), "ss_ue": str(rng.randrange(10, 60000)),
            "ss_us": str(rng.randrange(10, 60000)), "ss_gr": str(rng.randrange(10, 60000)),
            "ss_ge": str(rng.randrange(10, 60000)), "ss_gs": str(rng.randrange(10, 60000)),
            "ss_nthr": str(rng.randrange(1, 500)), "ss_vol": str(rng.randrange(0, 2 ** 64)),
            "ss_nonvol": str(rng.randrange(0, 2 ** 64))}


@runner("c06:threads")
def c06_threads(model, meta):
    """1..n threads, each with its own comm; oracle = independent decoding of the same records"""
    from psutil import _pslinux
    import random
    pid = 4300
    comms = [unlat(c)[:15] for c in model.get("comms", ["x"])]
    rng = random.Random(len(comms))
    files = {}
    want = []
    gone = {int(x) for x in model.get("gone", [])}      # positions of threads that exit between the listing and their read
    gone_paths = set()
    for k, comm in enumerate(comms):
        tid = pid + k
        F = stat_fields(rng, rng.choice([52, 44]))
        files[f"{pid}/task/{tid}/stat"] = build_stat(tid, comm, F)
        if k in gone and len(comms) > 1:
            gone_paths.add(f"/{pid}/task/{tid}/stat")
        else:
            want.append((tid, int(F[11]) / _pslinux.CLOCK_TICKS, int(F[12]) / _pslinux.CLOCK_TICKS))
    files[f"{pid}/stat"] = build_stat(pid, comms[0], stat_fields(rng))
    real_ob = _pslinux.open_binary

    def ob(fname, *a, **k):
        if any(fname.endswith(g) for g in gone_paths):
            raise FileNotFoundError(2, "No such file or directory", fname)
        return real_ob(fname, *a, **k)

    with fake_procfs(files):
        p = _pslinux.Process(pid)
        try:
            with mock.patch.object(_pslinux, "open_binary", ob):
                res, exc = p.threads(), None
        except Exception as e:  # noqa: BLE001
            res, exc = None, e
    got = sorted((t.id, t.user_time, t.system_time) for t in res) if res is not None else None

    def close(a, b):   # float rounding of tick counts beyond 2^53 is outside the property (DESIGN 3.1)
        return a == b or abs(a - b) <= 1e-12 * max(abs(a), abs(b))

    bad = exc is not None or len(got) != len(want) or any(
        g[0] != w[0] or not close(g[1], w[1]) or not close(g[2], w[2]) for g, w in zip(got, sorted(want)))
    return {"env": {}, "result": got, "exc": exc, "verdict": bad, "expected": sorted(want), "comms": comms}


@search("c06:threads")
def c06_threads_search(meta, seed, budget):
    import random
    rng = random.Random(seed)
    n = 0
    for c in TRICKY_COMMS:
        yield {"comms": [lat(c)]}
        n += 1
    for gone in ([0], [1], [0, 2], [3], [1, 2]):       # a thread in the middle of the list vanishes: the others keep THEIR counters
        yield {"comms": [lat(b"t%d" % i) for i in range(4)], "gone": gone}
        n += 1
    while n < budget:
        k = rng.randrange(1, 6)
        yield {"comms": [lat(bytes(rng.choice(b"ab() \n\t:)(") for _ in range(rng.randrange(0, 16)))) for _ in range(k)],
               "gone": [rng.randrange(0, k)] if n % 4 == 0 else []}
        n += 1


# ---------------------------------------------------------------------------
# C14
# ---------------------------------------------------------------------------

@runner("c14:flags")
def c14_flags(model, meta):
    from psutil import _pslinux
    flags = int(model.get("flags", 0))
    try:
        res, exc = _pslinux.file_flags_to_mode(flags), None
    except Exception as e:  # noqa: BLE001
        res, exc = None, e
    return {"env": {"flags": flags, "O_APPEND": os.O_APPEND}, "result": res, "exc": exc}


@search("c14:flags")
def c14_flags_search(meta, seed, budget):
    for acc in range(4):
        for extra in (0, os.O_APPEND, os.O_CREAT | os.O_TRUNC, os.O_APPEND | os.O_CLOEXEC, 0o100000, 1 << 40):
            yield {"flags": acc | extra}


@runner("c14:io")
def c14_io(model, meta):
    from psutil import _pslinux
    pid = 4400
    lines = model.get("io_lines")
    if isinstance(lines, list) and lines:
        txt = b"".join(unlat(x) for x in lines)
    else:
        txt = model.get("text", b"rchar: 1\nwchar: 2\nsyscr: 3\nsyscw: 4\nread_bytes: 5\nwrite_bytes: 6\n")
        txt = unlat(txt)
    M = {}
    valid = 0
    for ln in txt.splitlines():
        s = ln.strip()
        if s and len(s.split(b": ")) == 2:
            k, v = s.split(b": ")
            try:
                M[k] = int(v)
                valid += 1
            except ValueError:
                return {"env": {}, "result": None, "exc": None, "verdict": False, "note": "outside the grammar"}
    with fake_procfs({f"{pid}/io": txt, f"{pid}/stat": build_stat(pid, b"x", stat_fields(__import__("random").Random(2)))}):
        p = _pslinux.Process(pid)
        try:
            res, exc = p.io_counters(), None
        except Exception as e:  # noqa: BLE001
            res, exc = None, e
    keys = [b"syscr", b"syscw", b"read_bytes", b"write_bytes", b"rchar", b"wchar"]
    if valid == 0:
        bad = not isinstance(exc, RuntimeError)
    elif not all(k in M for k in keys):
        bad = not isinstance(exc, ValueError)
    else:
        bad = exc is not None or tuple(res) != tuple(M[k] for k in keys)
    return {"env": {"M": M}, "result": res, "exc": exc, "verdict": bad, "io": txt.decode("latin-1")}


@search("c14:io")
def c14_io_search(meta, seed, budget):
    import random
    rng = random.Random(seed)
    base = [b"rchar: %d\n", b"wchar: %d\n", b"syscr: %d\n", b"syscw: %d\n", b"read_bytes: %d\n", b"write_bytes: %d\n",
            b"cancelled_write_bytes: %d\n"]
    junk = [b"\n", b"   \n", b"garbage\n", b"a: b: c\n", b"\t\n", b"nocolon 5\n", b": \n"]
    for n in range(budget):
        lines = [b % rng.randrange(0, 2 ** 64) for b in base]
        if n % 5 == 1:
            lines.pop(rng.randrange(len(lines)))
        for _ in range(rng.randrange(0, 4)):
            lines.insert(rng.randrange(len(lines) + 1), rng.choice(junk))
        if n % 17 == 3:
            lines = [rng.choice(junk[:5]) for _ in range(rng.randrange(0, 3))]
        yield {"text": lat(b"".join(lines))}


def expected_mode(flags):
    acc = flags & 3
    app = bool(flags & os.O_APPEND)
    return {0: "r", 1: "a" if app else "w", 2: "a+" if app else "r+"}.get(acc)


@runner("c14:open_files")
def c14_open_files(model, meta):
    """a generated descriptor table under a fake procfs; oracle = independent reading of the same table"""
    from psutil import _pslinux
    import psutil
    pid = 4500
    entries = model["fds"]       # [(fd, kind, flags, pos)]
    d = tempfile.mkdtemp(prefix="vfproc_")
    want = []
    try:
        os.makedirs(f"{d}/{pid}/fd")
        os.makedirs(f"{d}/{pid}/fdinfo")
        os.makedirs(f"{d}/files")
        with open(f"{d}/{pid}/stat", "wb") as f:
            f.write(build_stat(pid, b"x", stat_fields(__import__("random").Random(3))))
        with open(f"{d}/stat", "wb") as f:
            f.write(b"cpu  1 2 3 4 5 6 7 8 9 10\nbtime 1700000000\n")
        closing = {}
        for fd, kind, flags, pos in entries:
            if kind == "file":
                tgt = f"{d}/files/f{fd}"
                open(tgt, "w").close()
            elif kind == "deleted_gone":
                tgt = f"{d}/files/gone{fd} (deleted)"
            elif kind == "deleted_exists":
                tgt = f"{d}/files/odd{fd} (deleted)"
                open(tgt, "w").close()
            elif kind == "deleted_suffix_chars":
                # the bogus suffix on a file that exists under its real name, whose name ends in characters that also occur
                # in ' (deleted)': only the 10-character suffix goes, not every trailing character of that set
                tgt0 = f"{d}/files/old_{fd}_deleted"
                open(tgt0, "w").close()
                tgt = tgt0 + " (deleted)"
            elif kind == "socket":
                tgt = f"socket:[{1000 + fd}]"
            elif kind == "pipe":
                tgt = f"pipe:[{2000 + fd}]"
            elif kind == "device":
                tgt = "/dev/null"
            elif kind == "relative":
                tgt = f"rel/path{fd}"
            elif kind == "dir":
                tgt = f"{d}/files"
            elif kind in ("nofdinfo", "esrch_fdinfo", "esrch_readlink", "enoent_readlink", "enoent_read_fdinfo",
                          "esrch_read_fdinfo"):
                # descriptors that close between the directory listing and their inspection (the kernel answers
                # ENOENT or ESRCH, at readlink() or when the fdinfo file is opened)
                tgt = f"{d}/files/n{fd}"
                open(tgt, "w").close()
                if kind != "nofdinfo":
                    closing[f"{d}/{pid}/fdinfo/{fd}" if kind.endswith("_fdinfo") else f"{d}/{pid}/fd/{fd}"] = kind
            os.symlink(tgt, f"{d}/{pid}/fd/{fd}")
            if kind != "nofdinfo":
                with open(f"{d}/{pid}/fdinfo/{fd}", "w") as f:
                    f.write(f"pos:\t{pos}\nflags:\t0{flags:o}\nmnt_id:\t25\n")
            if kind in ("file", "deleted_exists"):
                want.append((tgt, fd, pos, expected_mode(flags), flags))
            if kind == "deleted_suffix_chars":
                want.append((tgt0, fd, pos, expected_mode(flags), flags))
        old = psutil.PROCFS_PATH
        psutil.PROCFS_PATH = d
        import builtins
        real_open, real_readlink = builtins.open, os.readlink

        class _ClosedUnderfoot:
            """the fdinfo file was opened, then the descriptor closed: the kernel fails the read()"""

            def __init__(self, f, exc):
                self.f, self.exc = f, exc

            def __enter__(self):
                return self

            def __exit__(self, *a):
                self.f.close()

            def close(self):
                self.f.close()

            def read(self, *a):
                raise self.exc

            readline = readlines = read

            def __iter__(self):
                raise self.exc

        def f_open(file, *a, **k):
            how = closing.get(file) if isinstance(file, str) else None
            if how == "esrch_fdinfo":
                raise ProcessLookupError(3, "No such process", file)
            if how == "enoent_read_fdinfo":
                return _ClosedUnderfoot(real_open(file, *a, **k), FileNotFoundError(2, "No such file or directory"))
            if how == "esrch_read_fdinfo":
                return _ClosedUnderfoot(real_open(file, *a, **k), ProcessLookupError(3, "No such process"))
            return real_open(file, *a, **k)

        def f_readlink(path, *a, **k):
            kind_ = closing.get(os.fsdecode(path))
            if kind_ == "esrch_readlink":
                raise ProcessLookupError(3, "No such process", path)
            if kind_ == "enoent_readlink":
                raise FileNotFoundError(2, "No such file or directory", path)
            return real_readlink(path, *a, **k)
        try:
            p = _pslinux.Process(pid)
            try:
                with mock.patch.object(builtins, "open", f_open), mock.patch.object(os, "readlink", f_readlink):
                    res, exc = p.open_files(), None
            except Exception as e:  # noqa: BLE001
                res, exc = None, e
        finally:
            psutil.PROCFS_PATH = old
    finally:
        shutil.rmtree(d, ignore_errors=True)
    got = sorted(tuple(x) for x in res) if res is not None else None
    bad = exc is not None or got != sorted(want) or any(w[3] is None for w in want) and False
    if exc is None and got is not None:
        # access mode 3 has no documented mode string: only require that the call succeeds with one of the five
        want2 = sorted((w[0], w[1], w[2], w[3] if w[3] else g[3], w[4]) for w, g in zip(sorted(want), got)) \
            if len(got) == len(want) else sorted(want)
        bad = got != want2 or any(g[3] not in ("r", "w", "a", "r+", "a+") for g in got)
    return {"env": {}, "result": got, "exc": exc, "verdict": bad, "expected": sorted(want), "fds": entries}


@runner("c14:scan")
def c14_scan(model, meta):
    """the real (undecorated) Process.open_files body with readlink / isfile_strict / open_binary / os.listdir and the
    liveness check replaced by recorders that deliver the outcomes of the model; oracle = the property's statement"""
    import errno
    import io
    from unittest import mock
    from psutil import _pslinux
    rl, fi = list(model["rl"]), list(model.get("fi", []))
    alive = model.get("alive", "ok")
    n = len(rl)
    fds = ["3", "17", "255", "1000"][:n]
    paths = [("/data/f%d" % k if rl[k] in ("reg", "notreg") else "pipe:[%d]" % k) for k in range(n)]
    pos = [int(x) for x in model.get("pos", [0] * n)]
    flags = [int(x) for x in model.get("flags", [0] * n)]
    other_errno = int(model.get("other_errno", errno.EACCES))
    calls = {"alive": 0}

    def fake_readlink(path, *a):
        k = fds.index(path.rsplit("/", 1)[1])
        o = rl[k]
        if o in ("reg", "notreg", "rel", "relreg"):
            return paths[k]
        if o == "ENOENT":
            raise FileNotFoundError(errno.ENOENT, "gone", path)
        if o == "ESRCH":
            raise ProcessLookupError(errno.ESRCH, "gone", path)
        if o == "OTHER":
            raise OSError(other_errno, "other", path)
        raise OSError(getattr(errno, o), o, path)

    def fake_isfile(path):
        return rl[paths.index(path)] in ("reg", "relreg")

    def fake_open(path, *a, **kw):
        k = fds.index(path.rsplit("/", 1)[1])
        o = fi[k] if k < len(fi) else "ok"
        if o == "ENOENT":
            raise FileNotFoundError(errno.ENOENT, "gone", path)
        if o == "ESRCH":
            raise ProcessLookupError(errno.ESRCH, "gone", path)
        return io.BytesIO(b"pos:\t%d\nflags:\t%o\nmnt_id:\t1\n" % (pos[k], flags[k]))

    def fake_alive(self):
        calls["alive"] += 1
        if alive != "ok":
            import psutil
            raise getattr(psutil, alive)(self.pid)

    want, hit = [], False
    for k in range(n):
        if rl[k] in ("ENOENT", "ESRCH"):
            hit = True
        if rl[k] == "OTHER":
            want = "OSError"
            break
        if rl[k] == "reg":
            o = fi[k] if k < len(fi) else "ok"
            if o == "ok":
                acc, app = flags[k] & 3, bool(flags[k] & os.O_APPEND)
                mode = {0: "r", 1: "a" if app else "w"}.get(acc, "a+" if app else "r+")
                want.append((paths[k], int(fds[k]), pos[k], mode, flags[k]))
            else:
                hit = True
    problems, exc, got = [], None, None
    proc = _pslinux.Process(4500)
    fn = getattr(_pslinux.Process.open_files, "__wrapped__", _pslinux.Process.open_files)
    with mock.patch.object(_pslinux, "readlink", fake_readlink), mock.patch.object(_pslinux, "isfile_strict", fake_isfile), \
            mock.patch.object(_pslinux, "open_binary", fake_open), mock.patch("os.listdir", lambda p: list(fds)), \
            mock.patch.object(_pslinux.Process, "_raise_if_not_alive", fake_alive):
        try:
            got = [tuple(x) for x in fn(proc)]
        except Exception as e:  # noqa: BLE001
            exc = e
    if want == "OSError":
        if not (isinstance(exc, OSError) and getattr(exc, "errno", None) == other_errno):
            problems.append(f"an unexpected errno {other_errno} of readlink() must propagate; got {exc!r} / {got!r}")
    elif exc is not None:
        if not (hit and alive != "ok" and type(exc).__name__ == alive):
            problems.append(f"raised {type(exc).__name__}: {exc} (expected rows {want})")
    else:
        if got != want:
            problems.append(f"rows {got}, the property asks {want}")
        if calls["alive"] != (1 if hit else 0):
            problems.append(f"liveness check ran {calls['alive']} times; a descriptor vanished: {hit}")
        if hit and alive != "ok":
            problems.append(f"the liveness check raised {alive} but open_files returned {got}")
    return {"env": {}, "result": problems[:3], "exc": None, "verdict": bool(problems), "raised": repr(exc)}


@search("c14:scan")
def c14_scan_search(meta, seed, budget):
    import itertools
    import random
    rng = random.Random(seed)
    RL = ["reg", "notreg", "rel", "relreg", "ENOENT", "ESRCH", "EINVAL", "ENAMETOOLONG", "OTHER"]
    FI = ["ok", "ENOENT", "ESRCH"]
    fl = [0, 1, 2, 3, 0o2001, 0o2002, 0o102003, 0o100000]
    for r in RL:
        for f in FI:
            for a in ("ok", "NoSuchProcess", "ZombieProcess"):
                yield {"rl": [r], "fi": [f], "alive": a, "pos": [rng.randrange(0, 5000)], "flags": [rng.choice(fl)]}
    combos = list(itertools.product(RL, RL, FI, FI, ("ok", "NoSuchProcess")))
    rng.shuffle(combos)
    for r0, r1, f0, f1, a in combos:
        yield {"rl": [r0, r1], "fi": [f0, f1], "alive": a, "pos": [rng.randrange(0, 5000), 7],
               "flags": [rng.choice(fl), rng.choice(fl)]}


@search("c14:open_files")
def c14_open_files_search(meta, seed, budget):
    import random
    rng = random.Random(seed)
    kinds = ["file", "deleted_gone", "deleted_exists", "deleted_suffix_chars", "socket", "pipe", "device", "relative", "dir",
             "nofdinfo",
             "esrch_fdinfo", "esrch_readlink", "enoent_readlink", "enoent_read_fdinfo", "esrch_read_fdinfo"]
    extras = [0, os.O_APPEND, os.O_CREAT | os.O_TRUNC, os.O_CLOEXEC, os.O_APPEND | os.O_CLOEXEC | 0o100000]
    n = 0
    for acc in range(4):
        for ex in extras:
            yield {"fds": [(3, "file", acc | ex, 0)]}
            n += 1
    for kind in kinds:
        yield {"fds": [(3, "file", 2, 5), (4, kind, 1, 0), (5, "file", 0, 9)]}
        n += 1
    while n < budget:
        k = rng.randrange(0, 7)
        yield {"fds": [(3 + i, rng.choice(kinds), rng.randrange(4) | rng.choice(extras), rng.choice([0, 1, 2 ** 40, 2 ** 63 - 1]))
                       for i in range(k)]}
        n += 1


# ---------------------------------------------------------------------------
# C12
# ---------------------------------------------------------------------------

@runner("c12:cmdline")
def c12_cmdline(model, meta):
    from psutil import _pslinux
    pid = 4600
    data = model.get("cmdline_data", "")
    raw = data.encode("utf-8", "surrogateescape") if isinstance(data, str) else data
    zombie = bool(model.get("is_zombie", False))
    F = stat_fields(__import__("random").Random(4))
    F[0] = b"Z" if zombie else b"S"
    with fake_procfs({f"{pid}/cmdline": raw, f"{pid}/stat": build_stat(pid, b"x", F)}):
        p = _pslinux.Process(pid)
        try:
            res, exc = p.cmdline(), None
        except Exception as e:  # noqa: BLE001
            res, exc = None, e
    if exc is not None:
        # xpost check: ZombieProcess only for an empty cmdline of a zombie
        bad = not (type(exc).__name__ == "ZombieProcess" and data == "" and zombie)
        return {"env": {"data": data, "zombie": zombie, "NUL": "\x00", "self": p}, "result": None, "exc": exc, "verdict": bad}
    return {"env": {"data": raw.decode("utf-8", "surrogateescape"), "zombie": zombie, "NUL": "\x00", "self": p},
            "result": res, "exc": exc}


@search("c12:cmdline")
def c12_cmdline_search(meta, seed, budget):
    import itertools
    alphabet = ["\x00", " ", "a", "-"]
    n = 0
    for ln in range(0, 6):
        for tup in itertools.product(alphabet, repeat=ln):
            for z in (False, True):
                yield {"cmdline_data": "".join(tup), "is_zombie": z}
                n += 1
                if n >= budget:
                    return


@runner("c12:readlink")
def c12_readlink(model, meta):
    from psutil import _pslinux
    target = model.get("link_target", "")
    exists = bool(model.get("suffixed_path_exists", False))
    denied = "denied=True" in meta.get("cfg", "")

    def pes(path):
        if denied:
            raise PermissionError(13, "denied")
        return exists

    with mock.patch.object(_pslinux.os, "readlink", lambda p: target), \
            mock.patch.object(_pslinux, "path_exists_strict", pes):
        try:
            res, exc = _pslinux.readlink("/proc/1/exe"), None
        except Exception as e:  # noqa: BLE001
            res, exc = None, e
    return {"env": {"target": target, "exists": exists, "NUL": "\x00", "denied": denied}, "result": res, "exc": exc}


@search("c12:readlink")
def c12_readlink_search(meta, seed, budget):
    for t in ["/bin/cat", "/bin/cat (deleted)", "/a\x00junk", "/a (deleted)\x00 (deleted)", " (deleted)", "", "\x00",
              "/x (deleted) (deleted)", "/a (deleted)b"]:
        for e in (False, True):
            yield {"link_target": t, "suffixed_path_exists": e}


def ref_environ(data):
    """reference parser written from the property statement"""
    ret = {}
    pos = 0
    while True:
        nxt = data.find("\0", pos)
        if nxt < 0 or nxt == pos:
            break                      # text after the last NUL is ignored; an empty entry ends the block
        entry = data[pos:nxt]
        eq = entry.find("=")
        if eq > 0:
            ret[entry[:eq]] = entry[eq + 1:]
        pos = nxt + 1
    return ret


@runner("c12:environ")
def c12_environ(model, meta):
    from psutil import _common
    data = model["data"]
    try:
        res, exc = _common.parse_environ_block(data), None
    except Exception as e:  # noqa: BLE001
        res, exc = None, e
    want = ref_environ(data)
    return {"env": {"data": data}, "result": res, "exc": exc, "verdict": exc is not None or res != want, "expected": want}


@search("c12:environ")
def c12_environ_search(meta, seed, budget):
    import itertools
    alphabet = ["\x00", "=", "a", "b"]
    n = 0
    for ln in range(0, 10):
        for tup in itertools.product(alphabet, repeat=ln):
            yield {"data": "".join(tup)}
            n += 1
            if n >= budget:
                return


# ---------------------------------------------------------------------------
# C01 / C02: PID-reuse histories on a fake procfs; effectful primitives intercepted
# ---------------------------------------------------------------------------

def _stat_with_start(pid, start, state=b"S", comm=b"proc"):
    import random
    F = stat_fields(random.Random(pid))
    F[0] = state
    F[1] = b"1"
    F[19] = str(start).encode()
    return build_stat(pid, comm, F)


def _call_effectful(p, contract_name):
    meth = contract_name.split(".")[-1]
    import signal
    if meth in ("_send_signal", "send_signal"):
        return getattr(p, meth)(signal.SIGUSR1)
    if meth in ("suspend", "resume", "terminate", "kill"):
        return getattr(p, meth)()
    if meth == "nice":
        return p.nice(5)
    if meth == "ionice":
        return p.ionice(2, 4)
    if meth == "rlimit":
        return p.rlimit(7, (100, 100))
    if meth == "cpu_affinity":
        return p.cpu_affinity([0])
    return getattr(p, meth)()


@runner("c01:history")
def c01_history(model, meta):
    """three canonical histories; a delivered signal/setting after the PID changed hands is the violation"""
    import psutil
    from psutil import _pslinux
    pid = 4700
    results = {}
    delivered_any = False
    for hist in ("gone-observed-then-recycled", "recycled-by-readable-process", "recycled-by-unidentifiable-owner"):
        calls = []

        def rec(name):
            def f(*a, **k):
                calls.append((name,) + a)
            return f

        with fake_procfs({f"{pid}/stat": _stat_with_start(pid, 1000)}) as d:
            _pslinux.BOOT_TIME = None
            p = psutil.Process(pid)
            statp = os.path.join(d, str(pid), "stat")
            patches = [mock.patch.object(os, "kill", rec("os.kill")),
                       mock.patch.object(_pslinux.cext_posix, "setpriority", rec("setpriority")),
                       mock.patch.object(_pslinux.cext, "proc_ioprio_set", rec("ioprio_set")),
                       mock.patch.object(_pslinux.cext, "proc_cpu_affinity_set", rec("affinity_set")),
                       mock.patch.object(_pslinux.resource, "prlimit", rec("prlimit"))]
            extra = None
            if hist == "gone-observed-then-recycled":
                shutil.rmtree(os.path.join(d, str(pid)))
                p.is_running()
                os.makedirs(os.path.join(d, str(pid)))
                with open(statp, "wb") as f:
                    f.write(_stat_with_start(pid, 999999))
            elif hist == "recycled-by-readable-process":
                with open(statp, "wb") as f:
                    f.write(_stat_with_start(pid, 999999))
            else:
                with open(statp, "wb") as f:
                    f.write(_stat_with_start(pid, 999999, state=b"Z"))
                orig_ct = _pslinux.Process.create_time

                def ct(self, *a, **k):
                    raise psutil.ZombieProcess(self.pid)
                extra = mock.patch.object(_pslinux.Process, "create_time", ct)
            for pt in patches:
                pt.start()
            if extra:
                extra.start()
            try:
                try:
                    _call_effectful(p, meta["contract"])
                    outcome = "returned"
                except Exception as e:  # noqa: BLE001
                    outcome = type(e).__name__
            finally:
                for pt in patches:
                    pt.stop()
                if extra:
                    extra.stop()
            _pslinux.BOOT_TIME = None
        results[hist] = {"outcome": outcome, "delivered": [repr(c) for c in calls]}
        if calls:
            delivered_any = True
    return {"env": {}, "result": results, "exc": None, "verdict": delivered_any}


@search("c01:history")
def c01_history_search(meta, seed, budget):
    yield {}


@runner("c02:clockstep")
def c02_clockstep(model, meta):
    """same live process, kernel btime stepped between two constructions, boot_time() called in between"""
    import psutil
    from psutil import _pslinux
    pid = 4800
    stat1 = b"cpu  1 2 3 4 5 6 7 8 9 10\nbtime 1700000000\n"
    stat2 = b"cpu  1 2 3 4 5 6 7 8 9 10\nbtime 1700000005\n"
    ops = {"create_time": lambda p: p.create_time(), "is_running": lambda p: p.is_running(), "hash": lambda p: hash(p),
           "name": lambda p: p.name(), "boot_time": lambda p: psutil.boot_time(), "str": lambda p: str(p)}
    start = int(model.get("start", 12345))
    with fake_procfs({f"{pid}/stat": _stat_with_start(pid, start), "stat": stat1}) as d:
        _pslinux.BOOT_TIME = None
        p1 = psutil.Process(pid)
        for op in model.get("before", []):        # other psutil calls made before the clock is stepped
            ops[op](p1)
        with open(os.path.join(d, "stat"), "wb") as f:
            f.write(stat2)
        psutil.boot_time()
        for op in model.get("after", []):         # ... and after it
            ops[op](p1)
        p2 = psutil.Process(pid)
        eq = p1 == p2
        h = hash(p1) == hash(p2)
        running = p1.is_running()
        running2 = p2.is_running()
        eq2 = p1 == p2 and p2 == p1 and not (p1 != p2)
        _pslinux.BOOT_TIME = None
    return {"env": {}, "result": {"p1 == p2": eq, "same hash": h, "p1.is_running()": running, "p2.is_running()": running2,
                                  "still equal": eq2, "ident1": p1._ident, "ident2": p2._ident}, "exc": None,
            "verdict": not (eq and h and running and running2 and eq2)}


@search("c02:clockstep")
def c02_clockstep_search(meta, seed, budget):
    import itertools
    names = ["create_time", "is_running", "hash", "name", "boot_time", "str"]
    n = 0
    for start in (12345, 0):                 # a process started 0 ticks after boot (init, kthreadd) has an identity too
        yield {"start": start}
        for k in (1, 2):
            for before in itertools.permutations(names, k):
                for after in ([], ["create_time"], ["is_running", "create_time"]):
                    yield {"start": start, "before": list(before), "after": after}
                    n += 1
                    if n >= budget:
                        return


# ---------------------------------------------------------------------------
# C04: process-table histories on a fake procfs, checked against a reference model
# ---------------------------------------------------------------------------

class FakeTable:
    def __init__(self, root):
        self.root = root
        self.tick = 1000
        self.procs = {}          # pid -> start tick

    def _write(self, pid):
        d = os.path.join(self.root, str(pid))
        os.makedirs(d, exist_ok=True)
        with open(os.path.join(d, "stat"), "wb") as f:
            f.write(_stat_with_start(pid, self.procs[pid], comm=b"p%d" % pid))
        with open(os.path.join(d, "status"), "wb") as f:
            f.write(b"Name:\tp%d\nTgid:\t%d\nPid:\t%d\nUid:\t0\t0\t0\t0\nGid:\t0\t0\t0\t0\nThreads:\t1\n" % (pid, pid, pid))

    def spawn(self, pid):
        if pid in self.procs:
            return False
        self.tick += 7
        self.procs[pid] = self.tick
        self._write(pid)
        return True

    def exit(self, pid):
        if pid not in self.procs:
            return False
        del self.procs[pid]
        shutil.rmtree(os.path.join(self.root, str(pid)), ignore_errors=True)
        return True

    def reuse(self, pid):
        if pid not in self.procs:
            return False
        self.exit(pid)
        return self.spawn(pid)


@runner("c04:history")
def c04_history(model, meta):
    import psutil
    from psutil import _pslinux
    events = model["events"]
    problems = []
    d = tempfile.mkdtemp(prefix="vfproc_")
    old = psutil.PROCFS_PATH
    try:
        with open(os.path.join(d, "stat"), "wb") as f:
            f.write(b"cpu  1 2 3 4 5 6 7 8 9 10\nbtime 1700000000\n")
        psutil.PROCFS_PATH = d
        _pslinux.BOOT_TIME = None
        psutil._pmap.clear()
        _reused_set(psutil).clear()
        tb = FakeTable(d)
        tb.spawn(1)
        handles = []                   # (obj, pid, tick it was created for)
        cached = {}                    # reference: pid -> (obj, tick) expected in the cache
        pending_reused = set()         # PIDs found recycled by is_running() since the last pass
        known = []                     # occurrences of the recorded finding C04-reused-skip
        stale = {}                     # id(obj) -> obj: objects whose is_running() found their PID recycled
        held = None                    # an iterator that is in flight while other things happen: (gen, listed at start)
        consumed_while_held = set()    # PIDs whose "recycled" verdict was used up by a pass that ran while `held` was open
        republished = {}               # id(obj) -> obj: stale entries an older iterator put back (recorded finding)
        known2 = []
        for ev in events:
            kind = ev[0]
            if kind == "iter_hold" and held is None:
                gen = psutil.process_iter()
                held = (gen, sorted(tb.procs))
                for _ in range(ev[1]):
                    try:
                        p = next(gen)
                    except StopIteration:
                        break
                    if not any(h[0] is p for h in handles):
                        handles.append((p, p.pid, tb.procs.get(p.pid)))
                continue
            if kind == "iter_resume" and held is not None:
                gen, at_start = held
                held = None
                rest = list(gen)
                if [p.pid for p in rest] != sorted(p.pid for p in rest) or not set(p.pid for p in rest) <= set(at_start):
                    problems.append(f"resumed iterator yielded {[p.pid for p in rest]} (listed when it started: {at_start})")
                for p in rest:
                    if not any(h[0] is p for h in handles):
                        handles.append((p, p.pid, tb.procs.get(p.pid)))
                # the finished iterator publishes its private map: the reference follows the real cache, keeping for each
                # object the process it was created for
                cached = {}
                for pid_, obj_ in psutil._pmap.items():
                    ticks = [t for (o, _p, t) in handles if o is obj_]
                    if ticks and pid_ not in pending_reused:      # (a PID reported recycled is due to be replaced)
                        cached[pid_] = (obj_, ticks[0])
                    if id(obj_) in stale and pid_ in consumed_while_held:
                        # recorded finding C04-older-iterator-republishes: the verdict was recorded, a newer pass used it
                        # up, and this older iterator now overwrites the cache with its private copy
                        republished[id(obj_)] = obj_
                consumed_while_held.clear()
                continue
            if kind in ("iter_hold", "iter_resume"):
                continue
            if kind in ("spawn", "exit", "reuse"):
                getattr(tb, kind)(ev[1])
            elif kind == "proc":
                if ev[1] in tb.procs:
                    try:
                        handles.append((psutil.Process(ev[1]), ev[1], tb.procs[ev[1]]))
                    except psutil.Error as e:
                        problems.append(f"Process({ev[1]}) raised {e!r} for a listed PID")
            elif kind == "clear":
                psutil.process_iter.cache_clear()
                cached = {}
                if psutil._pmap:
                    problems.append("cache_clear() left entries behind")
            elif kind in ("isrun", "isrun_pid"):
                for obj, pid, tick in handles:
                    if kind == "isrun_pid" and pid != ev[1]:
                        continue
                    alive = tb.procs.get(pid) == tick
                    r = obj.is_running()
                    if r != alive:
                        problems.append(f"is_running() == {r} for pid {pid} (process {'alive' if alive else 'gone/replaced'})")
                    if not alive and pid in cached and cached[pid][0] is obj:
                        del cached[pid]        # found recycled/gone: its entry must be replaced / dropped
                    if not alive and pid in tb.procs and getattr(obj, "_pid_reused", False):
                        # is_running() publishes the bare PID: the next pass drops whatever entry is cached
                        # under it (recorded finding C04-reused-skip covers the skipped pass)
                        pending_reused.add(pid)
                        cached.pop(pid, None)
                        stale[id(obj)] = obj
            elif kind in ("iter", "iter_partial", "iter_attrs", "iter_late_verdict"):
                attrs = ["pid", "name"] if kind == "iter_attrs" else None
                late_patch = None
                if kind == "iter_late_verdict":
                    # another thread's is_running() finds PID ev[1] recycled while this pass is busy replacing the entries
                    # already reported (the hook sits on the debug() call inside that loop); its verdict must not be lost
                    late_pid, fired = ev[1], []
                    real_debug = psutil.debug

                    def late_debug(msg):
                        if not fired and "refreshing Process instance" in str(msg):
                            fired.append(1)
                            for obj, pid, tick in list(handles):
                                if pid == late_pid and tb.procs.get(pid) != tick and not obj.is_running() \
                                        and pid in tb.procs and getattr(obj, "_pid_reused", False):
                                    pending_reused.add(pid)
                                    cached.pop(pid, None)
                                    stale[id(obj)] = obj
                        return real_debug(msg)
                    late_patch = mock.patch.object(psutil, "debug", late_debug)
                    late_patch.start()
                    kind = "iter"
                if held is not None:
                    consumed_while_held |= set(_reused_set(psutil))
                gen = psutil.process_iter(attrs)
                got = []
                limit = ev[1] if kind == "iter_partial" else 10 ** 6
                try:
                    for p in gen:
                        got.append(p)
                        if len(got) >= limit:
                            break
                finally:
                    gen.close()
                    if late_patch is not None:
                        late_patch.stop()
                listed = sorted(tb.procs)
                pids = [p.pid for p in got]
                want = listed[:limit]
                skipped = set()
                if pids != want:
                    missing = [x for x in listed if x not in pids]
                    if kind != "iter_partial" and pids == [x for x in listed if x not in pending_reused] and \
                            set(missing) <= pending_reused:
                        # recorded finding: a PID found recycled by is_running() is dropped from the cache *after*
                        # the new PIDs were worked out, so it is not yielded at all in that one pass
                        known.append(f"{kind}: recycled PIDs {missing} not yielded in the pass following is_running()")
                        skipped = set(missing)
                    else:
                        problems.append(f"{kind}: yielded {pids}, listed (ascending) {want}")
                if kind != "iter_partial" or True:
                    pending_reused -= set(pids) | skipped
                for p in got:
                    if id(p) in republished:
                        known2.append(f"{kind}: stale entry for pid {p.pid} put back by an older iterator that finished after a "
                                      f"newer pass had used up the verdict")
                    elif id(p) in stale and held is None:
                        # "an entry whose PID was found recycled by is_running() is replaced by a fresh object": this pass
                        # started after the verdict, whichever iterator the object came from
                        problems.append(f"{kind}: the object is_running() found recycled is still yielded for pid {p.pid}")
                for p in got:
                    tick = tb.procs.get(p.pid)
                    if kind == "iter_attrs" and set(getattr(p, "info", {})) != {"pid", "name"}:
                        problems.append(f"info keys {sorted(getattr(p, 'info', {}))} != ['name', 'pid']")
                    prev = cached.get(p.pid)
                    if prev is not None and prev[1] == tick and prev[0] is not p:
                        problems.append(f"pid {p.pid} stayed listed but a different object was yielded")
                    if prev is not None and prev[1] != tick and prev[0] is p and any(
                            h[0] is p and False for h in handles):
                        pass
                    seen_before = any(h[0] is p for h in handles)
                    if not seen_before:
                        handles.append((p, p.pid, tick))
                    if (prev is None or prev[0] is not p) and not seen_before:
                        # a new cache entry: it must describe the process that owns the PID now
                        if p._ident[1] is not None and abs(p._ident[1] - tick / _pslinux.CLOCK_TICKS) > 1e-6 and \
                                abs(p._ident[1] - (tick / _pslinux.CLOCK_TICKS + 1700000000)) > 1e-6:
                            problems.append(f"fresh object for pid {p.pid} does not identify the current owner")
                        cached[p.pid] = (p, tick)
                if kind != "iter_partial":
                    for pid in list(cached):
                        if pid not in tb.procs:
                            del cached[pid]
                    if held is None and set(psutil._pmap) != set(listed) - skipped:
                        problems.append(f"cache holds {sorted(psutil._pmap)} after a full pass over {listed}")
        # at the end: handles of live processes answer True, the others False
        for obj, pid, tick in handles:
            alive = tb.procs.get(pid) == tick
            r = obj.is_running()
            if r != alive:
                problems.append(f"final is_running() == {r} for pid {pid} ({'alive' if alive else 'gone/replaced'})")
    except Exception as e:  # noqa: BLE001
        import traceback
        problems.append("exception: " + traceback.format_exc()[-600:])
    finally:
        psutil.PROCFS_PATH = old
        psutil._pmap.clear()
        _reused_set(psutil).clear()
        _pslinux.BOOT_TIME = None
        shutil.rmtree(d, ignore_errors=True)
    tag = None
    if meta.get("prop") == "C02":
        # C02 only speaks about is_running() answers along the history
        problems = [p for p in problems if "is_running()" in p]
        known = []
        known2 = []
    if not problems and known2:
        problems = known2
        tag = "stale-entry-republished-by-older-iterator"
    elif not problems and known:
        problems = known
        tag = "reused-pid-skipped-one-pass"
    return {"env": {}, "result": problems[:4], "exc": None, "verdict": bool(problems), "events": events, "tag": tag}


C04_EVENTS = [("spawn", 2), ("spawn", 3), ("exit", 2), ("exit", 3), ("reuse", 2), ("reuse", 3), ("iter",),
              ("iter_partial", 1), ("isrun",), ("clear",), ("iter_attrs",), ("proc", 2), ("proc", 3)]

C04_LONG = [
    [("spawn", 3), ("proc", 3), ("reuse", 3), ("iter",), ("isrun",), ("iter",), ("isrun",)],
    [("spawn", 2), ("spawn", 3), ("iter",), ("reuse", 2), ("isrun",), ("iter",), ("iter",), ("isrun",)],
    [("spawn", 3), ("iter",), ("exit", 3), ("isrun",), ("spawn", 3), ("iter",), ("isrun",)],
    [("spawn", 2), ("iter_partial", 1), ("spawn", 3), ("iter",), ("exit", 2), ("iter",), ("clear",), ("iter",)],
    [("spawn", 3), ("proc", 3), ("iter",), ("reuse", 3), ("isrun",), ("proc", 3), ("iter",), ("iter",), ("isrun",)],
    [("spawn", 2), ("proc", 2), ("exit", 2), ("spawn", 2), ("iter",), ("isrun",), ("iter",), ("isrun",)],
    # long tails after a reuse was detected: the recycled entry is replaced ONCE, then the same object stays
    [("spawn", 2), ("spawn", 3), ("iter",), ("reuse", 2), ("isrun",), ("iter",), ("iter",), ("iter",), ("iter",), ("iter",)],
    [("spawn", 3), ("iter",), ("reuse", 3), ("isrun",), ("iter",), ("iter",), ("isrun",), ("iter",), ("iter",), ("iter",)],
    [("spawn", 2), ("iter",), ("reuse", 2), ("isrun",), ("iter",), ("iter",), ("reuse", 2), ("isrun",), ("iter",), ("iter",),
     ("iter",), ("iter",)],
    # two threads: while one pass replaces the entry of PID 2 (reported recycled), another thread's is_running() reports PID 3
    [("spawn", 2), ("spawn", 3), ("iter",), ("reuse", 2), ("reuse", 3), ("isrun_pid", 2), ("iter_late_verdict", 3), ("iter",),
     ("iter",), ("iter",)],
    [("spawn", 2), ("spawn", 3), ("iter",), ("reuse", 3), ("reuse", 2), ("isrun_pid", 3), ("iter_late_verdict", 2), ("iter",),
     ("iter",)],
    # a partially consumed iterator in flight while a PID it handed out is recycled and found so by is_running()
    [("spawn", 2), ("spawn", 3), ("iter_hold", 2), ("reuse", 2), ("isrun",), ("iter_resume",), ("iter",), ("iter",), ("iter",)],
    [("spawn", 2), ("iter",), ("spawn", 3), ("iter_hold", 3), ("reuse", 3), ("isrun",), ("iter_resume",), ("iter",), ("iter",),
     ("iter",)],
    [("spawn", 2), ("spawn", 3), ("iter_hold", 3), ("reuse", 3), ("isrun",), ("iter",), ("iter_resume",), ("iter",), ("iter",),
     ("iter",)],
    [("spawn", 2), ("iter_hold", 1), ("exit", 2), ("iter_resume",), ("iter",), ("spawn", 2), ("iter",), ("isrun",)],
]


@search("c04:history")
def c04_history_search(meta, seed, budget):
    import itertools
    import random
    n = 0
    for h in C04_LONG:
        yield {"events": [list(e) for e in h]}
        n += 1
    for ln in range(1, 4):
        for tup in itertools.product(C04_EVENTS, repeat=ln):
            if not any(e[0].startswith("iter") for e in tup):
                continue
            yield {"events": [list(e) for e in tup] + [["iter"]]}
            n += 1
            if n >= budget:
                return
    rng = random.Random(seed)
    while n < budget:
        evs = [list(rng.choice(C04_EVENTS)) for _ in range(rng.randrange(4, 8))]
        if n % 3 == 0:          # an iterator in flight across part of the history
            i = rng.randrange(0, len(evs))
            j = rng.randrange(i, len(evs)) + 1
            evs = evs[:i] + [["iter_hold", rng.randrange(1, 4)]] + evs[i:j] + [["iter_resume"]] + evs[j:] + [["iter"]]
        yield {"events": evs + [["iter"]]}
        n += 1


@runner("c04:pid_exists")
def c04_pid_exists(model, meta):
    from psutil import _psposix
    pid = int(model.get("pid", 0))
    calls = []
    with mock.patch.object(os, "kill", lambda p, s: (calls.append((p, s)), os_kill_model(p, model))[1]):
        try:
            res, exc = _psposix.pid_exists(pid), None
        except Exception as e:  # noqa: BLE001
            res, exc = None, e
    return {"env": {"pid": pid, "alive": bool(model.get("kill0_finds_process", False))}, "result": res, "exc": exc}


def os_kill_model(p, model):
    if not -2 ** 31 <= p < 2 ** 31:
        raise OverflowError("signed integer is greater than maximum")
    if not model.get("kill0_finds_process", False):
        raise ProcessLookupError(3, "No such process")
    return None


# ---------------------------------------------------------------------------
# C05: process trees on a fake procfs against a reference model
# ---------------------------------------------------------------------------

def _tree_stat(pid, ppid, start):
    import random
    F = stat_fields(random.Random(pid))
    F[0] = b"S"
    F[1] = str(ppid).encode()
    F[19] = str(start).encode()
    return build_stat(pid, b"p%d" % pid, F)


def ref_children(procs, me, recursive, vanished=()):
    ct = lambda p: procs[p][1]  # noqa: E731
    kids = lambda p: [c for c in sorted(procs) if procs[c][0] == p and c not in vanished]  # noqa: E731
    if not recursive:
        return sorted(c for c in kids(me) if c != me and ct(c) >= ct(me))
    out, seen, stack = [], {me}, [me]
    while stack:
        p = stack.pop()
        for c in kids(p):
            if c in seen:
                continue
            if ct(c) >= ct(me):
                seen.add(c)
                out.append(c)
                stack.append(c)
    return sorted(out)


@runner("c05:tree")
def c05_tree(model, meta):
    import psutil
    import signal
    from psutil import _pslinux
    procs = {int(k): (int(v[0]), int(v[1])) for k, v in model["procs"].items()}
    me = int(model.get("self", 10))
    problems = []
    files = {f"{p}/stat": _tree_stat(p, pp, st) for p, (pp, st) in procs.items()}
    files["1/stat"] = _tree_stat(1, 0, 1)
    allp = dict(procs)
    allp[1] = (0, 1)

    def on_alarm(*a):
        raise TimeoutError("did not terminate within 5 s")

    signal.signal(signal.SIGALRM, on_alarm)
    with fake_procfs(files):
        _pslinux.BOOT_TIME = None
        psutil._LOWEST_PID = None
        p = psutil.Process(me)
        vanish = [int(x) for x in model.get("vanish", []) if int(x) != me and int(x) in procs]
        real_map = psutil._ppid_map

        keep_dir = bool(model.get("keep_dir"))

        def map_then_vanish():
            m = real_map()
            for v in vanish:      # the process exits right after the snapshot was taken
                shutil.rmtree(os.path.join(psutil.PROCFS_PATH, str(v)), ignore_errors=True)
                if keep_dir:      # ... and the kernel keeps its (now empty) /proc/<pid> directory for a moment (#2418)
                    os.makedirs(os.path.join(psutil.PROCFS_PATH, str(v)), exist_ok=True)
            return m

        # a process exiting *while the snapshot is taken*: its stat file cannot be opened any more (ENOENT) or was opened
        # and cannot be read any more (ESRCH); either way it is simply not part of the snapshot
        in_map = {int(k): v for k, v in model.get("vanish_in_map", {}).items() if int(k) != me and int(k) in procs}
        real_ob = _pslinux.open_binary

        class _DeadFile:
            def __init__(self, f):
                self.f = f

            def __enter__(self):
                return self

            def __exit__(self, *a):
                self.f.close()

            def read(self, *a):
                raise ProcessLookupError(errno.ESRCH, "No such process")

            readline = read

            def close(self):
                self.f.close()

        def faulty_open(fname, *a, **kw):
            for v, how in in_map.items():
                if fname.endswith(f"/{v}/stat"):
                    if how == "open":
                        raise FileNotFoundError(errno.ENOENT, "No such file or directory", fname)
                    return _DeadFile(real_ob(fname, *a, **kw))
            return real_ob(fname, *a, **kw)

        def faulty_map():
            with mock.patch.object(_pslinux, "open_binary", faulty_open):
                return real_map()

        for rec in ((False, True) if not vanish else (True,)):
            signal.alarm(5)
            try:
                if vanish:
                    with mock.patch.object(psutil, "_ppid_map", map_then_vanish):
                        got = [c.pid for c in p.children(recursive=rec)]
                elif in_map:
                    with mock.patch.object(psutil, "_ppid_map", faulty_map):
                        got = [c.pid for c in p.children(recursive=rec)]
                    for v in in_map:     # it is gone for good: no later access finds it either
                        shutil.rmtree(os.path.join(psutil.PROCFS_PATH, str(v)), ignore_errors=True)
                else:
                    got = [c.pid for c in p.children(recursive=rec)]
                want = ref_children(allp, me, rec, vanished=list(vanish) + list(in_map))
                if sorted(got) != want or len(got) != len(set(got)):
                    problems.append(f"children(recursive={rec}) == {got}, expected {want}")
            except Exception as e:  # noqa: BLE001
                problems.append(f"children(recursive={rec}) raised {e!r}")
            finally:
                signal.alarm(0)
        signal.alarm(5)
        try:
            if vanish or in_map:
                raise StopIteration
            par = p.parent()
            pp = allp[me][0]
            want = pp if (pp in allp and allp[pp][1] <= allp[me][1] and me != min(allp)) else None
            if (par.pid if par is not None else None) != want:
                problems.append(f"parent() == {par}, expected pid {want}")
        except StopIteration:
            pass
        except Exception as e:  # noqa: BLE001
            problems.append(f"parent() raised {e!r}")
        finally:
            signal.alarm(0)
        _pslinux.BOOT_TIME = None
        psutil._LOWEST_PID = None
    return {"env": {}, "result": problems[:3], "exc": None, "verdict": bool(problems), "procs": procs}


@search("c05:tree")
def c05_tree_search(meta, seed, budget):
    import itertools
    import random
    pids = [10, 11, 12, 13]
    parents = [1, 10, 11, 12, 13, 99]
    rng = random.Random(seed)
    combos = list(itertools.product(parents, repeat=4))
    rng.shuffle(combos)
    n = 0
    for pp in combos:
        for _ in range(2):
            starts = [rng.choice([100, 200, 300, 400]) for _ in pids]
            yield {"procs": {str(p): [pp[i], starts[i]] for i, p in enumerate(pids)}, "self": 10}
            n += 1
            if n % 3 == 0:
                yield {"procs": {str(p): [pp[i], starts[i]] for i, p in enumerate(pids)}, "self": 10,
                       "vanish": [rng.choice([11, 12, 13])], "keep_dir": n % 2 == 0}
                n += 1
            if n % 4 == 0:
                yield {"procs": {str(p): [pp[i], starts[i]] for i, p in enumerate(pids)}, "self": 10,
                       "vanish_in_map": {str(rng.choice([11, 12, 13])): rng.choice(["open", "read"])}}
                n += 1
            if n >= budget:
                return


# ---------------------------------------------------------------------------
# C03: fault injection on a fake procfs
# ---------------------------------------------------------------------------

C03_PID = 4900
C03_METHODS = ["name", "exe", "cmdline", "environ", "terminal", "io_counters", "cpu_times", "cpu_num", "create_time",
               "memory_info", "memory_full_info", "memory_maps", "cwd", "num_ctx_switches", "num_threads", "threads",
               "status", "open_files", "net_connections", "num_fds", "ppid", "uids", "gids", "as_dict", "is_running",
               "children", "parent", "memory_percent", "username", "oneshot_seq", "process_iter_attrs"]

SMAPS = (b"55d0c0a00000-55d0c0a21000 r--p 00000000 fd:01 123 /usr/bin/cat\nSize: 132 kB\nRss: 100 kB\nPss: 50 kB\n"
         b"Shared_Clean: 10 kB\nShared_Dirty: 0 kB\nPrivate_Clean: 20 kB\nPrivate_Dirty: 4 kB\nReferenced: 100 kB\n"
         b"Anonymous: 4 kB\nSwap: 0 kB\nVmFlags: rd mr mw me\n"
         b"7ffc00000000-7ffc00021000 rw-p 00000000 00:00 0 \nSize: 132 kB\nRss: 8 kB\nPss: 8 kB\nShared_Clean: 0 kB\n"
         b"Shared_Dirty: 0 kB\nPrivate_Clean: 0 kB\nPrivate_Dirty: 8 kB\nReferenced: 8 kB\nAnonymous: 8 kB\nSwap: 0 kB\n")
ROLLUP = b"00400000-7ffc00021000 ---p 00000000 00:00 0 [rollup]\nRss: 108 kB\nPss: 58 kB\nPrivate_Clean: 20 kB\nPrivate_Dirty: 12 kB\nSwap: 0 kB\n"


def c03_tree(d, state=b"S"):
    import random
    pid = C03_PID
    base = os.path.join(d, str(pid))
    os.makedirs(os.path.join(base, "fd"), exist_ok=True)
    os.makedirs(os.path.join(base, "fdinfo"), exist_ok=True)
    os.makedirs(os.path.join(base, "task", str(pid)), exist_ok=True)
    os.makedirs(os.path.join(base, "task", str(pid + 1)), exist_ok=True)
    os.makedirs(os.path.join(d, "net"), exist_ok=True)
    os.makedirs(os.path.join(d, "files"), exist_ok=True)
    F = stat_fields(random.Random(5))
    F[0] = state
    F[1] = b"1"
    F[4] = b"0"
    w = lambda rel, data: open(os.path.join(base, rel), "wb").write(data)  # noqa: E731
    w("stat", build_stat(pid, b"victim", F))
    txt, _ = build_status({})
    w("status", txt)
    w("statm", b"1000 200 50 10 0 300 0\n")
    w("cmdline", b"" if state == b"Z" else b"/usr/bin/victim\x00-x\x00")
    w("environ", b"" if state == b"Z" else b"A=1\x00B=2\x00")
    w("io", b"rchar: 1\nwchar: 2\nsyscr: 3\nsyscw: 4\nread_bytes: 5\nwrite_bytes: 6\ncancelled_write_bytes: 0\n")
    w("smaps", b"" if state == b"Z" else SMAPS)
    w("smaps_rollup", b"" if state == b"Z" else ROLLUP)
    w("task/%d/stat" % pid, build_stat(pid, b"victim", F))
    w("task/%d/stat" % (pid + 1), build_stat(pid + 1, b"worker)", F))
    tgt = os.path.join(d, "files", "data.txt")
    open(tgt, "w").close()
    for fd, t in ((0, "/dev/null"), (3, tgt), (4, "socket:[7777]")):
        os.symlink(t, os.path.join(base, "fd", str(fd)))
        w("fdinfo/%d" % fd, b"pos:\t0\nflags:\t0100002\nmnt_id:\t1\n")
    if state != b"Z":
        os.symlink("/usr/bin/cat", os.path.join(base, "exe"))
    os.symlink("/tmp", os.path.join(base, "cwd"))
    for proto in ("tcp", "tcp6", "udp", "udp6"):
        open(os.path.join(d, "net", proto), "w").write("  sl  local_address rem_address   st ...\n")
    open(os.path.join(d, "net", "unix"), "w").write("Num RefCount Protocol Flags Type St Inode Path\n")
    one = os.path.join(d, "1")
    os.makedirs(one, exist_ok=True)
    open(os.path.join(one, "cmdline"), "wb").write(b"/sbin/init\x00")
    open(os.path.join(one, "statm"), "wb").write(b"10 2 1 1 0 3 0\n")
    open(os.path.join(one, "stat"), "wb").write(_stat_with_start(1, 1, comm=b"init"))
    open(os.path.join(one, "status"), "wb").write(b"Name:\tinit\nTgid:\t1\nUid:\t0\t0\t0\t0\nGid:\t0\t0\t0\t0\nThreads:\t1\n")
    open(os.path.join(d, "stat"), "wb").write(b"cpu  1 2 3 4 5 6 7 8 9 10\ncpu0 1 2 3 4 5 6 7 8 9 10\nbtime 1700000000\n")
    open(os.path.join(d, "meminfo"), "wb").write(b"MemTotal: 1000000 kB\nMemFree: 500000 kB\nMemAvailable: 600000 kB\nBuffers: 1 kB\nCached: 1 kB\nShmem: 1 kB\nActive: 1 kB\nInactive: 1 kB\nSlab: 1 kB\n")


class FaultInjector:
    """counts OS accesses (opens, reads, readlinks, listdirs, stats) below <root>/<any pid>; applies the scheduled
    faults.  A fault on the target's own files is the property's "vanish / zombie / deny just before access k"; a fault
    on another process's files (its parent, a listed child) removes or denies THAT process."""

    def __init__(self, root, plan):
        self.root, self.plan = root, dict(plan)      # {k: 'vanish' | 'deny' | 'zombie'}
        self.k = 0
        self.prefix = os.path.join(root, str(C03_PID))
        self.gone = False
        self.touched_pids = set()

    def _pid_dir(self, p):
        rel = os.path.relpath(p, self.root)
        head = rel.split(os.sep, 1)[0]
        return (os.path.join(self.root, head), int(head)) if head.isdigit() else (None, None)

    def hit(self, path, reading=False):
        try:
            p = os.fsdecode(path)
        except Exception:
            return None
        if not p.startswith(self.root + os.sep):
            return None
        pdir, pid = self._pid_dir(p)
        if pdir is None:
            return None
        own = pid == C03_PID
        k = self.k
        self.k += 1
        f = self.plan.get(k)
        if f is None:
            return None
        self.touched_pids.add(pid)
        if f == "vanish" and not (own and self.gone):
            shutil.rmtree(pdir, ignore_errors=True)
            if own:
                self.gone = True
            if reading:
                raise ProcessLookupError(3, "No such process", p)      # what read(2) of a vanished /proc file gives
        elif f == "zombie" and own and not self.gone:
            shutil.rmtree(self.prefix, ignore_errors=True)
            c03_tree(self.root, state=b"Z")
        elif f == "deny":
            raise PermissionError(13, "Permission denied", p)
        return None

    def patches(self):
        import builtins
        real_open, real_readlink, real_listdir, real_stat = builtins.open, os.readlink, os.listdir, os.stat
        real_exists, real_lexists = os.path.exists, os.path.lexists
        inj = self

        class ReadFaults:
            """file object whose first read can be hit by a fault (the kernel checks the task again at read time)"""

            def __init__(self, f, path):
                self._f, self._path, self._hit = f, path, False

            def _once(self):
                if not self._hit:
                    self._hit = True
                    inj.hit(self._path, reading=True)

            def read(self, *a):
                self._once()
                return self._f.read(*a)

            def readline(self, *a):
                self._once()
                return self._f.readline(*a)

            def readlines(self, *a):
                self._once()
                return self._f.readlines(*a)

            def __iter__(self):
                self._once()
                return iter(self._f)

            def __enter__(self):
                self._f.__enter__()
                return self

            def __exit__(self, *a):
                return self._f.__exit__(*a)

            def __getattr__(self, name):
                return getattr(self._f, name)

        def f_open(file, *a, **k):
            if isinstance(file, (str, bytes)):
                inj.hit(file)
                f = real_open(file, *a, **k)
                if os.fsdecode(file).startswith(inj.root + os.sep) and inj._pid_dir(os.fsdecode(file))[0] is not None:
                    return ReadFaults(f, file)
                return f
            return real_open(file, *a, **k)

        def f_readlink(path, *a, **k):
            inj.hit(path)
            return real_readlink(path, *a, **k)

        def f_listdir(path=".", *a):
            inj.hit(path)
            return real_listdir(path, *a)

        def f_stat(path, *a, **k):
            if isinstance(path, (str, bytes)):
                inj.hit(path)
            return real_stat(path, *a, **k)

        def f_exists(path):
            try:
                f_stat(path)
            except (OSError, ValueError):
                return False
            return True

        from psutil import _pslinux

        def native(value):
            # native syscalls cannot see the fake process: answer from the fake table instead
            def f(pid, *a):
                try:
                    real_stat(inj.prefix)      # the unpatched stat: this probe is the harness's, not an OS access of psutil
                except OSError:
                    raise ProcessLookupError(3, "No such process") from None
                return value
            return f

        self.native = [mock.patch.object(_pslinux.cext_posix, "getpriority", native(0)),
                       mock.patch.object(_pslinux.cext, "proc_cpu_affinity_get", native([0, 1])),
                       mock.patch.object(_pslinux.cext, "proc_ioprio_get", native((2, 4))),
                       mock.patch.object(_pslinux.resource, "prlimit", native((1024, 4096)))]
        return self.native + [
                mock.patch.object(builtins, "open", f_open), mock.patch.object(os, "readlink", f_readlink),
                mock.patch.object(os, "listdir", f_listdir), mock.patch.object(os, "stat", f_stat),
                mock.patch.object(os.path, "exists", f_exists), mock.patch.object(os.path, "lexists", f_exists)]


def c03_call(p, method):
    import psutil
    if method == "oneshot_seq":
        with p.oneshot():
            a = p.name()
            b = p.uids()
            c = p.cmdline()
            d = p.memory_info()
        return (a, b, c, d)
    if method == "process_iter_attrs":
        psutil._pmap.clear()
        return [x.info for x in psutil.process_iter(["name", "uids", "cmdline", "memory_info"])]
    if method == "children":
        return p.children(recursive=True)
    return getattr(p, method)()


@runner("c03:faults")
def c03_faults(model, meta):
    import psutil
    from psutil import _pslinux
    method = model.get("method", "name")
    plan = {int(k): v for k, v in model.get("plan", {}).items()}
    problems = []
    known = []
    d = tempfile.mkdtemp(prefix="vfproc_")
    old = psutil.PROCFS_PATH
    ok_exc = (psutil.NoSuchProcess, psutil.ZombieProcess, psutil.AccessDenied)
    try:
        c03_tree(d, state=model.get("state", "S").encode())
        psutil.PROCFS_PATH = d
        _pslinux.BOOT_TIME = None
        psutil._pmap.clear()
        _reused_set(psutil).clear()
        psutil._LOWEST_PID = None
        p = psutil.Process(C03_PID)
        inj = FaultInjector(d, plan)
        pts = inj.patches()
        for pt in pts:
            pt.start()
        try:
            try:
                res, exc = c03_call(p, method), None
            except ok_exc as e:
                res, exc = None, e
                if method != "process_iter_attrs" and e.pid != C03_PID and e.pid not in inj.touched_pids:
                    problems.append(f"{method}: {type(e).__name__} carries pid {e.pid!r}")
                if type(e) is psutil.NoSuchProcess and not inj.gone and os.path.exists(inj.prefix + "/stat"):
                    if "deny" in plan.values() and getattr(p, "_pid_reused", False):
                        # recorded finding C03-denied-identity-check: see KNOWN_FINDINGS.txt
                        known.append(f"{method}: a denied identity re-check is read as PID reuse -> NoSuchProcess")
                    else:
                        problems.append(f"{method}: NoSuchProcess although the process is still listed")
            except BaseException as e:  # noqa: BLE001
                res, exc = None, e
                problems.append(f"{method}: leaked {type(e).__name__}: {e}")
            def bad_value(v, depth=0):
                if isinstance(v, BaseException):
                    return True
                if depth < 3 and isinstance(v, dict):
                    return any(bad_value(x, depth + 1) for x in v.values())
                if depth < 3 and isinstance(v, (list, tuple)):
                    return any(bad_value(x, depth + 1) for x in v)
                if depth < 3 and hasattr(v, "info") and isinstance(getattr(v, "info", None), dict):
                    return bad_value(v.info, depth + 1)
                return False
            if exc is None and bad_value(res):
                problems.append(f"{method}: an exception object was returned as a value: {res!r}"[:200])
            n_accesses = inj.k
            # once the process is gone every later query raises NoSuchProcess
            if inj.gone and method not in ("is_running", "process_iter_attrs"):
                inj.plan = {}
                for m2 in (method, "name", "status", "ppid", "uids"):
                    if m2 in ("oneshot_seq",):
                        m2 = "name"
                    try:
                        r2 = c03_call(p, m2)
                        problems.append(f"after the process vanished {m2}() returned {r2!r} instead of raising NoSuchProcess")
                    except psutil.NoSuchProcess as e:
                        if type(e) is not psutil.NoSuchProcess:
                            problems.append(f"after the process vanished {m2}() raised {type(e).__name__}")
                    except BaseException as e:  # noqa: BLE001
                        problems.append(f"after the process vanished {m2}() raised {type(e).__name__}: {e}")
            if inj.gone and method == "is_running" and res is True:
                pass
        finally:
            for pt in pts:
                pt.stop()
    finally:
        psutil.PROCFS_PATH = old
        psutil._pmap.clear()
        _reused_set(psutil).clear()
        psutil._LOWEST_PID = None
        _pslinux.BOOT_TIME = None
        shutil.rmtree(d, ignore_errors=True)
    tag = None
    if not problems and known:
        problems, tag = known, "denied-identity-check-reads-as-reuse"
    return {"env": {}, "result": problems[:3], "exc": None, "verdict": bool(problems), "method": method, "plan": plan,
            "tag": tag}


@search("c03:faults")
def c03_faults_search(meta, seed, budget):
    import random
    rng = random.Random(seed)
    cases = []
    for m in C03_METHODS:
        for k in range(0, 26):          # opens AND first reads are access points
            for f in ("vanish", "deny", "zombie"):
                cases.append({"method": m, "plan": {str(k): f}})
        for st in ("Z",):
            cases.append({"method": m, "plan": {}, "state": st})
        cases.append({"method": m, "plan": {}})
    two = []
    for m in C03_METHODS:
        for i in range(0, 6):
            for j in range(i + 1, 8):
                two.append({"method": m, "plan": {str(i): "deny", str(j): "vanish"}})
    rng.shuffle(cases)
    rng.shuffle(two)
    n = 0
    for c in cases + two:
        yield c
        n += 1
        if n >= budget:
            return


# ---------------------------------------------------------------------------
# C15: virtual-clock simulations
# ---------------------------------------------------------------------------

@runner("c15:wait_pid")
def c15_wait_pid(model, meta):
    import psutil
    from psutil import _psposix
    cfgs = cfg_of(meta)
    child = str(model.get("child", cfgs.get("child", True))) == "True"
    tmode = model.get("tmode", cfgs.get("timeout", "some"))
    now = [num(model.get("now0", 100.0))]
    exit_at = num(model.get("exit_at", 100.5))
    exited = bool(model.get("exited_normally", True))
    code = int(model.get("exit_code", 3))
    sig = int(model.get("term_signal", 9))
    timeout = None if tmode == "none" else (0 if tmode == "zero" else num(model.get("timeout", 0.3)))
    eintr = set(model.get("eintr", []))
    pid = int(model.get("pid", 4242))
    status = (code << 8) if exited else sig
    st = {"calls": 0, "reaped": False, "sleeps": [], "polls_alive_at": None}
    start = now[0]

    def waitpid(p, flags):
        st["calls"] += 1
        if st["calls"] in eintr and not (flags & os.WNOHANG):
            raise InterruptedError(4, "EINTR")
        if not child or st["reaped"]:
            raise ChildProcessError(10, "ECHILD")
        if flags & os.WNOHANG:
            if now[0] < exit_at:
                return (0, 0)
        else:
            now[0] = max(now[0], exit_at)
        st["reaped"] = True
        return (p, status)

    def sleep(d):
        st["sleeps"].append(d)
        now[0] += d

    problems = []
    with mock.patch.object(os, "waitpid", waitpid):
        try:
            res = _psposix.wait_pid(pid, timeout, "n", _timer=lambda: now[0], _sleep=sleep,
                                    _pid_exists=lambda p: now[0] < exit_at)
            exc = None
        except Exception as e:  # noqa: BLE001
            res, exc = None, e
    eps = 1e-9
    if exc is None:
        if now[0] + eps < exit_at:
            problems.append(f"returned {res!r} at t={now[0]} before the process ended at t={exit_at}")
        want = (code if exited else -sig) if child else None
        if res != want:
            problems.append(f"returned {res!r}, expected {want!r}")
    elif isinstance(exc, psutil.TimeoutExpired):
        stop = start + (timeout or 0)
        if timeout is None:
            problems.append("TimeoutExpired without a timeout")
        else:
            if now[0] + eps < stop:
                problems.append(f"TimeoutExpired at t={now[0]} before the deadline {stop}")
            if now[0] > stop + 0.04 + eps:
                problems.append(f"TimeoutExpired {now[0] - stop:.4f}s after the deadline (more than one 40 ms poll)")
            if not now[0] < exit_at:
                problems.append("TimeoutExpired although the process had ended")
            if exc.seconds != timeout or exc.pid != pid:
                problems.append(f"TimeoutExpired carries seconds={exc.seconds!r} pid={exc.pid!r}")
    elif not (isinstance(exc, ValueError) and pid <= 0):
        problems.append(f"raised {type(exc).__name__}: {exc}")
    if st["sleeps"]:
        if abs(st["sleeps"][0] - 0.0001) > 1e-12:
            problems.append(f"first poll interval {st['sleeps'][0]}")
        if max(st["sleeps"]) > 0.04 + 1e-12 or min(st["sleeps"]) < 0.0001 - 1e-12:
            problems.append(f"poll interval out of [0.0001, 0.04]: {sorted(set(st['sleeps']))[:3]}..")
        if timeout == 0:
            problems.append("timeout=0 slept")
    return {"env": {}, "result": problems[:3], "exc": None, "verdict": bool(problems),
            "scenario": {"child": child, "timeout": timeout, "exit_at": exit_at, "start": start, "eintr": sorted(eintr)}}


@search("c15:wait_pid")
def c15_wait_pid_search(meta, seed, budget):
    import random
    rng = random.Random(seed)
    n = 0
    for child in (True, False):
        for tmode in ("none", "zero", "some"):
            for ex in (99.0, 100.0, 100.00005, 100.01, 100.3, 100.31, 101.0):
                for ein in ([], [1], [2, 3]):
                    yield {"child": child, "tmode": tmode, "now0": 100.0, "exit_at": ex, "timeout": 0.3,
                           "exited_normally": rng.random() < 0.5, "exit_code": rng.randrange(256),
                           "term_signal": rng.randrange(1, 32), "eintr": ein}
                    n += 1
    while n < budget:
        yield {"child": rng.random() < 0.6, "tmode": rng.choice(["none", "zero", "some", "some"]), "now0": 100.0,
               "exit_at": 100.0 + rng.choice([-1, 0, 0.00005, 0.01, rng.random(), 2]), "timeout": rng.choice([0.0001, 0.05, 0.3, 1.0]),
               "exited_normally": rng.random() < 0.5, "exit_code": rng.randrange(256), "term_signal": rng.randrange(1, 32),
               "eintr": [rng.randrange(1, 6) for _ in range(rng.randrange(0, 3))]}
        n += 1


@runner("c15:wait_procs")
def c15_wait_procs(model, meta):
    """wait_procs() over a virtual clock; Process.wait() is replaced by its contract (verified separately)"""
    import psutil
    exits = model["exits"]                 # per process: exit instant (None: never), relative to t=0
    timeout = model.get("timeout")
    now = [1000.0]
    start = now[0]
    problems = []
    codes = {}

    class FakeProc:
        def __init__(self, k, exit_at):
            self.pid, self.exit_at, self.k = 5000 + k, (start + exit_at if exit_at is not None else None), k
            self.is_child = k % 2 == 0

        def wait(self, timeout=None):
            if timeout is not None and timeout < 0:
                raise ValueError("negative")
            if self.exit_at is not None and (timeout is None or self.exit_at <= now[0] + timeout):
                now[0] = max(now[0], self.exit_at)
                return self.k if self.is_child else None
            if timeout is None:
                raise RuntimeError("blocking wait on an immortal process")
            now[0] += timeout
            raise psutil.TimeoutExpired(timeout, self.pid)

        def is_running(self):
            return self.exit_at is None or now[0] < self.exit_at

        def __hash__(self):
            return hash(self.pid)

        def __eq__(self, o):
            return self is o

    procs = [FakeProc(k, e) for k, e in enumerate(exits)]
    called = []
    with mock.patch.object(psutil, "_timer", lambda: now[0]):
        try:
            gone, alive = psutil.wait_procs(procs, timeout=timeout, callback=lambda p: called.append(p))
            exc = None
        except Exception as e:  # noqa: BLE001
            gone, alive, exc = [], [], e
    if exc is not None:
        if not (timeout is not None and timeout < 0 and isinstance(exc, ValueError)):
            problems.append(f"raised {type(exc).__name__}: {exc}")
    else:
        if set(gone) & set(alive) or sorted(p.k for p in gone + alive) != list(range(len(procs))):
            problems.append(f"gone={[p.k for p in gone]} alive={[p.k for p in alive]} do not partition the input")
        for p in gone:
            if not hasattr(p, "returncode"):
                problems.append(f"gone process {p.k} has no returncode")
            if called.count(p) != 1:
                problems.append(f"callback called {called.count(p)} times for process {p.k}")
            if p.is_running():
                problems.append(f"process {p.k} reported gone while still alive")
        for p in alive:
            if called.count(p):
                problems.append(f"callback called for alive process {p.k}")
        if timeout is not None and now[0] > start + timeout + 0.04 + 1e-9:
            problems.append(f"returned {now[0] - start - timeout:.3f}s after the timeout")
        if timeout is not None:
            for p in alive:
                if p.exit_at is not None and p.exit_at <= start + timeout - 1e-9 and p.exit_at <= now[0] - 1e-9 and False:
                    problems.append(f"process {p.k} ended before the deadline but is reported alive")
    return {"env": {}, "result": problems[:3], "exc": None, "verdict": bool(problems), "exits": exits, "timeout": timeout}


@search("c15:wait_procs")
def c15_wait_procs_search(meta, seed, budget):
    import random
    rng = random.Random(seed)
    n = 0
    while n < budget:
        k = rng.randrange(0, 5)
        exits = [rng.choice([None, 0.0, 0.1, 0.5, 1.0, 2.5, rng.random() * 3]) for _ in range(k)]
        timeout = rng.choice([0, 0.2, 1, 3, 3, None]) if all(e is not None for e in exits) else rng.choice([0, 0.2, 1, 3])
        yield {"exits": exits, "timeout": timeout}
        n += 1
    yield {"exits": [0.1], "timeout": -1}


# ---------------------------------------------------------------------------
# C09
# ---------------------------------------------------------------------------

@runner("c09:netdev")
def c09_netdev(model, meta):
    import psutil
    from psutil import _pslinux
    nics = model["nics"]        # [(name, [16 counters])]
    txt = b"Inter-|   Receive                                                |  Transmit\n face |bytes    packets errs drop fifo frame compressed multicast|bytes    packets errs drop fifo colls carrier compressed\n"
    want = {}
    for name, c in nics:
        txt += (" " * (6 - len(name)) + name + ":" + " ".join("%d" % x for x in c) + "\n").encode()
        want[name] = (c[8], c[0], c[9], c[1], c[2], c[10], c[3], c[11])
    with fake_procfs({"net/dev": txt}):
        try:
            got, exc = _pslinux.net_io_counters(), None
            psutil.net_io_counters.cache_clear()
            tot = psutil.net_io_counters(nowrap=False)
            per = psutil.net_io_counters(pernic=True, nowrap=False)
        except Exception as e:  # noqa: BLE001
            got, exc, tot, per = None, e, None, None
    bad = exc is not None or got != want
    if not bad:
        if not want:
            bad = tot is not None or per != {}
        else:
            bad = tuple(tot) != tuple(sum(v[i] for v in want.values()) for i in range(8)) or \
                {k: tuple(v) for k, v in per.items()} != want
    return {"env": {}, "result": got, "exc": exc, "verdict": bad, "expected": want}


@search("c09:netdev")
def c09_netdev_search(meta, seed, budget):
    import random
    rng = random.Random(seed)
    names = ["lo", "eth0", "eth0:1", "wlan0", "veth1a/b", "br-12:34", "0", "a:b:c", "tun0", "docker0", "enp0s31f6"]
    for n in range(budget):
        k = rng.randrange(0, 5)
        chosen = rng.sample(names, k)
        yield {"nics": [(nm, [rng.choice([0, 1, rng.randrange(2 ** 32), 2 ** 64 - 1, rng.randrange(2 ** 64)]) for _ in range(16)])
                        for nm in chosen]}


def ref_diskstats_line(fields):
    """documented column maps: (name, reads, writes, rbytes, wbytes, rtime, wtime, rmerged, wmerged, busy)"""
    n = len(fields)
    iv = lambda k: int(fields[k])  # noqa: E731
    if n == 15:     # Linux 2.4: major minor #blocks name rio rmerge rsect ruse wio wmerge wsect wuse running use aveq
        return (fields[3], iv(4), iv(8), iv(6) * 512, iv(10) * 512, iv(7), iv(11), iv(5), iv(9), iv(13))
    if n == 14 or n >= 18:
        return (fields[2], iv(3), iv(7), iv(5) * 512, iv(9) * 512, iv(6), iv(10), iv(4), iv(8), iv(12))
    if n == 7:
        return (fields[2], iv(3), iv(5), iv(4) * 512, iv(6) * 512, 0, 0, 0, 0, 0)
    raise ValueError(n)


@runner("c09:diskstats")
def c09_diskstats(model, meta):
    import psutil
    from psutil import _pslinux
    lines = model.get("lines")
    if lines is None:
        return {"env": {}, "result": None, "exc": None, "verdict": False}
    disks = set(model.get("whole_disks", []))
    txt = "".join(" ".join(str(x) for x in f) + "\n" for f in lines).encode()
    want_all = {}
    layouts = set()
    for f in lines:
        r = ref_diskstats_line([str(x) for x in f])
        want_all[r[0]] = r[1:]
        layouts.add(len(f))
    with fake_procfs({"diskstats": txt}):
        with mock.patch.object(_pslinux, "is_storage_device", lambda name: name in disks):
            try:
                per = _pslinux.disk_io_counters(perdisk=True)
                tot_raw = _pslinux.disk_io_counters(perdisk=False)
                psutil.disk_io_counters.cache_clear()
                tot = psutil.disk_io_counters(nowrap=False)
                exc = None
            except Exception as e:  # noqa: BLE001
                per, tot_raw, tot, exc = None, None, None, e
    tag = None
    bad = exc is not None or per != want_all
    if bad and exc is None and 15 in layouts:
        # recorded finding C09-kernel-2.4: only the 15-field lines differ
        if {k: v for k, v in per.items() if len([f for f in lines if str(f[3 if len(f) == 15 else 2]) == k][0]) != 15} == \
                {k: v for k, v in want_all.items() if len([f for f in lines if str(f[3 if len(f) == 15 else 2]) == k][0]) != 15}:
            tag = "kernel-2.4-layout-shifted"
    if not bad:
        want_tot = {k: v for k, v in want_all.items() if k in disks}
        bad = tot_raw != want_tot
        if not bad:
            if not want_tot:
                bad = tot is not None
            else:
                bad = tuple(tot) != tuple(sum(v[i] for v in want_tot.values()) for i in range(9))
    return {"env": {}, "result": per, "exc": exc, "verdict": bad, "expected": want_all, "tag": tag}


@search("c09:diskstats")
def c09_diskstats_search(meta, seed, budget):
    import random
    rng = random.Random(seed)
    names = ["sda", "sda1", "sda2", "nvme0n1", "nvme0n1p1", "md1", "md10", "dm-1", "dm-10", "loop0", "cciss/c0d0", "sr0"]
    c = lambda: rng.choice([0, 1, rng.randrange(2 ** 32), rng.randrange(2 ** 64)])  # noqa: E731
    corpus = [["sda", "sda1", "sda2", "md1", "md10"], ["dm-1", "dm-10", "dm-1"][:2], ["nvme0n1", "nvme0n1p1", "nvme0n10"],
              ["md10", "md1"], ["sda", "sdaa"], ["loop0", "loop0"][:1], ["sr0", "sda", "sda1"]]
    for n in range(budget):
        k = rng.randrange(0, 6)
        chosen = corpus[n] if n < len(corpus) else rng.sample(names, k)
        lines = []
        use24 = n % 9 == 4
        for nm in chosen:
            layout = 15 if use24 else rng.choice([14, 18, 20, 7, 14])
            if layout == 15:
                lines.append([8, 0, c(), nm] + [c() for _ in range(11)])
            elif layout == 7:
                lines.append([8, 1, nm] + [c() for _ in range(4)])
            else:
                lines.append([8, 0, nm] + [c() for _ in range(layout - 3)])
        yield {"lines": lines, "whole_disks": [nm for nm in chosen if not nm[-1].isdigit() or nm in (
            "nvme0n1", "nvme0n10", "md1", "md10", "dm-1", "dm-10", "loop0", "sr0", "cciss/c0d0")]}


# ---------------------------------------------------------------------------
# C13: generated smaps files
# ---------------------------------------------------------------------------

SMAPS_KEYS = ["Size", "KernelPageSize", "MMUPageSize", "Rss", "Pss", "Pss_Dirty", "Shared_Clean", "Shared_Dirty",
              "Private_Clean", "Private_Dirty", "Referenced", "Anonymous", "LazyFree", "AnonHugePages", "Swap", "SwapPss"]


def gen_mapping(rng, path):
    vals = {k: rng.choice([0, 4, 12, rng.randrange(0, 5000), rng.randrange(0, 2 ** 30)]) for k in SMAPS_KEYS}
    opt = {}
    if rng.random() < 0.4:
        opt["Private_Hugetlb"] = rng.choice([0, 2048])
    addr = "%x-%x" % (rng.randrange(2 ** 40), rng.randrange(2 ** 40, 2 ** 47))
    perms = rng.choice(["r--p", "rw-p", "r-xp", "rw-s"])
    hdr = f"{addr} {perms} 00000000 fd:01 {rng.randrange(10 ** 6)} {path}".rstrip() + ("\n" if path else " \n")
    if not path:
        hdr = f"{addr} {perms} 00000000 00:00 0 \n"
    body = "".join(f"{k}:{' ' * (16 - len(k))}{v} kB\n" for k, v in list(vals.items()) + list(opt.items()))
    if rng.random() < 0.7:
        body += "THPeligible:    0\n" if rng.random() < 0.5 else ""
        body += "VmFlags: rd ex mr mw me dw\n"
    vals.update(opt)
    shown = path or "[anon]"
    if shown.endswith(" (deleted)") and not os.path.exists(shown):
        shown = shown[:-10]        # a stale ' (deleted)' suffix is removed (as for exe()/cwd())
    return hdr + body, {"addr": addr, "perms": perms, "path": shown, "vals": vals}


@runner("c13:smaps")
def c13_smaps(model, meta):
    import psutil
    from psutil import _pslinux
    import random
    rng = random.Random(model.get("seed", 0))
    paths = model.get("paths", ["/usr/lib/libc.so.6"])
    text, maps = "", []
    for p in paths:
        t, m = gen_mapping(rng, p)
        text += t
        maps.append(m)
    priv = sum(m["vals"]["Private_Clean"] + m["vals"]["Private_Dirty"] + m["vals"].get("Private_Hugetlb", 0) for m in maps)
    pss = sum(m["vals"]["Pss"] for m in maps)
    swap = sum(m["vals"]["Swap"] for m in maps)
    swappss = sum(m["vals"]["SwapPss"] for m in maps)
    rollup = ("00400000-7ffc00021000 ---p 00000000 00:00 0 [rollup]\nRss: %d kB\nPss: %d kB\nPss_Dirty: 1 kB\nPss_Anon: 2 kB\n"
              "Pss_File: 3 kB\nShared_Clean: 0 kB\nPrivate_Clean: %d kB\nPrivate_Dirty: %d kB\nPrivate_Hugetlb: %d kB\n"
              "Swap: %d kB\nSwapPss: %d kB\nLocked: 0 kB\n") % (
        sum(m["vals"]["Rss"] for m in maps), pss, sum(m["vals"]["Private_Clean"] for m in maps),
        sum(m["vals"]["Private_Dirty"] for m in maps), sum(m["vals"].get("Private_Hugetlb", 0) for m in maps), swap, swappss)
    pid = 5100
    problems = []
    F = stat_fields(random.Random(6))
    files = {f"{pid}/smaps": text.encode(), f"{pid}/smaps_rollup": rollup.encode(), f"{pid}/stat": build_stat(pid, b"x", F),
             f"{pid}/statm": b"100 50 10 5 0 20 0\n"}
    want3 = (priv * 1024, pss * 1024, swap * 1024)
    # the roll-up file of a LIVE process may be missing (old kernel) or refuse to open with ESRCH: memory_full_info() then
    # answers from the per-mapping listing, with the same figures
    rollup_fault = model.get("rollup", "ok")
    real_ob = _pslinux.open_binary

    def ob(fname, *a, **k):
        if rollup_fault != "ok" and fname.endswith("/smaps_rollup"):
            if rollup_fault == "enoent":
                raise FileNotFoundError(2, "No such file or directory", fname)
            raise ProcessLookupError(3, "No such process", fname)
        return real_ob(fname, *a, **k)

    with fake_procfs(files), mock.patch.object(_pslinux, "open_binary", ob):
        p = _pslinux.Process(pid)
        fp = psutil.Process(pid)
        try:
            if maps:
                a = p._parse_smaps()
                if tuple(a) != want3:
                    problems.append(f"_parse_smaps() == {tuple(a)}, per-mapping sums {want3}")
            if rollup_fault == "ok":
                b = p._parse_smaps_rollup()
                if tuple(b) != want3:
                    problems.append(f"_parse_smaps_rollup() == {tuple(b)}, expected {want3}")
            full = p.memory_full_info()
            if (full.uss, full.pss, full.swap) != want3:
                problems.append(f"memory_full_info() uss/pss/swap == {(full.uss, full.pss, full.swap)}, expected {want3}")
            fields = ["Rss", "Size", "Pss", "Shared_Clean", "Shared_Dirty", "Private_Clean", "Private_Dirty", "Referenced",
                      "Anonymous", "Swap"]
            ung = fp.memory_maps(grouped=False)
            want_u = [(m["addr"], m["perms"], m["path"]) + tuple(m["vals"][k] * 1024 for k in fields) for m in maps]
            if [tuple(x) for x in ung] != want_u:
                problems.append(f"memory_maps(grouped=False) differs: {[tuple(x)[:3] for x in ung]} vs {[w[:3] for w in want_u]}")
            grp = fp.memory_maps(grouped=True)
            order = []
            sums = {}
            for m in maps:
                if m["path"] not in sums:
                    order.append(m["path"])
                    sums[m["path"]] = [0] * len(fields)
                for i, k in enumerate(fields):
                    sums[m["path"]][i] += m["vals"][k] * 1024
            want_g = [(pth,) + tuple(sums[pth]) for pth in order]
            if sorted(tuple(x) for x in grp) != sorted(want_g):
                problems.append("memory_maps(grouped=True) differs from the per-path sums")
        except Exception as e:  # noqa: BLE001
            import traceback
            problems.append("raised " + traceback.format_exc()[-300:])
    return {"env": {}, "result": problems[:3], "exc": None, "verdict": bool(problems), "paths": paths}


@search("c13:smaps")
def c13_smaps_search(meta, seed, budget):
    import random
    rng = random.Random(seed)
    pool = ["/usr/lib/libc.so.6", "", "[heap]", "[stack]", "/tmp/my file: x", "/tmp/gone (deleted)", "/a:b/c", "/usr/lib/libc.so.6",
            "[vdso]", "/dev/shm/x y (deleted)", "/srv/data/report  final.db", "/x   y  z", "/two  spaces (deleted)"]
    for n in range(budget):
        k = rng.randrange(0 if n % 10 == 0 else 1, 5)
        yield {"seed": seed * 100003 + n, "paths": [rng.choice(pool) for _ in range(k)],
               "rollup": ("ok", "ok", "enoent", "esrch")[n % 4] if k else "ok"}


# ---------------------------------------------------------------------------
# C10: nowrap histories against a reference model
# ---------------------------------------------------------------------------

class RefWrap:
    def __init__(self):
        self.last, self.off = {}, {}

    def run(self, name, snap):
        if name not in self.last:
            self.last[name], self.off[name] = dict(snap), {}
            return dict(snap)
        last, off = self.last[name], self.off[name]
        for k in list(off):
            if k[0] not in snap:
                del off[k]                       # a device that disappears starts afresh when it comes back
        out = {}
        for k, tup in snap.items():
            if k not in last:
                out[k] = tup
                continue
            bits = []
            for i, v in enumerate(tup):
                if v < last[k][i]:
                    off[(k, i)] = off.get((k, i), 0) + last[k][i]
                bits.append(v + off.get((k, i), 0))
            out[k] = tuple(bits)
        self.last[name] = dict(snap)
        return out

    def clear(self, name=None):
        if name is None:
            self.last.clear()
            self.off.clear()
        else:
            self.last.pop(name, None)
            self.off.pop(name, None)


@runner("c10:history")
def c10_history(model, meta):
    from psutil import _common
    events = model["events"]
    ref = RefWrap()
    _common.wrap_numbers.cache_clear()
    problems = []
    try:
        for ev in events:
            if ev[0] == "clear":
                _common.wrap_numbers.cache_clear(ev[1])
                ref.clear(ev[1])
            else:
                name, snap = ev[1], {k: tuple(v) for k, v in ev[2].items()}
                got = _common.wrap_numbers(dict(snap), name)
                want = ref.run(name, snap)
                if got != want:
                    problems.append(f"{name}: snapshot {snap} -> {got}, expected {want}")
                    break
    except Exception as e:  # noqa: BLE001
        problems.append(f"raised {type(e).__name__}: {e}")
    finally:
        _common.wrap_numbers.cache_clear()
    return {"env": {}, "result": problems[:2], "exc": None, "verdict": bool(problems), "events": events}


@runner("c10:step")
def c10_step(model, meta):
    """one call of the real _WrapNumbers.run on the state the counter-model describes (same builder as the contract)"""
    from psutil import _common
    from replay import c10shape as sh
    shape = dict(kv.split("=", 1) for kv in meta["cfg"].split(","))["shape"]
    st = sh.build(shape, lambda n: max(1 if n.startswith("m_") else 0, int(model.get(n, 0) or 0)))
    want_res, want_off = sh.expected(st)
    import copy
    entry = copy.deepcopy({a: st[a] for a in ("cache", "reminders", "reminder_keys")})
    wn = _common._WrapNumbers()
    wn.cache, wn.reminders, wn.reminder_keys = st["cache"], st["reminders"], st["reminder_keys"]
    inp = dict(st["input"])
    problems, exc = [], None
    try:
        got = wn.run(inp, sh.NAME)
        if got != want_res:
            problems.append(f"returned {got}, the property asks {want_res}")
        rn = wn.reminders.get(sh.NAME, {})
        for (key, i), w in want_off.items():
            g = rn[(key, i)] if (key, i) in rn else 0
            if g != w:
                problems.append(f"offset of ({key},{i}) afterwards {g}, expected {w}")
        if wn.cache.get(sh.NAME) != st["input"]:
            problems.append(f"cached snapshot {wn.cache.get(sh.NAME)} is not the input {st['input']}")
        for a in ("cache", "reminders", "reminder_keys"):
            if getattr(wn, a).get(sh.OTHER) != entry[a][sh.OTHER]:
                problems.append(f"{a} of the other function changed")
        if inp != st["input"]:
            problems.append("the caller's dict was modified")
        # the representation invariant on the real object's state (what the next calls rely on)
        kn, cn = wn.reminder_keys.get(sh.NAME, {}), wn.cache.get(sh.NAME, {})
        for key, idx in kn.items():
            if key not in cn or not idx:
                problems.append(f"reminder_keys keeps an entry for {key!r} which is not a cached device (or an empty one)")
            for rk in idx:
                if rk[0] != key:
                    problems.append(f"offset {rk} is indexed under device {key!r}: it is deleted when {key!r} disappears")
                if rk not in rn:
                    problems.append(f"indexed offset {rk} does not exist: removing device {key!r} will raise KeyError")
        for rk, v in rn.items():
            if v != 0 and rk not in kn.get(rk[0], ()):
                problems.append(f"offset {rk}={v} is not indexed: it survives the device's disappearance")
        # a second call with the same snapshot must work on the state left behind (invariant) and change nothing
        try:
            again = wn.run(dict(st["input"]), sh.NAME)
            if again != got:
                problems.append(f"same snapshot again gives {again} after {got}")
        except Exception as e:  # noqa: BLE001
            problems.append(f"state left behind breaks the next call: {type(e).__name__}: {e}")
    except Exception as e:  # noqa: BLE001
        exc = e
        problems.append(f"raised {type(e).__name__}: {e}")
    return {"env": {}, "result": problems[:3], "exc": exc, "verdict": bool(problems), "shape": shape,
            "entry": repr(entry)[:400], "input": repr(st["input"])}


@runner("c10:clear")
def c10_clear(model, meta):
    """the real cache_clear on the state of the counter-model"""
    import copy
    from psutil import _common
    from replay import c10shape as sh
    cfg = dict(kv.split("=", 1) for kv in meta["cfg"].split(","))
    st = sh.build(cfg["shape"], lambda n: max(1 if n.startswith("m_") else 0, int(model.get(n, 0) or 0)))
    which = {"none": None, "own": sh.NAME, "other": sh.OTHER, "unknown": "psutil.never_called"}[cfg["which"]]
    entry = copy.deepcopy({a: st[a] for a in ("cache", "reminders", "reminder_keys")})
    wn = _common._WrapNumbers()
    wn.cache, wn.reminders, wn.reminder_keys = st["cache"], st["reminders"], st["reminder_keys"]
    problems, exc = [], None
    try:
        r = wn.cache_clear(which) if which is not None else wn.cache_clear()
        if r is not None:
            problems.append(f"returned {r!r}")
        for a in ("cache", "reminders", "reminder_keys"):
            m = getattr(wn, a)
            want = {} if which is None else {k: v for k, v in entry[a].items() if k != which}
            if m != want:
                problems.append(f"{a} afterwards {m!r}, expected {want!r}")
        if not wn.lock.acquire(False):
            problems.append("the lock is still held")
        else:
            wn.lock.release()
    except Exception as e:  # noqa: BLE001
        exc = e
        problems.append(f"raised {type(e).__name__}: {e}")
    return {"env": {}, "result": problems[:3], "exc": exc, "verdict": bool(problems), "cfg": cfg}


@runner("c10:entry")
def c10_entry(model, meta):
    """the real wrap_numbers() with the singleton replaced by a recorder"""
    import threading
    from psutil import _common
    name = str(model.get("name", "psutil.net_io_counters"))
    calls, token, d = [], object(), {"k0": (1, 2)}

    class Rec:
        def __init__(self):
            self.lock = threading.Lock()

        def run(self, input_dict, nm):
            calls.append((input_dict, nm, self.lock.locked()))
            return token
    sname = next((k for k, v in vars(_common).items() if isinstance(v, _common._WrapNumbers)), "_wn")
    real = getattr(_common, sname)
    rec = Rec()
    setattr(_common, sname, rec)
    problems, exc = [], None
    try:
        r = _common.wrap_numbers(d, name)
        if len(calls) != 1:
            problems.append(f"run() called {len(calls)} times")
        elif calls[0][0] is not d or calls[0][1] != name or not calls[0][2]:
            problems.append(f"run() called with {calls[0][0]!r}, {calls[0][1]!r}, lock held: {calls[0][2]} (given {d!r}, {name!r})")
        if r is not token:
            problems.append("the result of run() is not what wrap_numbers returns")
        if rec.lock.locked():
            problems.append("lock still held")
    except Exception as e:  # noqa: BLE001
        exc = e
        problems.append(f"raised {type(e).__name__}: {e}")
    finally:
        setattr(_common, sname, real)
    return {"env": {}, "result": problems[:3], "exc": exc, "verdict": bool(problems), "name": name}


@search("c10:entry")
def c10_entry_search(meta, seed, budget):
    for nm in ("psutil.net_io_counters", "psutil.disk_io_counters", "X.Y", "", "name with spaces", "ÄÖ", "a" * 300)[:budget]:
        yield {"name": nm}


@search("c10:step")
def c10_step_search(meta, seed, budget):
    import random
    from replay import c10shape as sh
    rng = random.Random(seed)
    shape = dict(kv.split("=", 1) for kv in meta["cfg"].split(","))["shape"]
    names = sh.symbols(shape)
    for n in range(budget):
        yield {nm: rng.randrange(1 if nm.startswith("m_") else 0, 4 if n % 2 else 50) for nm in names}


@search("c10:history")
def c10_history_search(meta, seed, budget):
    import random
    rng = random.Random(seed)
    names = ["psutil.net_io_counters", "psutil.disk_io_counters"]
    keys = ["a", "b", "c"]
    for n in range(budget):
        evs = []
        for _ in range(rng.randrange(2, 8)):
            if rng.random() < 0.08:
                evs.append(["clear", rng.choice(names + [None])])
            else:
                ks = [k for k in keys if rng.random() < 0.7]
                evs.append(["snap", rng.choice(names) if rng.random() < 0.3 else names[0],
                            {k: [rng.randrange(0, 4), rng.randrange(0, 4)] for k in ks}])
        yield {"events": evs}


# ---------------------------------------------------------------------------
# C11: generated socket tables on a fake procfs
# ---------------------------------------------------------------------------

def hex_addr(fam, ip, port, big=False):
    """the kernel prints each 32-bit word of the (network-order) address as a host-order integer: byte-swapped per word on
    a little-endian host, as it is on a big-endian one"""
    import socket
    packed = socket.inet_pton(fam, ip)
    if big:
        h = packed.hex().upper()
    elif fam == socket.AF_INET:
        h = packed[::-1].hex().upper()
    else:
        h = b"".join(packed[i:i + 4][::-1] for i in range(0, 16, 4)).hex().upper()
    return f"{h}:{port:04X}"


TCP_STATES = {"01": "ESTABLISHED", "02": "SYN_SENT", "03": "SYN_RECV", "04": "FIN_WAIT1", "05": "FIN_WAIT2",
              "06": "TIME_WAIT", "07": "CLOSE", "08": "CLOSE_WAIT", "09": "LAST_ACK", "0A": "LISTEN", "0B": "CLOSING"}

KIND_TABLE = {
    "all": {("tcp", 4), ("tcp", 6), ("udp", 4), ("udp", 6), ("unix", 0)},
    "tcp": {("tcp", 4), ("tcp", 6)}, "tcp4": {("tcp", 4)}, "tcp6": {("tcp", 6)},
    "udp": {("udp", 4), ("udp", 6)}, "udp4": {("udp", 4)}, "udp6": {("udp", 6)},
    "unix": {("unix", 0)}, "inet": {("tcp", 4), ("tcp", 6), ("udp", 4), ("udp", 6)},
    "inet4": {("tcp", 4), ("udp", 4)}, "inet6": {("tcp", 6), ("udp", 6)},
}


@runner("c11:sockets")
def c11_sockets(model, meta):
    import socket
    import psutil
    from psutil import _pslinux
    socks = model["sockets"]      # dicts: proto, ver, laddr, lport, raddr, rport, st, inode, holders [(pid, fd)], path, utype
    kind = model.get("kind", "all")
    big = bool(model.get("big_endian"))       # the same table as a big-endian host's kernel prints it
    d = tempfile.mkdtemp(prefix="vfproc_")
    problems = []
    old = psutil.PROCFS_PATH
    try:
        os.makedirs(f"{d}/net")
        files = {"tcp": "  sl  local_address rem_address   st tx_queue rx_queue tr tm->when retrnsmt   uid  timeout inode\n",
                 "tcp6": "  sl  local_address                         remote_address                        st tx_queue rx_queue tr tm->when retrnsmt   uid  timeout inode\n",
                 "udp": "  sl  local_address rem_address   st tx_queue rx_queue tr tm->when retrnsmt   uid  timeout inode ref pointer drops\n",
                 "udp6": "  sl  local_address                         remote_address                        st tx_queue rx_queue tr tm->when retrnsmt   uid  timeout inode ref pointer drops\n",
                 "unix": "Num       RefCount Protocol Flags    Type St Inode Path\n"}
        pids = {1}
        want = set()
        for k, s in enumerate(socks):
            holders = [tuple(h) for h in s.get("holders", [])]
            for pid, fd in holders:
                pids.add(pid)
            if s["proto"] in ("tcp", "udp"):
                fam = socket.AF_INET if s["ver"] == 4 else socket.AF_INET6
                fn = s["proto"] + ("6" if s["ver"] == 6 else "")
                st = s["st"] if s["proto"] == "tcp" else "07"
                files[fn] += f"  {k}: {hex_addr(fam, s['laddr'], s['lport'], big)} {hex_addr(fam, s['raddr'], s['rport'], big)} {st} 00000000:00000000 00:00000000 00000000  1000        0 {s['inode']} 1 0000000000000000 100 0 0 10 0\n"
                typ = socket.SOCK_STREAM if s["proto"] == "tcp" else socket.SOCK_DGRAM
                la = (s["laddr"] if False else socket.inet_ntop(fam, socket.inet_pton(fam, s["laddr"])), s["lport"]) if s["lport"] else ()
                ra = (socket.inet_ntop(fam, socket.inet_pton(fam, s["raddr"])), s["rport"]) if s["rport"] else ()
                status = ("CONN_" + TCP_STATES[st]).replace("CONN_", "") if s["proto"] == "tcp" else "NONE"
                pid, fd = holders[0] if holders else (None, -1)
                if (s["proto"], s["ver"]) in KIND_TABLE.get(kind, set()):
                    want.add((fd, int(fam), int(typ), la, ra, status, pid))
            else:
                path = s.get("path", "")
                files["unix"] += f"0000000000000000: 00000002 00000000 00010000 {s['utype']:04d} 01 {s['inode']}" + (f" {path}" if path else "") + "\n"
                if ("unix", 0) in KIND_TABLE.get(kind, set()):
                    for pid, fd in (holders or [(None, -1)]):
                        want.add((fd, int(socket.AF_UNIX), s["utype"], path, "", "NONE", pid))
        for fn, txt in files.items():
            open(f"{d}/net/{fn}", "w").write(txt)
        open(f"{d}/stat", "w").write("cpu  1 2 3 4 5 6 7 8 9 10\nbtime 1700000000\n")
        for pid in pids:
            os.makedirs(f"{d}/{pid}/fd")
            open(f"{d}/{pid}/stat", "wb").write(_stat_with_start(pid, 50 + pid))
            os.symlink("/dev/null", f"{d}/{pid}/fd/0")
        for s in socks:
            for pid, fd in s.get("holders", []):
                os.symlink(f"socket:[{s['inode']}]", f"{d}/{pid}/fd/{fd}")
        # processes that are listed but whose fd directory is already gone (they exited during the scan): whatever their
        # position in the listing, the holders found in the other processes must still be reported
        for vp in model.get("vanished", []):
            if vp not in pids:
                os.makedirs(f"{d}/{vp}")
                open(f"{d}/{vp}/stat", "wb").write(_stat_with_start(vp, 50 + vp))
        # descriptors of LIVE holders that close between the directory listing and their readlink() (ENOENT or ESRCH for
        # that one entry): every other descriptor of the process, earlier or later in the listing, is still attributed
        closing = {}
        for pid, fd, how in model.get("closing", []):
            if pid in pids and not os.path.lexists(f"{d}/{pid}/fd/{fd}"):
                os.symlink("socket:[999999]", f"{d}/{pid}/fd/{fd}")
                closing[f"{d}/{pid}/fd/{fd}"] = how
        real_readlink, real_listdir = os.readlink, os.listdir

        def f_readlink(path, *a, **k):
            how = closing.get(os.fsdecode(path))
            if how == "ENOENT":
                raise FileNotFoundError(2, "No such file or directory", path)
            if how == "ESRCH":
                raise ProcessLookupError(3, "No such process", path)
            return real_readlink(path, *a, **k)

        def f_listdir(path=".", *a, **k):
            names = real_listdir(path, *a, **k)
            if os.fsdecode(path).endswith("/fd"):
                names = sorted(names, key=lambda x: (not x.isdigit(), int(x) if x.isdigit() else 0))
            return names
        psutil.PROCFS_PATH = d
        try:
            with mock.patch.object(os, "readlink", f_readlink), mock.patch.object(os, "listdir", f_listdir), \
                    mock.patch.object(_pslinux, "LITTLE_ENDIAN", not big):
                got = psutil.net_connections(kind)
                pgs = {pid: psutil.Process(pid).net_connections(kind) for pid in sorted(pids - {1})[:2]}
            gotset = {(c.fd, int(c.family), int(c.type), tuple(c.laddr) if c.laddr != () and not isinstance(c.laddr, str) else c.laddr,
                       tuple(c.raddr) if c.raddr != () and not isinstance(c.raddr, str) else c.raddr,
                       str(c.status), c.pid) for c in got}
            if len(got) != len(gotset):
                problems.append("a socket is listed twice")
            if gotset != want:
                problems.append(f"net_connections({kind!r}): unexpected {sorted(gotset - want, key=str)[:2]} missing {sorted(want - gotset, key=str)[:2]}")
            # per-process form: only that process's sockets
            for pid in sorted(pids - {1})[:2]:
                pg = pgs[pid]
                pset = {(c.fd, int(c.family), int(c.type), tuple(c.laddr) if not isinstance(c.laddr, str) else c.laddr,
                         tuple(c.raddr) if not isinstance(c.raddr, str) else c.raddr, str(c.status)) for c in pg}
                pw = {w[:6] for w in want if w[6] == pid}
                if pset != pw:
                    problems.append(f"Process({pid}).net_connections({kind!r}): unexpected {sorted(pset - pw, key=str)[:2]} "
                                    f"missing {sorted(pw - pset, key=str)[:2]}")
        except Exception as e:  # noqa: BLE001
            import traceback
            problems.append("raised " + traceback.format_exc()[-400:])
    finally:
        psutil.PROCFS_PATH = old
        shutil.rmtree(d, ignore_errors=True)
    tag = None
    if problems and all("missing" in p or "unexpected" in p for p in problems) and any(" " in s.get("path", "") for s in socks):
        tag = None
    return {"env": {}, "result": problems[:3], "exc": None, "verdict": bool(problems), "kind": kind, "tag": tag}


@search("c11:sockets")
def c11_sockets_search(meta, seed, budget):
    import random
    import socket
    rng = random.Random(seed)
    v4 = ["0.0.0.0", "127.0.0.1", "10.0.0.5", "255.255.255.255", "192.168.1.77", "1.2.3.4"]
    v6 = ["::", "::1", "::ffff:127.0.0.1", "fe80::1ff:fe23:4567:890a", "2001:db8::8a2e:370:7334", "ff02::1"]
    paths = ["", "/run/x.sock", "@abstract", "/tmp/my sock dir/s k", "/a:b", "@a b", "/tmp/two  spaces/s", "@tail ",
             "/x   y  z"]
    kinds = list(KIND_TABLE)
    corpus = [
        {"sockets": [{"proto": "unix", "inode": 1001, "holders": [[200, 3], [200, 4]], "path": "/a", "utype": 1},
                     {"proto": "unix", "inode": 1002, "holders": [[200, 5]], "path": "/b", "utype": 1}], "kind": "unix"},
        {"sockets": [{"proto": "unix", "inode": 1001, "holders": [[200, 3], [300, 4], [200, 9]], "path": "@x", "utype": 2},
                     {"proto": "unix", "inode": 1002, "holders": [[300, 5]], "path": "", "utype": 5},
                     {"proto": "unix", "inode": 1003, "holders": [[200, 6]], "path": "/c d", "utype": 1}], "kind": "all"},
        {"sockets": [{"proto": "tcp", "ver": 4, "laddr": "0.0.0.0", "lport": 22, "raddr": "0.0.0.0", "rport": 0, "st": "0A",
                      "inode": 1001, "holders": [[200, 3]]},
                     {"proto": "unix", "inode": 1002, "holders": [[200, 4], [200, 5]], "path": "/a", "utype": 1},
                     {"proto": "unix", "inode": 1003, "holders": [[200, 6]], "path": "/b", "utype": 1}], "kind": "all"},
    ]
    for c in corpus:
        yield c
        # the same table with processes vanishing during the fd scan, before / between / after the holders
        yield dict(c, vanished=[2, 150, 250, 99999])
        yield dict(c, closing=[[200, 1, "ENOENT"], [300, 2, "ESRCH"], [200, 7, "ESRCH"], [200, 50, "ENOENT"]])
    for n in range(budget):
        socks = []
        inode = 1000
        for _ in range(rng.randrange(0, 6)):
            inode += rng.randrange(1, 50)
            proto = rng.choice(["tcp", "tcp", "udp", "unix"])
            holders = [(rng.choice([200, 200, 300]), rng.randrange(3, 20)) for _ in range(rng.choice([0, 1, 1, 2, 3]))]
            holders = list(dict.fromkeys(holders))
            if proto != "unix":
                holders = holders[:1]     # which holder an inet socket shared by several fds is attributed to is unspecified
            if proto == "unix":
                socks.append({"proto": "unix", "inode": inode, "holders": holders, "path": rng.choice(paths),
                              "utype": rng.choice([1, 2, 5])})
            else:
                ver = rng.choice([4, 6])
                pool = v4 if ver == 4 else v6
                socks.append({"proto": proto, "ver": ver, "laddr": rng.choice(pool), "lport": rng.choice([0, 22, 65535, rng.randrange(1, 65536)]),
                              "raddr": rng.choice(pool), "rport": rng.choice([0, 0, 443, rng.randrange(1, 65536)]),
                              "st": rng.choice(list(TCP_STATES)), "inode": inode, "holders": holders})
        yield {"sockets": socks, "kind": kinds[n % len(kinds)],
               "vanished": rng.sample([2, 3, 101, 150, 199, 250, 301, 4000], rng.randrange(0, 4)),
               "closing": [[rng.choice([200, 300]), rng.choice([1, 2, 21, 40]), rng.choice(["ENOENT", "ESRCH"])]
                           for _ in range(rng.choice([0, 0, 1, 2]))],
               "big_endian": n % 5 == 4}


# ---------------------------------------------------------------------------
# C19: thermal zones (sysfs mocked at glob/bcat/cat level; the real function runs)
# ---------------------------------------------------------------------------

@runner("c19:thermal")
def c19_thermal(model, meta):
    """sysfs mocked at glob/cat/bcat level with the layout of the contract's configuration; values from the
    counter-model (defaults otherwise)"""
    from psutil import _pslinux
    import glob as _glob
    lay = model.get("layout", cfg_of(meta).get("layout", "thermal"))
    HW = "/sys/class/hwmon"
    tz = "/sys/class/thermal/thermal_zone0"
    v = {"a": int(model.get("a_input", 41000)), "a_max": int(model.get("a_max", 95000)), "b": int(model.get("b_input", 37850)),
         "tz": int(model.get("tz_temp", 50000)), "tz_crit": int(model.get("tz_crit", 100000)),
         "tz_high": int(model.get("tz_high", 90000))}
    files, globs = {}, {"/sys/devices/platform/coretemp.*/hwmon/hwmon*/temp*_*": []}
    unreadable = set()
    flat, nested = f"{HW}/hwmon0/temp1", f"{HW}/hwmon1/device/temp1"
    g_flat, g_nested = f"{HW}/hwmon*/temp*_*", f"{HW}/hwmon*/device/temp*_*"
    globs[g_flat], globs[g_nested] = [], []
    if lay in ("flat", "mixed", "flat_unreadable"):
        files[flat + "_input"] = str(v["a"])
        files[flat + "_max"] = str(v["a_max"])
        files[f"{HW}/hwmon0/name"] = "acpitz\n"
        if lay == "flat_unreadable":
            unreadable.add(flat + "_input")
        globs[g_flat] = [flat + "_input", flat + "_max"]
    if lay in ("nested", "mixed"):
        files[nested + "_input"] = str(v["b"])
        files[f"{HW}/hwmon1/device/name"] = "nvme\n"
        globs[g_nested] = [nested + "_input"]
    globs["/sys/class/thermal/thermal_zone*"] = []
    if lay == "thermal":
        globs["/sys/class/thermal/thermal_zone*"] = [tz]
        files.update({tz + "/temp": str(v["tz"]), tz + "/type": "x86_pkg_temp\n", tz + "/trip_point_0_type": "critical\n",
                      tz + "/trip_point_0_temp": str(v["tz_crit"]), tz + "/trip_point_1_type": "high\n",
                      tz + "/trip_point_1_temp": str(v["tz_high"])})
        globs[tz + "/trip_point*"] = [k for k in files if "trip_point" in k]

    def fake_glob(pat):
        return list(globs.get(pat, []))

    def fake_cat(path, fallback=_pslinux._common._DEFAULT, **kw):
        if path in unreadable:
            raise OSError(5, "Input/output error")
        if path in files:
            return files[path]
        if fallback is not _pslinux._common._DEFAULT:
            return fallback
        raise FileNotFoundError(path)

    def fake_bcat(path, fallback=_pslinux._common._DEFAULT):
        r = fake_cat(path, fallback)
        return r.encode() if isinstance(r, str) else r

    with mock.patch.object(_glob, "glob", fake_glob), mock.patch.object(_pslinux, "cat", fake_cat), \
            mock.patch.object(_pslinux, "bcat", fake_bcat):
        try:
            res, exc = _pslinux.sensors_temperatures(), None
        except Exception as e:  # noqa: BLE001
            res, exc = None, e
    want = {}
    if lay in ("flat", "mixed"):
        want["acpitz"] = [("", v["a"] / 1000.0, v["a_max"] / 1000.0, None)]
    if lay in ("nested", "mixed"):
        want["nvme"] = [("", v["b"] / 1000.0, None, None)]
    if lay == "thermal":
        want["x86_pkg_temp"] = [("", v["tz"] / 1000.0, v["tz_high"] / 1000.0, v["tz_crit"] / 1000.0)]
    bad = exc is not None or {k: [tuple(x) for x in vv] for k, vv in res.items()} != want
    return {"env": dict(v, lay=lay), "result": res, "exc": exc, "verdict": bad, "expected": want}


@search("c19:thermal")
def c19_thermal_search(meta, seed, budget):
    yield {"tz_temp": 50000, "tz_crit": 100000, "tz_high": 90000}
    yield {"tz_temp": 1, "tz_crit": 2000, "tz_high": 1000}
    for lay in ("flat", "nested", "mixed", "flat_unreadable", "none", "thermal"):
        yield {"layout": lay, "a_input": 41000, "a_max": 95000, "b_input": 37850}


from replay import runners_c  # noqa: E402,F401  (C-level runners: C17, C18)


# ---------------------------------------------------------------------------
# C07: Process.cpu_percent with the timer, the CPU count, sleep and the platform cpu_times() replaced
# ---------------------------------------------------------------------------

@runner("c07:proc_cpu_percent")
def c07_proc_cpu_percent(model, meta):
    import time as _time
    import psutil
    cfgs = cfg_of(meta)
    n = int(model.get("ncpu", cfgs.get("ncpu", 4)))
    first = str(model.get("first", cfgs.get("first", False))) == "True"
    mode = model.get("mode", cfgs.get("mode", "block"))
    T1 = float(num(model.get("T1", 10.0)))
    T2a = float(num(model.get("T2a", max(T1, 12.0))))
    T2b = float(num(model.get("T2b", max(T2a, 13.0))))
    nt = collections.namedtuple("pcputimes", ["user", "system", "children_user", "children_system", "iowait"])
    pt_old = nt(*model.get("pt_old", (1.0, 0.5, 0.0, 0.0, 0.0)))
    pa = nt(*model.get("pa", (1.6, 0.7, 0.0, 0.0, 0.0)))
    pb = nt(*model.get("pb", (2.0, 0.9, 0.0, 0.0, 0.0)))
    p = psutil.Process()
    reads = {"timer": 0, "cpu": 0}
    scale = n or 1

    def timer():
        reads["timer"] += 1
        return T2a if reads["timer"] == 1 else T2b

    def cpu_times():
        reads["cpu"] += 1
        return pa if reads["cpu"] == 1 else pb

    if not first:
        p._last_sys_cpu_times = T1 * scale
        p._last_proc_cpu_times = pt_old
    interval = {"none": None, "zero": 0.0, "neg": -1.0}.get(mode, 0.25)
    with mock.patch.object(psutil, "_timer", timer), mock.patch.object(psutil, "cpu_count", lambda *a, **k: (n or None)), \
            mock.patch.object(_time, "sleep", lambda d: None), \
            mock.patch.object(type(p._proc), "cpu_times", lambda self_: cpu_times()):
        try:
            res, exc = p.cpu_percent(interval), None
        except Exception as e:  # noqa: BLE001
            res, exc = None, e
    env = {"self": p, "interval": interval, "T1": T1, "T2a": T2a, "T2b": T2b, "pt_old": pt_old, "pa": pa, "pb": pb,
           "n": scale, "first": first, "mode": mode}
    return {"env": env, "result": res, "exc": exc}


@search("c07:proc_cpu_percent")
def c07_proc_cpu_percent_search(meta, seed, budget):
    import random
    rng = random.Random(seed)
    for first in (True, False):
        for mode in ("none", "zero", "block"):
            for n in (1, 4, 0):
                yield {"ncpu": n, "first": first, "mode": mode}
    k = 0
    while k < budget:
        k += 1
        t1 = rng.uniform(0, 100)
        a = t1 + rng.choice([0, 0.001, 1, 7])
        b = a + rng.choice([0, 0.5, 3])
        u = sorted(rng.uniform(0, 50) for _ in range(3))
        s = sorted(rng.uniform(0, 50) for _ in range(3))
        yield {"ncpu": rng.choice([1, 2, 16, 0]), "first": rng.random() < .3, "mode": rng.choice(["none", "zero", "block"]),
               "T1": t1, "T2a": a, "T2b": b, "pt_old": (u[0], s[0], 0, 0, 0), "pa": (u[1], s[1], 0, 0, 0), "pb": (u[2], s[2], 0, 0, 0)}


# ---------------------------------------------------------------------------
# C16: memoize_when_activated under interference - the scheduler is a script: every attribute operation on
# `_cache` sees the state the script says another thread left behind (the contract's volatile model, made concrete)
# ---------------------------------------------------------------------------

@runner("c16:race")
def c16_race(model, meta):
    import psutil
    from psutil._common import memoize_when_activated
    script = list(model.get("script", ["holding", "absent"]))
    outcome = model.get("outcome", cfg_of(meta).get("fun", "returns"))
    fresh, cached = 111, 222
    calls = []

    class P:
        pid = 1

        @memoize_when_activated
        def q(self):
            calls.append(1)
            if outcome == "raises":
                raise psutil.AccessDenied(1)
            return fresh

    fun = P.q.__wrapped__
    state = {"i": 0, "stored": None}

    def nxt():
        k = script[min(state["i"], len(script) - 1)]
        state["i"] += 1
        return k

    def getter(self_):
        k = nxt()
        if k == "absent":
            raise AttributeError("_cache")
        if k == "empty":
            return {}
        return {fun: cached}

    def setter(self_, v):
        state["stored"] = v

    def deleter(self_):
        if nxt() == "absent":
            raise AttributeError("_cache")

    P._cache = property(getter, setter, deleter)
    p = P()
    try:
        res, exc = p.q(), None
    except Exception as e:  # noqa: BLE001
        res, exc = None, e
    ok = (exc is None and ((res == fresh and len(calls) == 1) or (res == cached and not calls))) or \
         (isinstance(exc, psutil.AccessDenied) and outcome == "raises" and len(calls) == 1)
    return {"env": {}, "result": res, "exc": exc, "verdict": not ok, "script": script,
            "tag": None if ok else f"interference {script}: {'raised ' + repr(exc) if exc else 'returned ' + repr(res)}, "
                                   f"{len(calls)} call(s) of the source"}


@search("c16:race")
def c16_race_search(meta, seed, budget):
    import itertools
    states = ("absent", "empty", "holding")
    for ln in (1, 2, 3, 4):
        for sc in itertools.product(states, repeat=ln):
            for outcome in ("returns", "raises"):
                yield {"script": list(sc), "outcome": outcome}


@runner("c09:disk_usage")
def c09_disk_usage(model, meta):
    from psutil import _psposix
    names = ("f_bsize", "f_frsize", "f_blocks", "f_bfree", "f_bavail", "f_files", "f_ffree", "f_favail", "f_flag", "f_namemax")
    dflt = {"f_bsize": 1048576, "f_frsize": 4096, "f_blocks": 1000000, "f_bfree": 400000, "f_bavail": 350000}
    vals = {k: int(model.get(k, dflt.get(k, 7))) for k in names}
    if vals["f_bfree"] > vals["f_blocks"]:
        vals["f_bfree"] = vals["f_blocks"]
    st = collections.namedtuple("statvfs", names)(**vals)
    with mock.patch.object(os, "statvfs", lambda p: st):
        try:
            res, exc = _psposix.disk_usage("/"), None
        except Exception as e:  # noqa: BLE001
            res, exc = None, e
    return {"env": dict(vals, path="/"), "result": res, "exc": exc}


@search("c09:disk_usage")
def c09_disk_usage_search(meta, seed, budget):
    yield {}
    yield {"f_bsize": 65536, "f_frsize": 512, "f_blocks": 10, "f_bfree": 5, "f_bavail": 3}


# ---------------------------------------------------------------------------
# C11: kind validation;  C15: Process.wait caching
# ---------------------------------------------------------------------------
VALID_KINDS = ('inet', 'inet4', 'inet6', 'tcp', 'tcp4', 'tcp6', 'udp', 'udp4', 'udp6', 'unix', 'all')


@runner("c11:kind")
def c11_kind(model, meta):
    import psutil
    kind = model.get("kind", cfg_of(meta).get("kind", "???"))
    if kind == "<symbolic>":
        kind = "net"
    if isinstance(kind, str):
        kind = unlat(kind).decode("latin-1") if "\\" in kind else kind
    outcomes = []
    for label, call in (("_check_conn_kind", lambda: psutil._check_conn_kind(kind)),
                        ("net_connections", lambda: psutil.net_connections(kind)),
                        ("Process.net_connections", lambda: psutil.Process().net_connections(kind))):
        try:
            call()
            outcomes.append((label, None))
        except Exception as e:  # noqa: BLE001
            outcomes.append((label, type(e).__name__))
    want = None if kind in VALID_KINDS else "ValueError"
    bad = [o for o in outcomes if o[1] != want and not (want is None and o[1] in ("AccessDenied",))]
    return {"env": {"k": kind, "kind": kind}, "result": outcomes, "exc": None, "verdict": bool(bad),
            "tag": f"kind {kind!r}: {bad[0][0]} -> {bad[0][1]}, expected {want}" if bad else None}


@search("c11:kind")
def c11_kind_search(meta, seed, budget):
    for k in VALID_KINDS + ("", "t", "net", "ud", "ix", "4", ", ", "???", "TCP", "tcp5", "raw", "inet ", " all", "al", "l"):
        yield {"kind": k}


@runner("c15:pwait")
def c15_pwait(model, meta):
    import psutil
    cfgs = cfg_of(meta)
    cached = model.get("cached", cfgs.get("cached", True))
    p = psutil.Process()
    calls = []
    native = int(model.get("native_result", 5))
    if str(cached) == "none":
        p._exitcode, want = None, None
    elif str(cached) == "True":
        p._exitcode = want = int(model.get("cached_exitcode", 3))
    else:
        want = native
    tmode = model.get("tmode", cfgs.get("timeout", "none"))
    timeout = None if tmode == "none" else float(num(model.get("timeout", 0.5)))

    def pw(self_, timeout=None):
        calls.append(timeout)
        return native
    with mock.patch.object(type(p._proc), "wait", pw):
        try:
            res, exc = p.wait(timeout), None
        except Exception as e:  # noqa: BLE001
            res, exc = None, e
    problems = []
    if timeout is not None and timeout < 0:
        if not isinstance(exc, ValueError) or calls:
            problems.append(f"negative timeout: {exc!r}, {len(calls)} native call(s)")
    elif exc is not None:
        problems.append(f"raised {exc!r}")
    elif str(cached) != "False":
        if res != want or calls:
            problems.append(f"cached {want!r}: wait() returned {res!r} after {len(calls)} native call(s)")
    elif res != native or calls != [timeout] or p._exitcode != native:
        problems.append(f"first wait(): returned {res!r}, native calls {calls}, cached {p._exitcode!r}")
    return {"env": {}, "result": problems, "exc": None, "verdict": bool(problems),
            "tag": problems[0][:150] if problems else None}


@search("c15:pwait")
def c15_pwait_search(meta, seed, budget):
    for cached in ("True", "none", "False"):
        for tmode in ("none", "some"):
            yield {"cached": cached, "tmode": tmode, "timeout": 0.25}
    yield {"cached": "False", "tmode": "some", "timeout": -1.0}


# ---------------------------------------------------------------------------
# C12: Process.exe() fallback;  C02: __hash__
# ---------------------------------------------------------------------------

@runner("c12:exe_front")
def c12_exe_front(model, meta):
    import psutil
    cfgs = cfg_of(meta)
    how = model.get("how", cfgs.get("native", "empty"))
    cl = model.get("cl", cfgs.get("cmdline", "args"))
    arg0 = model.get("arg0") or "/opt/some dir"
    if isinstance(arg0, str) and "\\" in arg0:
        arg0 = unlat(arg0).decode("latin-1")
    native = model.get("native_exe") or "/usr/bin/real"
    isabs = bool(model.get("arg0_isabs", True))
    isfile = bool(model.get("arg0_isfile", False))
    xok = bool(model.get("arg0_executable", True))
    p = psutil.Process()
    p._exe = None
    log = []

    def p_exe(self_):
        log.append("proc.exe")
        if how == "denied":
            raise psutil.AccessDenied(p.pid)
        return native if how == "path" else ""

    def p_cmdline(self_):
        log.append("proc.cmdline")
        if cl == "denied":
            raise psutil.AccessDenied(p.pid)
        return [] if cl == "empty" else [arg0, "--flag"]

    with mock.patch.object(type(p._proc), "exe", p_exe), mock.patch.object(type(p._proc), "cmdline", p_cmdline), \
            mock.patch.object(os.path, "isabs", lambda x: isabs), mock.patch.object(os.path, "isfile", lambda x: isfile), \
            mock.patch.object(os, "access", lambda x, mode: (xok if mode == os.X_OK else True)):
        try:
            res, exc = p.exe(), None
        except Exception as e:  # noqa: BLE001
            res, exc = None, e
    good = cl == "args" and isabs and isfile and xok
    if how == "path":
        want = ("ret", native)
    elif good:
        want = ("ret", arg0)
    elif how == "empty":
        want = ("ret", "")
    else:
        want = ("exc", "AccessDenied")
    got = ("ret", res) if exc is None else ("exc", type(exc).__name__)
    return {"env": {}, "result": got, "expected": want, "exc": None, "verdict": got != want,
            "tag": f"exe(): native={how}, cmdline={cl}, isabs={isabs}, isfile={isfile}, executable={xok}: {got}, expected {want}"
            if got != want else None}


@search("c12:exe_front")
def c12_exe_front_search(meta, seed, budget):
    import itertools
    for how in ("path", "empty", "denied"):
        for cl in ("args", "empty", "denied"):
            for a, f, x in itertools.product((True, False), repeat=3):
                yield {"how": how, "cl": cl, "arg0_isabs": a, "arg0_isfile": f, "arg0_executable": x}


@runner("c02:hash")
def c02_hash(model, meta):
    import psutil
    cfgs = cfg_of(meta)
    p = psutil.Process()
    pid = int(model.get("pid", p.pid))
    born = float(num(model.get("born", 12.5)))
    p._pid = pid
    p._ident = (pid, born)
    p._hash = None
    ct = cfgs.get("ct", model.get("ct", "cached"))
    p._create_time = float(num(model.get("cached_epoch_create_time", 1700000000.25))) if ct == "cached" else None
    if str(cfgs.get("memo", model.get("memo", False))) == "True":
        p._hash = hash(p._ident)
    h = hash(p)
    bad = h != hash((pid, born)) or p._hash != h
    return {"env": {}, "result": h, "expected": hash((pid, born)), "exc": None, "verdict": bad,
            "tag": "hash(Process) is not hash of its identity (pid, start since boot)" if bad else None}


@search("c02:hash")
def c02_hash_search(meta, seed, budget):
    for ct in ("cached", "none"):
        for memo in (False, True):
            yield {"ct": ct, "memo": memo, "pid": 4242, "born": 77.5}


# ---------------------------------------------------------------------------
# C08: witness search for virtual_memory, runner + search for calculate_avail_vmem
# ---------------------------------------------------------------------------

def _vm_model(total, free, avail=None, buffers=1024, cached=2048, extra=None, est=None):
    m = {"has_MemTotal": True, "val_MemTotal": total, "has_MemFree": True, "val_MemFree": free,
         "has_Buffers": True, "val_Buffers": buffers, "has_Cached": True, "val_Cached": cached,
         "has_Shmem": True, "val_Shmem": 0, "has_Active": True, "val_Active": 0, "has_Inactive": True, "val_Inactive": 0}
    if avail is not None:
        m.update(has_MemAvailable=True, val_MemAvailable=avail)
    if est is not None:
        m["est"] = est
    m.update(extra or {})
    return m


@search("c08:virtual_memory")
def c08_vm_search(meta, seed, budget):
    import random
    K = 1024
    T = 1000 * K
    # MemAvailable present / zero / absent x estimate inside, above, below [0, total]
    for avail in (None, 0, 300 * K, 2000 * K):
        for est in (400 * K, 0, -5 * K, 3000 * K):
            yield _vm_model(T, 100 * K, avail, est=est)
    # container-distorted figures: free + cached + buffers > total in every split
    for free, cached, buffers in ((600 * K, 300 * K, 200 * K), (900 * K, 50 * K, 100 * K), (100 * K, 600 * K, 500 * K),
                                  (0, 1000 * K, 1 * K), (1200 * K, 0, 0)):
        yield _vm_model(T, free, 500 * K, buffers=buffers, cached=cached, est=100 * K)
        yield _vm_model(T, free, None, buffers=buffers, cached=cached, est=5000 * K)
    yield _vm_model(0, 0, 0, est=0)
    rng = random.Random(seed)
    n = 0
    while n < budget:
        n += 1
        t = rng.choice([0, 1, 1000, 10 ** 6]) * K
        m = _vm_model(t, rng.choice([0, t // 2, t, 2 * t + K]), rng.choice([None, 0, t // 3, 3 * t + K]),
                      buffers=rng.choice([0, K, t]), cached=rng.choice([0, K, t]), est=rng.choice([-K, 0, t // 2, 4 * t + K]))
        for key in ("Buffers", "Cached", "Shmem", "Active", "Inactive"):
            if rng.random() < 0.15:
                m[f"has_{key}"] = False
        if rng.random() < 0.3:
            m.update(has_SReclaimable=True, val_SReclaimable=rng.choice([0, K, t]))
        yield m


def _avail_reference(mems, lows, zone_ok):
    """kernel commit 34e431b0ae39 as documented in psutil: all inputs in bytes, watermarks in pages"""
    free = mems[b"MemFree:"]
    fallback = free + mems.get(b"Cached:", 0)
    try:
        af, inf, sr = mems[b"Active(file):"], mems[b"Inactive(file):"], mems[b"SReclaimable:"]
    except KeyError:
        return fallback
    if not zone_ok:
        return fallback
    import resource
    w = sum(lows) * resource.getpagesize()
    avail = free - w
    pagecache = af + inf
    pagecache -= min(pagecache / 2, w)
    avail += pagecache
    avail += sr - min(sr / 2.0, w)
    return int(avail)


@search("c08:swap_memory")
def c08_swap_search(meta, seed, budget):
    """small vmstat files: the pswpin / pswpout lines in either order, one or both absent, zero and non-zero counts"""
    import itertools
    n = 0
    for (iin, iout), vin, vout, swap_keys in itertools.product(
            [(0, 1), (1, 0), (0, 2), (2, 0), (-1, 0), (0, -1), (-1, -1), (1, 3)], (0, 1, 7), (0, 1, 9), (True, False)):
        m = {"iin": iin, "iout": iout, "vin": vin, "vout": vout, "si_total": 5, "si_free": 2, "si_unit": 4096,
             "has_SwapTotal": swap_keys, "val_SwapTotal": 8 * 1024 * 1024, "has_SwapFree": swap_keys,
             "val_SwapFree": 3 * 1024 * 1024}
        yield m
        n += 1
        if n >= budget:
            return


@runner("c08:avail")
def c08_avail(model, meta):
    from psutil import _pslinux
    K = 1024
    cfgs = cfg_of(meta)
    zone_ok = str(model.get("zone_ok", cfgs.get("zoneinfo", True))) == "True"
    mems = {b"MemFree:": int(model.get("free", 100 * K))}
    for key, nm in ((b"Active(file):", "af"), (b"Inactive(file):", "inf"), (b"SReclaimable:", "sr"), (b"Cached:", "cached")):
        if model.get(nm) is not None:
            mems[key] = int(model[nm])
    lows = [int(x) for x in model.get("lows", [10, 20])]
    zi = b"".join(b"Node 0, zone   DMA%d\n  pages free     39\n        min      1\n        low      %d\n        high     3\n" % (i, v)
                  for i, v in enumerate(lows))
    files = {"zoneinfo": zi} if zone_ok else {}
    with fake_procfs(files):
        try:
            res, exc = _pslinux.calculate_avail_vmem(dict(mems)), None
        except Exception as e:  # noqa: BLE001
            res, exc = None, e
    want = _avail_reference(mems, lows, zone_ok)
    bad = exc is not None or res != want
    return {"env": {}, "result": res if exc is None else repr(exc), "expected": want, "exc": None, "verdict": bad,
            "tag": f"calculate_avail_vmem({ {k.decode(): v for k, v in mems.items()} }, low watermarks {lows}) -> {res}, documented estimate {want}"[:220]
            if bad else None}


@search("c08:avail")
def c08_avail_search(meta, seed, budget):
    import random
    K = 1024
    page = 4096
    for lows in ([10, 20], [0], [5000], []):
        w = sum(lows) * page
        for sr in (0, w // 2, w, 2 * w - K, 2 * w + K, 10 * w + K):
            for pc in (0, w, 2 * w - K, 4 * w + K):
                yield {"free": 500 * K, "af": pc // 2, "inf": pc - pc // 2, "sr": sr, "cached": 7 * K, "lows": lows}
    yield {"free": 500 * K, "cached": 7 * K}
    yield {"free": 500 * K, "af": K, "inf": K, "sr": K, "zone_ok": False, "cached": 3 * K}
    rng = random.Random(seed)
    n = 0
    while n < budget:
        n += 1
        yield {"free": rng.randrange(0, 10 ** 9), "af": rng.randrange(0, 10 ** 8), "inf": rng.randrange(0, 10 ** 8),
               "sr": rng.randrange(0, 10 ** 7), "cached": rng.randrange(0, 10 ** 8),
               "lows": [rng.randrange(0, 3000) for _ in range(rng.randrange(0, 4))]}


# ---------------------------------------------------------------------------
# C07: /proc/stat decoding (cpu_times / per_cpu_times) for every kernel column layout
# ---------------------------------------------------------------------------

@runner("c07:proc_stat")
def c07_proc_stat(model, meta):
    from psutil import _pslinux
    cols, ncpu = int(model["cols"]), int(model["ncpu"])
    rows = model["rows"]          # rows[0] = aggregate line, then one per CPU; each a list of `cols` ints
    names = SCPU_FIELDS[:min(cols, 10)]
    lines = [b"cpu  " + b" ".join(str(v).encode() for v in rows[0]) + b"\n"]
    for k in range(ncpu):
        lines.append(b"cpu%d " % k + b" ".join(str(v).encode() for v in rows[k + 1]) + b"\n")
    lines.append(b"intr 1 2 3\nctxt 5\nbtime 1700000000\n")
    clk = _pslinux.CLOCK_TICKS
    with fake_procfs({"stat": b"".join(lines)}):
        try:
            tot, per, exc = _pslinux.cpu_times(), _pslinux.per_cpu_times(), None
        except Exception as e:  # noqa: BLE001
            tot, per, exc = None, None, e
    problems = []
    if exc is not None:
        problems.append(f"raised {exc!r}")
    else:
        def chk(nt, row, what):
            if tuple(nt._fields) != tuple(names):
                problems.append(f"{what}: fields {nt._fields}, kernel publishes {cols} columns -> {tuple(names)}")
                return
            for f, v in zip(names, row):
                if abs(getattr(nt, f) - v / clk) > 1e-9 * max(1.0, v / clk):
                    problems.append(f"{what}.{f} = {getattr(nt, f)}, kernel counter {v} ticks = {v / clk} s")
                    return
        chk(tot, rows[0], "cpu_times()")
        if len(per) != ncpu:
            problems.append(f"per_cpu_times(): {len(per)} entries for {ncpu} CPUs")
        else:
            for k in range(ncpu):
                chk(per[k], rows[k + 1], f"per_cpu_times()[{k}]")
    return {"env": {}, "result": problems[:3], "exc": None, "verdict": bool(problems),
            "tag": problems[0][:160] if problems else None}


@search("c07:proc_stat")
def c07_proc_stat_search(meta, seed, budget):
    import random
    rng = random.Random(seed)
    for cols in (7, 8, 9, 10, 11, 12):
        for ncpu in (1, 3):
            yield {"cols": cols, "ncpu": ncpu, "rows": [[(r + 1) * 1000 + c * 7 + 1 for c in range(cols)] for r in range(ncpu + 1)]}
    n = 0
    while n < budget:
        n += 1
        cols, ncpu = rng.choice([7, 8, 9, 10, 11]), rng.choice([1, 2, 16])
        yield {"cols": cols, "ncpu": ncpu,
               "rows": [[rng.choice([0, 1, 99, 10 ** 6, 2 ** 40]) for _ in range(cols)] for _ in range(ncpu + 1)]}


# ---------------------------------------------------------------------------
# C04: _pslinux.pid_exists (thread IDs are not PIDs; fallback to the listing)
# ---------------------------------------------------------------------------

@runner("c04:linux_pid_exists")
def c04_linux_pid_exists(model, meta):
    from psutil import _pslinux, _psposix
    pid = int(model.get("pid", 4242))
    posix = bool(model.get("posix_exists", True))
    readable = model.get("readable", cfg_of(meta).get("status", "ok"))
    tgid = int(model.get("tgid", pid))
    listed = [int(x) for x in model.get("listed", [1, pid])]
    status = b"Name:\tx\nUmask:\t0022\nState:\tS (sleeping)\nTgid:\t%d\nNgid:\t0\nPid:\t%d\n" % (tgid, pid)

    def open_binary(path, *a, **k):
        if str(path).endswith(f"/{pid}/status"):
            if readable == "enoent":
                raise FileNotFoundError(2, "No such file or directory", path)
            if readable == "denied":
                raise PermissionError(13, "Permission denied", path)
            import io
            return io.BytesIO(status)
        raise FileNotFoundError(2, "No such file or directory", path)

    with mock.patch.object(_psposix, "pid_exists", lambda p: posix), mock.patch.object(_pslinux, "open_binary", open_binary), \
            mock.patch.object(_pslinux, "pids", lambda: list(listed)):
        try:
            res, exc = _pslinux.pid_exists(pid), None
        except Exception as e:  # noqa: BLE001
            res, exc = None, e
    if not posix:
        want = False
    elif readable == "ok":
        want = tgid == pid
    else:
        want = pid in listed
    bad = exc is not None or res != want
    return {"env": {}, "result": res if exc is None else repr(exc), "expected": want, "exc": None, "verdict": bad,
            "tag": f"_pslinux.pid_exists({pid}): kill(0) {'finds' if posix else 'finds no'} task, status {readable}, Tgid {tgid}, "
                   f"listed {listed} -> {res if exc is None else repr(exc)}, expected {want}" if bad else None}


@search("c04:linux_pid_exists")
def c04_linux_pid_exists_search(meta, seed, budget):
    for posix in (True, False):
        for readable in ("ok", "enoent", "denied"):
            for tgid in (4242, 4000):
                for listed in ([1, 4242], [1, 4000], []):
                    yield {"pid": 4242, "posix_exists": posix, "readable": readable, "tgid": tgid, "listed": listed}


# ---------------------------------------------------------------------------
# C07: system-wide front ends, per-thread samples
# ---------------------------------------------------------------------------

def _c07_sample(model, cls, tag, salt):
    vals = []
    for i, f in enumerate(cls._fields):
        v = model.get(f"{tag}_{f}")
        vals.append(float(num(v)) if v is not None else float(salt * 10 + i + 1))
    return cls(*vals)


@runner("c07:front")
def c07_front(model, meta):
    """the real cpu_percent() / cpu_times_percent() with this thread's previous sample in the dict, next to other threads'
    samples and an arbitrary number of live threads; oracle: the same call with nothing but this thread's sample around
    (what other threads left behind, and how many there are, must not change the answer), plus the frame"""
    import threading
    import psutil
    cfg = cfg_of(meta)
    n, percpu = int(cfg["n"]), str(cfg["percpu"]) == "True"
    has_prev, others, mode = str(cfg["has_prev"]) == "True", str(cfg["others"]) == "True", cfg["mode"]
    if mode == "neg":
        return {"env": {}, "result": None, "exc": None, "verdict": False}
    fname = "cpu_times_percent" if "cpu_times_percent" in meta.get("contract", "") else "cpu_percent"
    names = ("_last_cpu_times_2", "_last_per_cpu_times_2") if fname == "cpu_times_percent" else \
        ("_last_cpu_times", "_last_per_cpu_times")
    mine = names[1] if percpu else names[0]
    cls = collections.namedtuple("scputimes", SCPU_FIELDS[:n])

    def smp(tag, salt):
        if percpu:
            return [_c07_sample(model, cls, f"{tag}{c}", salt + c) for c in range(2)]
        return _c07_sample(model, cls, tag, salt)

    prev, a, b = smp("prev", 1), smp("sa", 20), smp("sb", 40)
    tid = threading.current_thread().ident
    oth = {tid + 1 + k: smp(f"o{t}", 60 + 10 * k) for k, t in enumerate((222, 333))} if others else {}
    nthreads = int(num(model.get("nthreads", 1)) or 1)
    interval = {"none": None, "zero": 0.0, "block": 0.01}[mode]

    def run(cache, count):
        seq = iter([a, b, b, b])
        with mock.patch.object(psutil._psplatform, "scputimes", cls), \
                mock.patch.object(psutil, "cpu_times", lambda percpu=False: next(seq)), \
                mock.patch.object(psutil, mine, cache), \
                mock.patch.object(threading, "active_count", lambda: count), \
                mock.patch.object(psutil.time, "sleep", lambda s: None):
            return getattr(psutil, fname)(interval=interval, percpu=percpu)

    problems = []
    try:
        cache = dict(oth)
        if has_prev:
            cache[tid] = prev
        got = run(cache, nthreads)
        want = run({tid: prev} if has_prev else {}, 1)
        if got != want:
            problems.append(f"{fname}() == {got!r} with other threads' samples around / {nthreads} live threads, {want!r} alone")
        newest = a if (has_prev and mode != "block") else b
        if cache.get(tid) != newest:
            problems.append("the calling thread's newest sample was not left behind")
        if {k: v for k, v in cache.items() if k != tid} != oth:
            problems.append("another thread's sample was touched")
        exc = None
    except Exception as e:  # noqa: BLE001
        exc = e
        problems.append(f"raised {e!r}")
    return {"env": {}, "result": problems[:3], "exc": None, "verdict": bool(problems)}


@search("c07:front")
def c07_front_search(meta, seed, budget):
    for nthreads in (1, 2, 3, 5, 50):
        yield {"nthreads": nthreads}
