"""Witness builders: counter-model -> concrete scenario -> call of the real,
unmodified psutil code.  Nothing here signals or modifies a real process:
effectful primitives are always intercepted."""
import collections
import fractions
import os
import sys
from unittest import mock

RUNNERS = {}


def runner(rid):
    def deco(f):
        RUNNERS[rid] = f
        return f
    return deco


def num(v, default=0.0):
    if isinstance(v, fractions.Fraction):
        return float(v)
    if isinstance(v, (int, float)):
        return v
    return default


SCPU_FIELDS = ['user', 'nice', 'system', 'idle', 'iowait', 'irq', 'softirq', 'steal', 'guest', 'guest_nice']


def cfg_of(meta):
    out = {}
    if meta.get("cfg") and meta["cfg"] != "-":
        for kv in meta["cfg"].split(","):
            k, _, v = kv.partition("=")
            try:
                out[k] = int(v)
            except ValueError:
                out[k] = v
    return out


def scpu_pair(model, meta):
    n = cfg_of(meta)["n"]
    cls = collections.namedtuple("scputimes", SCPU_FIELDS[:n])
    t1 = cls(*[num(model.get(f"t1_{f}")) for f in cls._fields])
    t2 = cls(*[num(model.get(f"t2_{f}")) for f in cls._fields])
    return cls, t1, t2


@runner("c07:cpu_times_percent_calculate")
def c07_ctp(model, meta):
    import threading
    import psutil
    cls, t1, t2 = scpu_pair(model, meta)
    tid = threading.current_thread().ident
    with mock.patch.object(psutil._psplatform, "scputimes", cls), \
            mock.patch.object(psutil, "cpu_times", lambda percpu=False: t2):
        psutil._last_cpu_times_2[tid] = t1
        try:
            res = psutil.cpu_times_percent(interval=None)
            exc = None
        except Exception as e:  # noqa: BLE001
            res, exc = None, e
    return {"env": {"t1": t1, "t2": t2, "n": len(t1)}, "result": res, "exc": exc}


@runner("c07:cpu_percent_calculate")
def c07_cp(model, meta):
    import threading
    import psutil
    cls, t1, t2 = scpu_pair(model, meta)
    tid = threading.current_thread().ident
    with mock.patch.object(psutil._psplatform, "scputimes", cls), \
            mock.patch.object(psutil, "cpu_times", lambda percpu=False: t2):
        psutil._last_cpu_times[tid] = t1
        try:
            res = psutil.cpu_percent(interval=None)
            exc = None
        except Exception as e:  # noqa: BLE001
            res, exc = None, e
    return {"env": {"t1": t1, "t2": t2, "n": len(t1)}, "result": res, "exc": exc}


@runner("c07:deltas")
def c07_deltas(model, meta):
    import psutil
    cls, t1, t2 = scpu_pair(model, meta)
    with mock.patch.object(psutil._psplatform, "scputimes", cls):
        try:
            res, exc = psutil._cpu_times_deltas(t1, t2), None
        except Exception as e:  # noqa: BLE001
            res, exc = None, e
    return {"env": {"t1": t1, "t2": t2, "n": len(t1)}, "result": res, "exc": exc}


# ---------------------------------------------------------------------------
# fake procfs helpers
# ---------------------------------------------------------------------------

import contextlib
import shutil
import tempfile
import warnings


@contextlib.contextmanager
def fake_procfs(files):
    """temporary procfs tree {relative path: bytes}; psutil.PROCFS_PATH points at it"""
    import psutil
    d = tempfile.mkdtemp(prefix="vfproc_")
    try:
        for rel, content in files.items():
            p = os.path.join(d, rel)
            os.makedirs(os.path.dirname(p), exist_ok=True)
            with open(p, "wb") as f:
                f.write(content)
        if "stat" not in files:
            with open(os.path.join(d, "stat"), "wb") as f:
                f.write(b"cpu  1 2 3 4 5 6 7 8 9 10\ncpu0 1 2 3 4 5 6 7 8 9 10\nbtime 1700000000\n")
        old = psutil.PROCFS_PATH
        psutil.PROCFS_PATH = d
        try:
            yield d
        finally:
            psutil.PROCFS_PATH = old
    finally:
        shutil.rmtree(d, ignore_errors=True)


def meminfo_from_model(model, keys):
    M = {}
    lines = []
    for k in keys:
        nm = k.decode().rstrip(":").replace("(", "_").replace(")", "")
        if model.get(f"has_{nm}") is True:
            v = int(model.get(f"val_{nm}", 0) or 0)
            v = max(0, v) // 1024 * 1024
            M[k] = v
            lines.append(k + b"   " + str(v // 1024).encode() + b" kB\n")
    return M, b"".join(lines)


MEMKEYS = [b'MemTotal:', b'MemFree:', b'Buffers:', b'Cached:', b'SReclaimable:', b'Shmem:', b'MemShared:',
           b'Active:', b'Inactive:', b'Inact_dirty:', b'Inact_clean:', b'Inact_laundry:', b'Slab:',
           b'MemAvailable:', b'Active(file):', b'Inactive(file):', b'SwapTotal:', b'SwapFree:']


class _Ghost(dict):
    pass


@runner("c08:virtual_memory")
def c08_vm(model, meta):
    import psutil
    from psutil import _pslinux
    M, text = meminfo_from_model(model, MEMKEYS)
    log = []
    # modular replay: the callee calculate_avail_vmem is under its own contract; here it is
    # stubbed to return the estimate of the counter-model (any int is a possible estimate:
    # container-distorted figures give > total, large zone watermarks give < 0)
    est = int(model["est"]) if "est" in model else None
    with fake_procfs({"meminfo": text}):
        with warnings.catch_warnings(record=True) as ws:
            warnings.simplefilter("always")
            try:
                if est is not None:
                    with mock.patch.object(_pslinux, "calculate_avail_vmem", lambda mems: est):
                        res, exc = _pslinux.virtual_memory(), None
                else:
                    res, exc = _pslinux.virtual_memory(), None
            except Exception as e:  # noqa: BLE001
                res, exc = None, e
        log = [("warn", str(w.message)) for w in ws]
        if est is None:
            try:
                est = _pslinux.calculate_avail_vmem(dict(M))
            except Exception:  # noqa: BLE001
                est = 0
    return {"env": {"M": M, "log": log, "__ghost__": {"est": est}}, "result": res, "exc": exc,
            "meminfo": text.decode(), "stubbed_estimate": est}


@runner("c08:swap_memory")
def c08_swap(model, meta):
    from psutil import _pslinux
    M, text = meminfo_from_model(model, [b"SwapTotal:", b"SwapFree:"])
    cfg = cfg_of(meta)
    iin, iout = int(model.get("iin", -1)), int(model.get("iout", -1))
    vin, vout = int(model.get("vin", 0)), int(model.get("vout", 0))
    n = max(iin, iout) + 2
    lines = [b"nr_free_pages 1\n"] * n
    if iin >= 0:
        lines[iin] = b"pswpin %d\n" % vin
    if iout >= 0:
        lines[iout] = b"pswpout %d\n" % vout
    files = {"meminfo": text}
    vm_ok = str(cfg.get("vmstat")) == "True"
    if vm_ok:
        files["vmstat"] = b"".join(lines)
    st, sf, su = int(model.get("si_total", 0)), int(model.get("si_free", 0)), int(model.get("si_unit", 1))
    with fake_procfs(files):
        with mock.patch.object(_pslinux.cext, "linux_sysinfo", lambda: (0, 0, 0, 0, st, sf, su)):
            with warnings.catch_warnings(record=True) as ws:
                warnings.simplefilter("always")
                try:
                    res, exc = _pslinux.swap_memory(), None
                except Exception as e:  # noqa: BLE001
                    res, exc = None, e
    log = [("warn", str(w.message)) for w in ws]
    return {"env": {"M": M, "log": log, "iin": iin, "iout": iout, "vin": vin, "vout": vout, "vm_ok": vm_ok,
                    "si_total": st * su, "si_free": sf * su}, "result": res, "exc": exc}


@runner("c08:usage_percent")
def c08_usage(model, meta):
    from psutil import _common
    used, total = num(model.get("used")), num(model.get("total"))
    cfg = cfg_of(meta)
    r = None if str(cfg.get("round")) == "None" else int(cfg["round"])
    try:
        res, exc = _common.usage_percent(used, total, round_=r), None
    except Exception as e:  # noqa: BLE001
        res, exc = None, e
    return {"env": {"used": used, "total": total, "round_": r}, "result": res, "exc": exc}
