"""C18 - nice / ionice / cpu_affinity / rlimit: get reads the kernel, set changes exactly that."""
import errno as _errno

from .common import *  # noqa: F401,F403
from .common import Contract, Registry, LoopSpec, BASE_ENV, INIT, LINUX_PY, bounded_sweep
from .frontproc import make_process
from vc.interp import PS_EXC, ModuleSrc
from vc import cvc

REGISTRY = Registry()
TRUSTED = ["kernel contract of getpriority/setpriority/ioprio_get/ioprio_set/sched_setaffinity/prlimit: success => "
           "errno untouched and the value applied to exactly that pid; failure => -1 and errno > 0 (POSIX result "
           "protocol, vc/cvc.py sys_result)",
           "CPython C-API contracts in vc/cvc.py EXTERN (PyArg_ParseTuple stores a value of the unit's C type, "
           "Py_BuildValue reads one, PyErr_SetFromErrno reads errno)",
           "builtins set()/list()/sorted() (set(x) has exactly x's elements, list(s) enumerates each once)"]
ASSUMPTIONS = ["clang's macro-expanded AST of the working tree's C file is the code that runs (same macro set as "
               "setup.py on Linux: PSUTIL_POSIX, PSUTIL_LINUX, PSUTIL_SIZEOF_PID_T=4, Py_LIMITED_API)",
               "x86-64 Linux data model (int 32, long 64, pid_t int)"]
NOT_COVERED = ["'the kernel itself reports exactly that value and every other process is unchanged' is the system "
               "calls' contract: covered by the bounded live round trip on a child + bystander, not proved",
               "termination of the affinity scan and completeness of its result list (soundness of every item and the "
               "exit condition are proved)"]
ENV = dict(BASE_ENV)


# =================================================================================================================
# 1. C: errno protocol of getpriority/setpriority, ioprio pack/unpack  (cvc, bit-vectors)
# =================================================================================================================
Z = cvc.Z


def _oserr(g):
    return [r for r in g.get("raised", []) if r[0].startswith("PyErr_SetFromErrno")]


def _same(a, b):
    return a.t == b.t if a.bits == b.bits else Z.BoolVal(False)


def errno_protocol(name, value=False, argspec=None):
    def post(I, x):
        g = x.ghost
        if not g.get("parsed"):
            return [("argument error: NULL, no system call", x.null and name not in g)]
        k = g.get(name)
        if k is None:
            return [(f"{name}() is called once arguments parsed", False)]
        out = []
        if argspec:
            out += argspec(I, g)
        rs = _oserr(g)
        if rs:
            out.append(("OSError is raised only when the kernel reported an error", Z.Not(k["ok"])))
            out.append(("OSError carries the kernel's errno", rs[0][2].t == k["errno"]))
            out.append(("the error return is NULL", x.null))
        else:
            out.append(("no OSError only when the kernel call succeeded", k["ok"]))
            if not x.null and value:
                out.append(("the value returned is the kernel's (-1 included)", x.ret.obj.info["items"][0].t == k["ret"]))
            if not x.null and not value:
                out.append(("returns None", x.ret.obj.name == "None"))
        return out
    return post


def args_getprio(I, g):
    a = g["getpriority.args"]
    return [("getpriority(PRIO_PROCESS, pid)", Z.And(a[0].t == 0, a[1].t == g["args"][0].t))]


def args_setprio(I, g):
    a = g["setpriority.args"]
    return [("setpriority(PRIO_PROCESS, pid, value)", Z.And(a[0].t == 0, a[1].t == g["args"][0].t,
                                                           a[2].t == g["args"][1].t))]


def post_ioprio_get(I, x):
    g = x.ghost
    if not g.get("parsed"):
        return [("argument error: NULL, no system call", x.null and "syscall" not in g)]
    k = g["syscall"]
    a = g["syscall.args"][0]
    out = [("ioprio_get(IOPRIO_WHO_PROCESS, pid)", Z.And(a[1].t == 1, a[2].t == g["args"][0].t))]
    rs = _oserr(g)
    if rs:
        out.append(("OSError is raised only when the kernel reported an error", Z.Not(k["ok"])))
    else:
        out.append(("no OSError only when the kernel call succeeded", k["ok"]))
        if not x.null:
            it = x.ret.obj.info["items"]
            r32 = Z.Extract(31, 0, k["ret"])
            out.append(("ioclass = ioprio >> 13", it[0].t == Z.LShR(r32, 13)))
            out.append(("iodata = ioprio & 0x1fff", it[1].t == (r32 & 0x1fff)))
    return out


def post_ioprio_set(I, x):
    g = x.ghost
    if not g.get("parsed"):
        return [("argument error: NULL, no system call", x.null and "syscall" not in g)]
    if "syscall" not in g:
        # rejected before the system call: only values that cannot be packed
        c, d = g["args"][1].t, g["args"][2].t
        return [("rejected without a system call only if class/data do not fit 3+13 bits",
                 Z.Or(c < 0, c > 7, d < 0, d > 0x1fff)), ("rejection returns NULL", x.null)]
    k = g["syscall"]
    a = g["syscall.args"][0]
    c, d = g["args"][1].t, g["args"][2].t
    out = [("the system call is made only with a word the kernel reads back as (class, data): class in 0..7, data in "
            "0..0x1fff (16-bit ioprio; wider values are masked by the kernel)", Z.And(c >= 0, c <= 7, d >= 0, d <= 0x1fff)),
           ("ioprio_set(IOPRIO_WHO_PROCESS, pid, class<<13 | data)",
            Z.And(a[1].t == 1, a[2].t == g["args"][0].t, a[3].t == ((c << 13) | d))),
           # round trip: what ioprio_get would unpack from the packed word is (class, data)
           ("unpack(pack(class, data)) == (class, data)",
            Z.And(Z.LShR(a[3].t, 13) == c, (a[3].t & 0x1fff) == d))]
    rs = _oserr(g)
    if rs:
        out.append(("OSError is raised only when the kernel reported an error", Z.Not(k["ok"])))
    else:
        out.append(("no OSError only when the kernel call succeeded", k["ok"]))
    return out


C_CONTRACTS = [
    cvc.CContract("C18", "psutil/_psutil_posix.c", "psutil_posix_getpriority", enums={"PRIO_PROCESS": 0},
                  post=errno_protocol("getpriority", value=True, argspec=args_getprio), replay="c18:live",
                  note="errno zeroed before, tested after; -1 is a legal value"),
    cvc.CContract("C18", "psutil/_psutil_posix.c", "psutil_posix_setpriority", enums={"PRIO_PROCESS": 0},
                  post=errno_protocol("setpriority", argspec=args_setprio), replay="c18:live"),
    cvc.CContract("C18", "psutil/arch/linux/proc.c", "psutil_proc_ioprio_get", filt="ioprio",
                  enums={"IOPRIO_WHO_PROCESS": 1}, post=post_ioprio_get, replay="c18:live"),
    cvc.CContract("C18", "psutil/arch/linux/proc.c", "psutil_proc_ioprio_set", filt="ioprio",
                  enums={"IOPRIO_WHO_PROCESS": 1}, post=post_ioprio_set, replay="c18:ioprio_set"),
]


# --- psutil_proc_cpu_affinity_get: growing cpu set + popcount-driven scan ------------------------------------------

def aff_inv0(I):
    n = I.var("ncpus").get(I)
    return [("ncpus > 0 and a multiple of 64", Z.And(n.t > 0, Z.URem(n.t, cvc.bvc(64, 32)) == 0))]


def aff_roles(I):
    """the two loop variables by ROLE, not by name (robust to renaming): the countdown starts at P(0), the scan index at 0"""
    g = I.ghost["popcount"]
    if "roles" not in g:
        p0 = g["P"](cvc.bvc(0, 64))
        cnt = [c for c in I.loop_mods if isinstance(c.value, cvc.IV) and c.value.bits == 32 and Z.eq(Z.simplify(c.value.t), Z.simplify(p0))]
        idx = [c for c in I.loop_mods if isinstance(c.value, cvc.IV) and c.value.bits == 32 and Z.is_bv_value(Z.simplify(c.value.t))
               and Z.simplify(c.value.t).as_long() == 0 and c not in cnt]
        if len(cnt) != 1 or len(idx) != 1:
            raise cvc.Unsupported("affinity scan: cannot tell the countdown and the index variable apart")
        g["roles"] = (idx[0], cnt[0])
    return g["roles"]


def aff_inv1(I):
    g = I.ghost["popcount"]
    cpu_c, cnt_c = aff_roles(I)
    cpu, cnt = cpu_c.get(I), cnt_c.get(I)
    c64 = Z.SignExt(32, cpu.t)
    return [("0 <= cpu <= 8*setsize", Z.And(cpu.t >= 0, Z.ULE(c64, g["N"]))),
            ("count == number of set bits from cpu on", cnt.t == g["P"](c64)),
            ("the kernel's mask is not written", g["bits"].content is g["content"])]


def aff_lemmas(I):
    c64 = Z.SignExt(32, aff_roles(I)[0].get(I).t)
    return cvc.popcount_axioms(I, c64) + cvc.popcount_axioms(I, c64 - 1)


def aff_append(I, args):
    g = I.ghost["popcount"]
    v = args[1].obj.info["value"]
    return [("every CPU reported has its bit set in the kernel's mask, below 8*setsize",
             Z.And(cvc.cpu_bit(g["bits"], v.t), Z.ULT(v.t, g["N"])))]


def post_aff_get(I, x):
    g = x.ghost
    if x.null or "popcount" not in g:
        return []
    # the scan stopped because no set bit is left: P(cpu) == count == 0
    cpu, cnt = (c.get(I) for c in g["popcount"]["roles"])
    return [("the scan ends only when no set bit is left (count == P(cpu) == 0)",
             Z.And(cnt.t == 0, g["popcount"]["P"](Z.SignExt(32, cpu.t)) == 0)),
            ("the cpu set is released exactly once", all(not m.alive for m in g.get("heap", [])))]


AFF_GET = cvc.CContract(
    "C18", "psutil/arch/linux/proc.c", "psutil_proc_cpu_affinity_get", filt="affinity_get",
    loops={0: cvc.LoopCut(inv=aff_inv0, dead=["mask"]), 1: cvc.LoopCut(inv=aff_inv1, lemmas=aff_lemmas)},
    checks={"PyList_Append": aff_append}, post=post_aff_get, replay="c18:live",
    note="cpu set doubled without overflow until the kernel accepts it; every access inside the allocation of the "
         "current size; freed exactly once on every path; ghost popcount P: count == P(cpu) drives the scan, every "
         "reported CPU has its bit set")
C_CONTRACTS.append(AFF_GET)
CPROOFS = C_CONTRACTS


def table_rlimit_constants():
    """every integer constant the extension modules export is the C macro of the same name (RLIMIT_* and friends reach
    prlimit() through these values)"""
    import os
    import re
    repo = os.environ.get("VERIF_REPO", "/repo")
    out = []
    for f in ("psutil/_psutil_posix.c", "psutil/_psutil_linux.c"):
        txt = open(os.path.join(repo, f)).read()
        for m in re.finditer(r'PyModule_AddIntConstant\(\s*\w+\s*,\s*"(\w+)"\s*,\s*((?:\(\s*\w+\s*\)\s*)?\w+)\s*\)', txt):
            name, expr = m.group(1), re.sub(r"^\(\s*\w+\s*\)\s*", "", m.group(2).strip())      # a cast does not matter
            ok = expr == name or (name == "version" and expr == "PSUTIL_VERSION")
            out.append((f"{f}: constant '{name}' is registered with the macro of the same name", ok,
                        f"registered with {expr}"))
    return out


TABLES = [table_rlimit_constants]


# =================================================================================================================
# 2. _pslinux.Process: validation and pass-through
# =================================================================================================================

class NativeStub:
    def __init__(self, fns):
        self.fns = fns

    def vc_getattr(self, it, name):
        if name in self.fns:
            return self.fns[name]
        it.raise_(AttributeError, name)


class IOPriorityStub(EnvFunc):
    """enum.IntEnum stand-in: members are their integer values; IOPriority(x) is x"""
    M = {"IOPRIO_CLASS_NONE": 0, "IOPRIO_CLASS_RT": 1, "IOPRIO_CLASS_BE": 2, "IOPRIO_CLASS_IDLE": 3}

    def __init__(self):
        super().__init__("IOPriority", lambda it, x: x)

    def vc_getattr(self, it, name):
        return self.M[name]


def linux_proc(it):
    pid = it.fresh("pid", "Int")
    it.assume(smt.Cmp(">=", pid, I(0)))
    return Obj("Process", {"pid": pid, "_name": None, "_ppid": None, "_procfs_path": "/proc"},
               module=ModuleSrc.get(LINUX_PY)), pid


def native(it, names, fail=None):
    """native functions: log the call; optionally fail with an OSError/ValueError"""
    fns = {}
    for nm in names:
        def mk(nm=nm):
            def f(it2, *args):
                it2.ctx.log.append((nm,) + tuple(args))
                if fail == "EINVAL":
                    it2.raise_(OSError, errno=I(_errno.EINVAL))
                if fail == "EPERM":
                    it2.raise_(PermissionError, errno=I(_errno.EPERM))
                if fail == "ValueError":
                    it2.raise_(ValueError, "invalid CPU value")
                return it2.ctx.ghost.get("native_ret", None)
            return EnvFunc(nm, f)
        fns[nm] = mk()
    stub = NativeStub(fns)
    it.env_over["_pslinux.cext"] = stub
    it.env_over["_pslinux.cext_posix"] = stub
    return stub


def setup_ionice_set(it, cfg):
    o, pid = linux_proc(it)
    native(it, ["proc_ioprio_set"])
    it.env_over["_pslinux.IOPriority"] = IOPriorityStub()
    ioclass = it.fresh("ioclass", "Int")
    if cfg["value"] == "none":
        value, v = None, I(0)
    else:
        value = it.fresh("value", "Int")
        v = value
    return {"args": {"self": o, "ioclass": ioclass, "value": value}, "spec": {"v": v, "ioclass": ioclass, "pid": pid},
            "values": [ioclass] + ([value] if value is not None else [])}


REGISTRY.add(Contract(
    "C18", LINUX_PY, "Process.ionice_set", setup=setup_ionice_set, env=ENV,
    configs=[{"value": "none"}, {"value": "sym"}],
    ensures=["log == [('proc_ioprio_set', pid, ioclass, v)]",                 # exactly one native call, exact values
             "0 <= v and v <= 7", "implies(ioclass == 3 or ioclass == 0, v == 0)"],
    raises={"ValueError": ["len(log) == 0",                                     # invalid request changes nothing
                           "v < 0 or v > 7 or (v != 0 and (ioclass == 3 or ioclass == 0))"]},
    canaries=["len(log) == 0"], replay="c18:ionice_set",
    note="level outside 0-7 or a level for the idle/none class -> ValueError before any native call"))


def setup_ionice_get(it, cfg):
    o, pid = linux_proc(it)
    native(it, ["proc_ioprio_get"])
    it.env_over["_pslinux.IOPriority"] = IOPriorityStub()
    c, d = it.fresh("k_ioclass", "Int"), it.fresh("k_iodata", "Int")
    it.ctx.ghost["native_ret"] = (c, d)
    return {"args": {"self": o}, "spec": {"c": c, "d": d, "pid": pid}, "values": [c, d]}


REGISTRY.add(Contract(
    "C18", LINUX_PY, "Process.ionice_get", setup=setup_ionice_get, env=ENV,
    ensures=["result.ioclass == c and result.value == d", "log == [('proc_ioprio_get', pid)]"], raises={},
    canaries=["result.value == 4242"], replay=None, note="get returns what the native call reported"))


def setup_nice(which):
    def setup(it, cfg):
        o, pid = linux_proc(it)
        native(it, ["getpriority", "setpriority"])
        r = it.fresh("kernel_nice", "Int")
        it.ctx.ghost["native_ret"] = r
        args = {"self": o}
        spec = {"pid": pid, "r": r}
        if which == "set":
            v = it.fresh("value", "Int")
            args["value"] = v
            spec["value"] = v
        return {"args": args, "spec": spec, "values": [r]}
    return setup


REGISTRY.add(Contract("C18", LINUX_PY, "Process.nice_get", setup=setup_nice("get"), env=ENV,
                      ensures=["result == r", "log == [('getpriority', pid)]"], raises={}, canaries=["result == 4242"],
                      replay=None))
REGISTRY.add(Contract("C18", LINUX_PY, "Process.nice_set", setup=setup_nice("set"), env=ENV,
                      ensures=["log == [('setpriority', pid, value)]"], raises={}, canaries=["len(log) == 0"],
                      replay=None))


def setup_rlimit(it, cfg):
    o, pid = linux_proc(it)
    if cfg.get("pid0"):
        o.attrs["pid"] = 0
        pid = 0
    o.attrs["_raise_if_zombie"] = EnvFunc("_raise_if_zombie", lambda it2: None)
    res = it.fresh("resource", "Int")
    soft, hard = it.fresh("soft", "Int"), it.fresh("hard", "Int")
    k_soft, k_hard = it.fresh("k_soft", "Int"), it.fresh("k_hard", "Int")
    fault = cfg.get("fault")

    def prlimit(it2, *args):
        it2.ctx.log.append(("prlimit",) + tuple(args))
        if fault == "ENOSYS":
            it2.raise_(OSError, errno=I(_errno.ENOSYS))
        if fault == "EINVAL":
            it2.raise_(OSError, errno=I(_errno.EINVAL))
        return (k_soft, k_hard)

    it.env_over["_pslinux.resource"] = NativeStub({"prlimit": EnvFunc("prlimit", prlimit)})
    it.env_over["resource.prlimit"] = EnvFunc("prlimit", prlimit)
    lim = {"none": None, "pair": (soft, hard), "one": (soft,), "three": (soft, hard, soft), "list": [soft, hard],
           "empty": (), "emptylist": []}[cfg["limits"]]
    return {"args": {"self": o, "resource_": res, "limits": lim},
            "spec": {"pid": pid, "res": res, "soft": soft, "hard": hard, "ks": k_soft, "kh": k_hard, "mode": cfg["limits"],
                     "fault": fault, "lim": lim},
            "values": [res, soft, hard]}


RL_CFGS = [{"limits": m} for m in ("none", "pair", "one", "three", "list", "empty", "emptylist")] + [{"limits": "pair", "pid0": True}] + \
          [{"limits": "pair", "fault": "EINVAL"}, {"limits": "none", "fault": "ENOSYS"}]
REGISTRY.add(Contract(
    "C18", LINUX_PY, "Process.rlimit", setup=setup_rlimit, env=ENV, configs=RL_CFGS,
    ensures=["implies(mode == 'none', result == (ks, kh) and log == [('prlimit', pid, res)])",
             "implies(mode in ('pair', 'list'), log == [('prlimit', pid, res, lim)])",
             "mode in ('none', 'pair', 'list')", "pid != 0", "fault is None"],
    raises={"ValueError": ["len(log) == 0", "mode in ('one', 'three', 'empty', 'emptylist') or pid == 0"],
            "OSError": ["fault is not None", "len(log) == 1"], "ZombieProcess": None, "NoSuchProcess": None,
            "AccessDenied": None},
    canaries=["len(log) == 7"], replay=None,
    note="a limits argument that is not a pair -> ValueError before prlimit is called"))


# --- _get_eligible_cpus -----------------------------------------------------------------------------------------
# bounded: the status line is a string; decided by enumeration of Cpus_allowed_list forms on a fake procfs
ELIG = Contract("C18", LINUX_PY, "Process._get_eligible_cpus", env=ENV,
                ensures=["_get_eligible_cpus() == the CPUs named by Cpus_allowed_list (every a-b range and single number) "
                         "and cpu_affinity([]) passes exactly those to the native setter"],
                replay="c18:eligible", note="bounded: enumeration of allowed-list forms on a fake procfs")


# --- cpu_affinity_set: diagnosis of a rejected request ------------------------------------------------------------

class Pred:
    """container whose membership is an uninterpreted/arith predicate"""

    def __init__(self, fn, rep):
        self.fn, self.rep = fn, rep

    def vc_contains(self, it, x):
        return self.fn(it.term(x))


def setup_aff_set(it, cfg):
    o, pid = linux_proc(it)
    native(it, ["proc_cpu_affinity_set"], fail=cfg["fault"])
    ncpu = it.fresh("ncpus", "Int")
    it.assume(smt.Cmp(">", ncpu, I(0)))
    elig = it.fresh("eligible", ("Array", "Int", "Bool"))
    all_ = Pred(lambda t: And(smt.Cmp(">=", t, I(0)), smt.Cmp("<", t, ncpu)), "all")
    el = Pred(lambda t: smt.Select(elig, t), "eligible")
    o.attrs["_get_eligible_cpus"] = EnvFunc("elig", lambda it2: el)
    it.env_over["_pslinux.per_cpu_times"] = EnvFunc("per_cpu_times", lambda it2: Opaque("percpu"))
    it.builtins = dict(it.builtins)
    it.builtins["len"] = EnvFunc("len", lambda it2, x: ncpu if isinstance(x, Opaque) else it2.lib.py_len(it2, x))
    orig_range = it.builtins["range"]
    it.builtins["range"] = EnvFunc("range", lambda it2, *a: all_ if (len(a) == 1 and a[0] is ncpu)
                                   else it2.call(orig_range, list(a), {}))
    it.builtins["tuple"] = EnvFunc("tuple", lambda it2, x: x)
    cpus = make_value(it, "cpus", ("Seq", "Int"))
    return {"args": {"self": o, "cpus": cpus},
            "spec": {"cpus": cpus, "pid": pid, "fault": cfg["fault"], "ncpu": ncpu, "elig": elig},
            "values": [ncpu]}


def h_valid(it, c, ncpu):
    t = it.term(c)
    return And(smt.Cmp(">=", t, I(0)), smt.Cmp("<", t, ncpu))


def h_elig(it, c, elig):
    return smt.Select(elig, it.term(c))


AFF_INV = ["forall(range(0, _i), lambda j: valid(cpus[j], ncpu) and is_elig(cpus[j], elig))"]
REGISTRY.add(Contract(
    "C18", LINUX_PY, "Process.cpu_affinity_set", setup=setup_aff_set, env=ENV,
    configs=[{"fault": f} for f in (None, "EINVAL", "ValueError", "EPERM")],
    helpers={"valid": h_valid, "is_elig": h_elig},
    loops={0: LoopSpec(inv=AFF_INV)},
    ensures=["fault is None", "log == [('proc_cpu_affinity_set', pid, cpus)]"],
    raises={
        # the native call was made exactly once with the caller's list; nothing else happened
        "ValueError": ["fault in ('EINVAL', 'ValueError')", "len(log) == 1",
                       "fault == 'ValueError' or exists(range(0, len(cpus)), lambda j: not valid(cpus[j], ncpu) or not is_elig(cpus[j], elig))"],
        "OSError": ["fault == 'EINVAL'", "forall(range(0, len(cpus)), lambda j: valid(cpus[j], ncpu) and is_elig(cpus[j], elig))"],
        "PermissionError": ["fault == 'EPERM'"],
    },
    canaries=["len(log) == 0"], replay=None,
    note="EINVAL/ValueError from the native call is diagnosed: a CPU outside 0..ncpus-1 or not eligible -> ValueError; "
         "otherwise the original error is re-raised"))


# =================================================================================================================
# 3. front end (psutil/__init__.py): argument rules of the get forms, de-dup, empty list
#    (identity check + exact pass-through of the set forms: C01)
# =================================================================================================================

class SetOf:
    def __init__(self, src):
        self.src = src


class ListOfSet:
    def __init__(self, src):
        self.src = src


class SortedSet:
    def __init__(self, src):
        self.src = src


def setup_front(which):
    def setup(it, cfg):
        o = make_process(it, gone=False, reused=False)
        inner = o.attrs["_proc"]
        for nm in ("nice_get", "nice_set", "ionice_get", "ionice_set", "rlimit", "cpu_affinity_get", "cpu_affinity_set"):
            def mk(nm=nm):
                def f(it2, *args):
                    it2.ctx.log.append((nm,) + tuple(args))
                    return it2.ctx.ghost["native_ret"]
                return EnvFunc(nm, f)
            inner.attrs[nm] = mk()
        ret = Opaque("native_value")
        it.ctx.ghost["native_ret"] = ret
        elig = Opaque("eligible_cpus")
        inner.attrs["_get_eligible_cpus"] = EnvFunc("elig", lambda it2: elig)
        it.env_over["__init__.Process.is_running"] = EnvFunc("is_running", lambda it2, s: True)
        o.attrs["is_running"] = EnvFunc("is_running", lambda it2: True)
        it.builtins = dict(it.builtins)
        it.builtins["set"] = EnvFunc("set", lambda it2, x: SetOf(x))
        it.builtins["list"] = EnvFunc("list", lambda it2, x: ListOfSet(x.src) if isinstance(x, SetOf) else x)
        it.builtins["sorted"] = EnvFunc("sorted", lambda it2, x: SortedSet(x.src) if isinstance(x, SetOf) else x)
        args = {"self": o}
        spec = {"ret": ret, "elig": elig, "cfg": cfg}
        if which == "ionice":
            c = {"none": None, "sym": it.fresh("ioclass", "Int")}[cfg["ioclass"]]
            v = {"none": None, "sym": it.fresh("value", "Int")}[cfg["value"]]
            args.update(ioclass=c, value=v)
            spec.update(c=c, v=v)
        elif which == "nice":
            v = {"none": None, "sym": it.fresh("value", "Int")}[cfg["value"]]
            args["value"] = v
            spec["v"] = v
        elif which == "cpu_affinity":
            cp = {"none": None, "empty": [], "some": Opaque("cpus")}[cfg["cpus"]]
            if cfg["cpus"] == "some":
                cp.vc_truth = lambda it2: B(True)
            args["cpus"] = cp
            spec["cpus"] = cp
        elif which == "rlimit":
            r = it.fresh("resource", "Int")
            lim = {"none": None, "some": Opaque("limits")}[cfg["limits"]]
            args.update(resource=r, limits=lim)
            spec.update(r=r, lim=lim)
        return {"args": args, "spec": spec}
    return setup


def h_srcof(it, x):
    return getattr(x, "src", None)


def h_kind(it, x):
    return type(x).__name__


FRONT_INL = ["_raise_if_pid_reused", "pid"]
REGISTRY.add(Contract(
    "C18", INIT, "Process.ionice", setup=setup_front("ionice"), env=ENV, inline=FRONT_INL,
    configs=[{"ioclass": a, "value": b} for a in ("none", "sym") for b in ("none", "sym")],
    ensures=["implies(c is None, v is None and result is ret and log == [('ionice_get',)])",
             "implies(c is not None, log == [('ionice_set', c, v)])"],
    raises={"ValueError": ["c is None and v is not None", "len(log) == 0"]},     # a level without a class
    canaries=["len(log) == 5"], replay=None, name="__init__.Process.ionice(get/validation)"))
REGISTRY.add(Contract(
    "C18", INIT, "Process.nice", setup=setup_front("nice"), env=ENV, inline=FRONT_INL,
    configs=[{"value": "none"}, {"value": "sym"}],
    ensures=["implies(v is None, result is ret and log == [('nice_get',)])",
             "implies(v is not None, log == [('nice_set', v)])"], raises={},
    canaries=["len(log) == 5"], replay=None, name="__init__.Process.nice(get/set)"))
REGISTRY.add(Contract(
    "C18", INIT, "Process.rlimit", setup=setup_front("rlimit"), env=ENV, inline=FRONT_INL,
    configs=[{"limits": "none"}, {"limits": "some"}],
    ensures=["result is ret", "log == [('rlimit', r, lim)]"], raises={},
    canaries=["len(log) == 5"], replay=None, name="__init__.Process.rlimit(get/set)"))
REGISTRY.add(Contract(
    "C18", INIT, "Process.cpu_affinity", setup=setup_front("cpu_affinity"), env=ENV, inline=FRONT_INL,
    configs=[{"cpus": c} for c in ("none", "empty", "some")], helpers={"srcof": h_srcof, "kind": h_kind},
    ensures=[
        # get: the native list, de-duplicated and sorted
        "implies(cpus is None, kind(result) == 'SortedSet' and srcof(result) is ret and log == [('cpu_affinity_get',)])",
        # set: exactly one native call with the de-duplicated request; [] means all eligible CPUs
        "implies(cpus is not None, len(log) == 1 and log[0][0] == 'cpu_affinity_set' and kind(log[0][1]) == 'ListOfSet')",
        "implies(cfg['cpus'] == 'empty', srcof(log[0][1]) is elig)",
        "implies(cfg['cpus'] == 'some', srcof(log[0][1]) is cpus)",
    ], raises={}, canaries=["len(log) == 5"], replay=None, name="__init__.Process.cpu_affinity(get/set/empty)"))


# =================================================================================================================
# 4. bounded stand-ins (labelled bounded, never counted as proved)
# =================================================================================================================
LIVE = Contract("C18", LINUX_PY, "Process.*", name="live child round trip (nice/ionice/cpu_affinity/rlimit)", env=ENV,
                ensures=["after set(v): psutil's get and the kernel (os.getpriority / ioprio_get / os.sched_getaffinity / "
                         "resource.prlimit) report v for the child; a bystander child and the caller are unchanged; "
                         "invalid requests raise ValueError and change nothing; extension rebuilt from the working tree"],
                replay="c18:live", note="bounded: enumeration on live children")
BOUNDED_CONTRACTS = [ELIG, LIVE]
BOUNDED = [bounded_sweep(ELIG, "c18:eligible", quick=200, thorough=3000),
           bounded_sweep(LIVE, "c18:live", quick=300, thorough=6000)]
