"""C15 - wait() and wait_procs(): right exit status, never early, timeouts honoured."""
import os as _os

from .common import *  # noqa: F401,F403
from .common import Contract, Registry, LoopSpec, BASE_ENV, INIT, POSIX_PY, bounded_sweep
from .frontproc import make_process
from vc.interp import PS_EXC, ModuleSrc

REGISTRY = Registry()
TRUSTED = ["virtual clock: _timer() reads ghost 'now'; only _sleep(d) advances it (by exactly d); a blocking "
           "waitpid() returns at the exit instant; waitpid/pid_exists otherwise take no time",
           "exit oracle: waitpid(WNOHANG) returns (0, 0) while now < exit_at, then (pid, status) exactly once, then "
           "ECHILD; a non-child always gets ECHILD and pid_exists(pid) <=> now < exit_at; EINTR may hit any blocking "
           "waitpid (a WNOHANG call never blocks, hence is never interrupted)"]
ASSUMPTIONS = ["float arithmetic as reals", "waitpid without WUNTRACED reports only exited/signaled states"]
NOT_COVERED = ["real elapsed time of system calls and preemption (clock model)",
               "wait_procs(): covered by a bounded virtual-clock simulation, not proved"]
ENV = dict(BASE_ENV)


def setup_wait_pid(it, cfg):
    pid = it.fresh("pid", "Int")
    now0 = it.fresh("now0", "Real")
    exit_at = it.fresh("exit_at", "Real")
    exited = it.fresh("exited_normally", "Bool")
    code = it.fresh("exit_code", "Int")
    sig = it.fresh("term_signal", "Int")
    status = it.fresh("status", "Int")
    it.assume(And(smt.Cmp(">=", now0, R(0)), smt.Cmp("<=", I(0), code), smt.Cmp("<=", code, I(255)),
                  smt.Cmp("<=", I(1), sig), smt.Cmp("<=", sig, I(64))))
    gh = it.ctx.ghost
    gh.update(now=now0, reaped=B(False), exit_at=exit_at, sleeps=0, delivered=B(False))
    child = cfg["child"]
    if cfg["timeout"] == "none":
        timeout = None
    elif cfg["timeout"] == "zero":
        timeout = 0
    else:
        timeout = it.fresh("timeout", "Real")
        it.assume(smt.Cmp(">=", timeout, R(0)))

    def timer(it2):
        return gh["now"]

    def sleep(it2, d):
        td = it2.term(d)
        it2.ctx.oblige("pre@sleep:0.0001 <= poll interval <= 0.04", "pre",
                       And(smt.Cmp(">=", lift(td, "Real"), R("0.0001")), smt.Cmp("<=", lift(td, "Real"), R("0.04"))),
                       where="_sleep call site")
        if cfg["timeout"] == "zero":
            it2.ctx.oblige("pre@sleep:timeout=0 never sleeps", "pre", B(False), where="_sleep call site")
        gh["now"] = smt.Add(gh["now"], lift(td, "Real"))

    def waitpid(it2, p, flags):
        it2.ctx.oblige("pre@os.waitpid:pid > 0", "pre", smt.Cmp(">", it2.term(p), I(0)), where="os.waitpid call site")
        want_flags = 0 if timeout is None else _os.WNOHANG
        it2.ctx.oblige("pre@os.waitpid:WNOHANG exactly when a timeout was given", "pre",
                       it2.as_bool(it2.lib.equal(it2, flags, want_flags)), where="os.waitpid call site")
        if timeout is None and it2.choose(2, "waitpid:EINTR?") == 1:
            it2.raise_(InterruptedError, errno=I(4))     # only a blocking waitpid can be interrupted
        if not child:
            it2.raise_(ChildProcessError, errno=I(10))
        if it2.truth(gh["reaped"], "already-reaped"):
            it2.raise_(ChildProcessError, errno=I(10))
        if timeout is not None:
            if it2.truth(smt.Cmp("<", gh["now"], exit_at), "still-running"):
                return (0, 0)
        else:
            gh["now"] = Ite(smt.Cmp("<", gh["now"], exit_at), exit_at, gh["now"])
        gh["reaped"] = B(True)
        gh["delivered"] = B(True)
        return (p, status)

    def pid_exists(it2, p):
        it2.ctx.oblige("pre@pid_exists:pid > 0", "pre", smt.Cmp(">", it2.term(p), I(0)), where="_pid_exists call site")
        return smt.Cmp("<", gh["now"], exit_at)

    it.env_over.update({
        "os.waitpid": EnvFunc("os.waitpid", waitpid), "time.monotonic": EnvFunc("monotonic", timer),
        "time.time": EnvFunc("time", timer), "time.sleep": EnvFunc("sleep", sleep),
        "_psposix.pid_exists": EnvFunc("pid_exists", pid_exists),
        "os.WIFEXITED": EnvFunc("WIFEXITED", lambda it2, s: exited),
        "os.WEXITSTATUS": EnvFunc("WEXITSTATUS", lambda it2, s: code),
        "os.WIFSIGNALED": EnvFunc("WIFSIGNALED", lambda it2, s: Not(exited)),
        "os.WTERMSIG": EnvFunc("WTERMSIG", lambda it2, s: sig),
        "_psposix.negsig_to_enum": EnvFunc("negsig_to_enum", lambda it2, n: n),
    })
    stop = smt.Add(now0, lift(it.term(timeout), "Real")) if timeout is not None else None
    return {"args": {"pid": pid, "timeout": timeout, "proc_name": Opaque("name")},
            "spec": {"exit_at": exit_at, "exited": exited, "code": code, "sig": sig, "child": child, "now0": now0,
                     "stop": stop, "has_timeout": timeout is not None},
            "values": [pid, now0, exit_at, exited, code, sig] + ([timeout] if cfg["timeout"] == "some" else [])}


def havoc_clock(it, fr):
    gh = it.ctx.ghost
    old = gh["now"]
    gh["now"] = it.fresh("now", "Real")
    it.ctx.assume(smt.Cmp(">=", gh["now"], old))
    gh["reaped"] = it.fresh("reaped", "Bool")
    gh["delivered"] = gh["reaped"]


WAIT_INV = [
    "0.0001 <= interval and interval <= 0.04",
    "implies(has_timeout, ghost['now'] <= stop + 0.04)",        # at most one poll past the deadline
    "not ghost['reaped']",                                        # the status has not been collected yet
    "pid > 0",
]

WP_CFGS = [{"child": c, "timeout": t} for c in (True, False) for t in ("none", "zero", "some")]

REGISTRY.add(Contract(
    "C15", POSIX_PY, "wait_pid", setup=setup_wait_pid, env=ENV, configs=WP_CFGS,
    loops={0: LoopSpec(inv=WAIT_INV, on_havoc=havoc_clock), 1: LoopSpec(inv=WAIT_INV, on_havoc=havoc_clock)},
    ensures=[
        "ghost['now'] >= exit_at",                                           # never before the process really ended
        "implies(child and exited, result == code)",
        "implies(child and not exited, result == -sig)",
        "implies(not child, result is None)",
    ],
    raises={
        "ValueError": "pid <= 0",
        "TimeoutExpired": ["has_timeout", "ghost['now'] >= stop", "ghost['now'] <= stop + 0.04",
                           "ghost['now'] < exit_at",                        # the process was still alive at the last poll
                           "exc.seconds == timeout", "exc.pid == pid"],
    },
    canaries=["result == 7777"], replay="c15:wait_pid",
    note="exit code / negated signal / None; TimeoutExpired only past the deadline with the process alive, at most "
         "one 40 ms poll late; polls within [0.1 ms, 40 ms]; timeout=0 never sleeps"))


# --- Process.wait (front end) ------------------------------------------------------------------------------

def setup_pwait(it, cfg):
    o = make_process(it)
    sentinel = Opaque("SENTINEL")
    it.env_over["__init__._SENTINEL"] = sentinel
    native = None if cfg.get("native") == "none" else it.fresh("native_result", "Int")
    calls = []

    def pw(it2, timeout=None):
        it2.ctx.log.append(("proc.wait", timeout))
        return native

    o.attrs["_proc"].attrs["wait"] = EnvFunc("proc.wait", pw)
    cached = cfg["cached"]
    if cached == "none":
        o.attrs["_exitcode"] = None          # an earlier wait() found nothing to collect: None is a cached answer too
        cached = True
    elif cached:
        cv = it.fresh("cached_exitcode", "Int")
        o.attrs["_exitcode"] = cv
    else:
        o.attrs["_exitcode"] = sentinel
    if cfg["timeout"] == "none":
        t = None
    else:
        t = it.fresh("timeout", "Real")
    return {"args": {"self": o, "timeout": t},
            "spec": {"native": native, "cached": cached, "cv": o.attrs["_exitcode"], "t": t},
            "values": [native] if native is not None else []}


REGISTRY.add(Contract(
    "C15", INIT, "Process.wait", setup=setup_pwait, env=ENV,
    configs=[{"cached": c, "timeout": t} for c in (True, "none", False) for t in ("none", "some")] +
            [{"cached": False, "timeout": "none", "native": "none"}],      # nothing to collect: None is cached as well
    ensures=[
        "implies(cached, (result is cv or result == cv) and len(log) == 0)",   # later calls return the same cached value
        "implies(not cached, (result is native or result == native) and (self._exitcode is native or self._exitcode == native) "
        "and log == [('proc.wait', t)])",
        "implies(t is not None, t >= 0)",
    ],
    raises={"ValueError": ["t is not None", "not (t >= 0)", "len(log) == 0"]},
    canaries=["result == 7777"], replay="c15:pwait",
    note="negative timeout -> ValueError before anything; the exit code is cached and returned on every later call"))


# --- Popen.wait: the subprocess module may have reaped the child already ---------------------------------------------

def setup_popen_wait(it, cfg):
    rc = {"none": None, "zero": 0, "sym": it.fresh("reaped_returncode", "Int")}[cfg["rc"]]
    sub = Obj("subprocess.Popen", {"returncode": rc}, module=None)
    native = it.fresh("native_result", "Int")
    o = Obj("Popen", {"_Popen__subproc": sub, "_pid": it.fresh("pid", "Int")}, module=ModuleSrc.get(INIT))

    def sup(it2, *a):
        def w(it3, timeout=None):
            it3.ctx.log.append(("Process.wait", timeout))
            return native
        return _Stub({"wait": EnvFunc("wait", w)})

    it.builtins = dict(it.builtins)
    it.builtins["super"] = EnvFunc("super", sup)
    t = it.fresh("timeout", "Real")
    return {"args": {"self": o, "timeout": t}, "spec": {"rc": rc, "native": native, "sub": sub, "t": t, "mode": cfg["rc"]},
            "values": [native]}


class _Stub:
    def __init__(self, attrs):
        self.attrs = attrs

    def vc_getattr(self, it, name):
        return self.attrs[name]


REGISTRY.add(Contract(
    "C15", INIT, "Popen.wait", setup=setup_popen_wait, env=ENV, configs=[{"rc": r} for r in ("none", "zero", "sym")],
    ensures=["implies(mode == 'none', result == native and sub.returncode == native and log == [('Process.wait', t)])",
             "implies(mode == 'zero', result == 0 and len(log) == 0 and sub.returncode == 0)",      # exit code 0 is a status too
             "implies(mode == 'sym', result == rc and len(log) == 0)"],
    raises={}, canaries=["result == 7777"], replay=None,
    note="a status the subprocess module already collected (0 included) is returned as is; otherwise Process.wait()'s "
         "result is returned and recorded as returncode"))


# --- wait_procs: bounded virtual-clock simulation ----------------------------------------------------------
WPR = Contract("C15", INIT, "wait_procs", env=ENV,
               ensures=["gone/alive disjoint and cover every input exactly once; returncode set and callback called "
                        "exactly once per gone process; returns no later than the timeout plus one poll"],
               replay="c15:wait_procs", note="bounded: virtual-clock simulation over exit schedules")
BOUNDED_CONTRACTS = [WPR]
BOUNDED = [bounded_sweep(WPR, "c15:wait_procs", quick=300, thorough=5000)]
