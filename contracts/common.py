"""Shared pieces for the sidecar contracts: platform configuration, symbolic
input builders, environment (OS) models."""
import collections

from vc import smt
from vc.smt import T, is_t, I, R, B, S, And, Or, Not, Implies, Ite, Eq, lift
from vc.contract import Contract, Registry, LoopSpec, make_value
from vc.interp import (Obj, SymList, SymMap, SymSet, SymFile, EnvFunc, Opaque, FStr, ExcVal, Unsupported,
                       ModuleSrc, RepoFunc, BoundMethod)

INIT = "psutil/__init__.py"
LINUX_PY = "psutil/_pslinux.py"
COMMON_PY = "psutil/_common.py"
POSIX_PY = "psutil/_psposix.py"

# platform flags as seen by psutil/__init__.py and _common.py on Linux
LINUX_FLAGS = {}
for _m in ("__init__", "_common", "_pslinux", "_psposix"):
    LINUX_FLAGS.update({f"{_m}.LINUX": True, f"{_m}.POSIX": True, f"{_m}.WINDOWS": False, f"{_m}.MACOS": False,
                        f"{_m}.OSX": False, f"{_m}.FREEBSD": False, f"{_m}.OPENBSD": False, f"{_m}.NETBSD": False,
                        f"{_m}.BSD": False, f"{_m}.SUNOS": False, f"{_m}.AIX": False})


def env_debug(it, *a, **k):
    return None


BASE_ENV = dict(LINUX_FLAGS)
for _m in ("__init__", "_common", "_pslinux", "_psposix"):
    BASE_ENV[f"{_m}.debug"] = EnvFunc("debug", env_debug)

SCPU_FIELDS = ['user', 'nice', 'system', 'idle', 'iowait', 'irq', 'softirq', 'steal', 'guest', 'guest_nice']


def scputimes_cls(n):
    return collections.namedtuple('scputimes', SCPU_FIELDS[:n])


def fresh_nt(it, cls, name, sort="Real", nonneg=False):
    vals = []
    for f in cls._fields:
        v = it.fresh(f"{name}_{f}", sort)
        if nonneg:
            it.assume(smt.Cmp(">=", v, lift(0, sort)))
        vals.append(v)
    return cls(*vals)


def values_of(*vals):
    out = []
    for v in vals:
        if is_t(v):
            out.append(v)
        elif isinstance(v, (tuple, list)):
            out.extend(values_of(*v))
        elif isinstance(v, SymList):
            out.append(v.seq)
    return out
