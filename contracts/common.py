"""Shared pieces for the sidecar contracts: platform configuration, symbolic
input builders, environment (OS) models."""
import collections

from vc import smt
from vc.smt import T, is_t, I, R, B, S, And, Or, Not, Implies, Ite, Eq, lift
from vc.contract import Contract, Registry, LoopSpec, make_value
from vc.interp import (Obj, SymList, SymMap, SymSet, SymFile, EnvFunc, Opaque, FStr, ExcVal, Unsupported,
                       ModuleSrc, RepoFunc, BoundMethod)

INIT = "psutil/__init__.py"
LINUX_PY = "psutil/_pslinux.py"
COMMON_PY = "psutil/_common.py"
POSIX_PY = "psutil/_psposix.py"

# platform flags as seen by psutil/__init__.py and _common.py on Linux
LINUX_FLAGS = {}
for _m in ("__init__", "_common", "_pslinux", "_psposix"):
    LINUX_FLAGS.update({f"{_m}.LINUX": True, f"{_m}.POSIX": True, f"{_m}.WINDOWS": False, f"{_m}.MACOS": False,
                        f"{_m}.OSX": False, f"{_m}.FREEBSD": False, f"{_m}.OPENBSD": False, f"{_m}.NETBSD": False,
                        f"{_m}.BSD": False, f"{_m}.SUNOS": False, f"{_m}.AIX": False})


def env_debug(it, *a, **k):
    return None


BASE_ENV = dict(LINUX_FLAGS)
for _m in ("__init__", "_common", "_pslinux", "_psposix"):
    BASE_ENV[f"{_m}.debug"] = EnvFunc("debug", env_debug)

for _m in ("__init__", "_common", "_pslinux", "_psposix"):
    BASE_ENV[f"{_m}.ENCODING"] = "utf-8"
    BASE_ENV[f"{_m}.ENCODING_ERRS"] = "surrogateescape"

SCPU_FIELDS = ['user', 'nice', 'system', 'idle', 'iowait', 'irq', 'softirq', 'steal', 'guest', 'guest_nice']


def scputimes_cls(n):
    return collections.namedtuple('scputimes', SCPU_FIELDS[:n])


def fresh_nt(it, cls, name, sort="Real", nonneg=False):
    vals = []
    for f in cls._fields:
        v = it.fresh(f"{name}_{f}", sort)
        if nonneg:
            it.assume(smt.Cmp(">=", v, lift(0, sort)))
        vals.append(v)
    return cls(*vals)


def values_of(*vals):
    out = []
    for v in vals:
        if is_t(v):
            out.append(v)
        elif isinstance(v, (tuple, list)):
            out.extend(values_of(*v))
        elif isinstance(v, SymList):
            out.append(v.seq)
    return out


# ---------------------------------------------------------------------------
# ghost folds: F(0) = init, F(j+1) = step(j, F(j)) for 0 <= j < n  (assumed as
# the *definition* of the spec function F; loop invariants then read  x == F(_i))
# ---------------------------------------------------------------------------

def fold_fn(it, name, ressort, n, init, step):
    it.ctx.uf(name, ["Int"], ressort)

    def F(j):
        return smt.app(name, ressort, j if is_t(j) else I(j))

    it.ctx.assume(Eq(F(I(0)), init))
    it.forall_int(lambda j: Implies(And(smt.Cmp("<=", I(0), j), smt.Cmp("<", j, n)),
                                    Eq(F(smt.Add(j, I(1))), step(j, F(j)))))
    return F


def as_symmap(it, m, ksort, vsort):
    """view a python dict / SymMap as (pres, vals) arrays"""
    from vc import lib
    if isinstance(m, SymMap):
        return m.pres, m.vals
    if isinstance(m, dict):
        sm = lib.empty_symmap(it, ksort, vsort)
        for k, v in m.items():
            lib.setitem(it, sm, k, v)
        return sm.pres, sm.vals
    raise Unsupported("as_symmap")


def h_map_is(it, m, pres, vals):
    """the dict m is exactly the map (pres, vals)"""
    p, v = as_symmap(it, m, pres.sort[1], vals.sort[2])
    return And(Eq(p, pres), Eq(v, vals))


def proc_file_env(files, modname="_pslinux", procfs="/proc"):
    """environment for functions that read procfs files: files maps a path
    tail (e.g. '/meminfo') to provider(it, path) -> SymFile / raises PyRaise"""
    def open_any(it, path, *a, **k):
        p = path if isinstance(path, str) else (path.tail() if isinstance(path, FStr) else None)
        if p is None:
            raise Unsupported("open of a symbolic path")
        for tail, prov in files.items():
            if p.endswith(tail):
                return prov(it, path)
        raise Unsupported(f"no environment model for file {p}")

    def get_procfs_path(it):
        return procfs

    env = {}
    for m in (modname, "_common"):
        env[f"{m}.open_binary"] = EnvFunc("open_binary", open_any)
        env[f"{m}.open_text"] = EnvFunc("open_text", open_any)
        env[f"{m}.get_procfs_path"] = EnvFunc("get_procfs_path", get_procfs_path)
    return env


def warn_env(modname="_pslinux"):
    def warn(it, msg, *a, **k):
        it.ctx.log.append(("warn", msg))
    return {"warnings.warn": EnvFunc("warnings.warn", warn)}


def named(it, label, term):
    """a fresh constant equal to term, so that counter-models report it under a stable name"""
    v = it.fresh(label, term.sort, term.bk)
    it.ctx.assume(Eq(v, term))
    return v


def bounded_sweep(contract, rid, quick=300, thorough=5000, cfg="-"):
    """bounded stand-in for a function outside the solvers' reach: the executable contract is
    evaluated on every input of the runner's generator (labelled bounded, never counted as proved)"""
    import json
    import os
    import subprocess

    def run(tier, seed):
        here = os.path.dirname(os.path.dirname(os.path.abspath(__file__)))
        budget = quick if tier == "quick" else thorough
        meta = {"cfg": cfg, "obligation": "", "prop": contract.prop, "contract": contract.name}
        cmd = ["/venv/bin/python", os.path.join(here, "replay", "run.py"), "--sweep", rid, json.dumps(meta), str(budget), str(seed)]
        env = dict(os.environ, PYTHONPATH=os.environ.get("VERIF_REPO", "/repo"), PYTHONHASHSEED=str(seed % 4294967295))
        p = subprocess.run(cmd, capture_output=True, text=True, timeout=3000, env=env, cwd=here)
        lines = p.stdout.strip().splitlines()
        try:
            out = json.loads(lines[-1])
        except Exception:
            raise RuntimeError("bounded sweep failed: " + (p.stdout + p.stderr)[-800:])
        bound = f"{out['cases']} generated inputs (corpus of adversarial cases + seeded random)"
        if out.get("calls"):
            bound = f"{out['calls']} calls of extension entry points (argument grid, sanitizer build)"
        return {"function": contract.name, "bound": bound,
                "cases": out["cases"], "distinct_inputs": out.get("distinct", 0), "evaluations": out["evaluations"],
                "samples": out["samples"],
                "failures": out["failures"]}
    return run


_REUSED_NAME = {}


def reused_set_name():
    import os as _os
    key = _os.environ.get("VERIF_REPO", "/repo")
    if key not in _REUSED_NAME:
        _REUSED_NAME[key] = _reused_set_name()
    return _REUSED_NAME[key]


def _reused_set_name():
    """name of the module-level set of psutil/__init__.py into which Process.is_running() puts a PID it found recycled
    (`<name>.add(self.pid)`): found by role, so a rename of that private global does not detach the contracts from it"""
    import ast as _ast
    import os as _os
    try:
        tree = _ast.parse(open(_os.path.join(_os.environ.get("VERIF_REPO", "/repo"), INIT)).read())
        for cls in tree.body:
            if isinstance(cls, _ast.ClassDef) and cls.name == "Process":
                for fn in cls.body:
                    if isinstance(fn, _ast.FunctionDef) and fn.name == "is_running":
                        for c in _ast.walk(fn):
                            if isinstance(c, _ast.Call) and isinstance(c.func, _ast.Attribute) and c.func.attr == "add" \
                                    and isinstance(c.func.value, _ast.Name) and len(c.args) == 1 \
                                    and _ast.unparse(c.args[0]) == "self.pid":
                                return c.func.value.id
    except Exception:
        pass
    return "_pids_reused"
