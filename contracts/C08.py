"""C08 - virtual_memory() and swap_memory() follow the documented formulas."""
from .common import *  # noqa: F401,F403
from .common import (Contract, Registry, LoopSpec, BASE_ENV, LINUX_PY, COMMON_PY, fold_fn, h_map_is, proc_file_env,
                     warn_env, values_of, named)
from vc import lib

REGISTRY = Registry()
TRUSTED = ["float arithmetic treated as real arithmetic; round(x, 1) abstracted",
           "library models: bytes.split()/strip()/startswith, int(bytes) (vc/lib.py)"]
ASSUMPTIONS = [
    "/proc/meminfo grammar: every line splits on whitespace into >= 2 tokens, token 0 is the key, token 1 a "
    "decimal kB figure >= 0; keys are distinct (kernel fs/proc/meminfo.c)",
    "/proc/vmstat grammar: at most one 'pswpin N' and one 'pswpout N' line, N decimal",
    "/proc/zoneinfo grammar: lines whose stripped text starts with 'low' carry a decimal page count as 2nd token",
    "PAGESIZE = 4096 (configuration constant of this check)",
    "MemFree <= MemTotal only where the property's own side condition says so (percent range clause)",
]
NOT_COVERED = []

KEYSORT, VALSORT = "String", "Int"
MEMKEYS = [b'MemTotal:', b'MemFree:', b'Buffers:', b'Cached:', b'SReclaimable:', b'Shmem:', b'MemShared:',
           b'Active:', b'Inactive:', b'Inact_dirty:', b'Inact_clean:', b'Inact_laundry:', b'Slab:',
           b'MemAvailable:', b'Active(file):', b'Inactive(file):', b'SwapTotal:', b'SwapFree:']


def meminfo_setup(it):
    """symbolic /proc/meminfo: lines L, ghost keys K and values V; the map a
    correct parser must build is the fold P/Vv over the lines."""
    L = it.fresh("meminfo_lines", ("Seq", "String"))
    n = smt.Len(L)
    it.ctx.uf("meminfo_key", ["Int"], "String")
    it.ctx.uf("meminfo_val", ["Int"], "Int")
    it.ctx.uf("py_splitws", ["String"], ("Seq", "String"))
    it.ctx.uf("py_intval", ["String"], "Int")
    it.ctx.counter["_q"] += 1
    q = it.ctx.counter["_q"]
    j, k = T("Int", f"q{q}_j"), T("Int", f"q{q}_k")

    def K(x):
        return smt.app("meminfo_key", "String", x)

    def V(x):
        return smt.app("meminfo_val", "Int", x)

    def line_fact(j):
        toks = smt.app("py_splitws", ("Seq", "String"), smt.Nth(L, j))
        tok1 = smt.Nth(toks, I(1))
        rng = And(smt.Cmp("<=", I(0), j), smt.Cmp("<", j, n))
        return Implies(rng, And(
            smt.Cmp(">=", smt.Len(toks), I(2)),
            Eq(smt.Nth(toks, I(0)), K(j)),
            lib.in_re(tok1, lib.digits_re()),
            Eq(smt.app("py_intval", "Int", tok1), V(j)),
            smt.Cmp(">=", V(j), I(0))))

    it.forall_int(line_fact)
    it.assume(smt.Forall([j, k], Implies(And(smt.Cmp("<=", I(0), j), smt.Cmp("<", j, k), smt.Cmp("<", k, n)),
                                        Not(Eq(K(j), K(k))))))
    P = fold_fn(it, "meminfo_P", ("Array", "String", "Bool"), n, smt.ConstArray("String", B(False)),
                lambda jj, prev: smt.Store(prev, K(jj), B(True)))
    Vv = fold_fn(it, "meminfo_V", ("Array", "String", "Int"), n, smt.ConstArray("String", I(0)),
                 lambda jj, prev: smt.Store(prev, K(jj), smt.Mul(V(jj), I(1024))))
    M = SymMap("String", "Int", P(n), Vv(n), kbk="bytes")
    # every stored figure is >= 0 (consequence of V >= 0; stated for the final map)
    kk = T("String", f"q{q}_key")
    it.assume(smt.Forall([kk], smt.Cmp(">=", smt.Select(Vv(n), kk), I(0))))
    for key in MEMKEYS:   # ground instances of the line above (quantifier-free fast path)
        it.assume(smt.Cmp(">=", smt.Select(Vv(n), S(key)), I(0)))
    return L, P, Vv, M


def file_of(lines, bk="bytes"):
    def prov(it, path):
        return SymFile(lines, bk)
    return prov


def h_has(it, M, key):
    if isinstance(M, dict):
        return key in M
    return smt.Select(M.pres, it.term(key))


def h_get(it, M, key, default=0):
    if isinstance(M, dict):
        return M.get(key, default)
    tk = it.term(key)
    return Ite(smt.Select(M.pres, tk), smt.Select(M.vals, tk), it.term(default))


def model_names(it, M, keys):
    """stable names for presence/value of each key in counter-models"""
    out = []
    for k in keys:
        nm = k.decode().rstrip(":").replace("(", "_").replace(")", "")
        out.append(named(it, f"has_{nm}", smt.Select(M.pres, S(k))))
        out.append(named(it, f"val_{nm}", smt.Select(M.vals, S(k))))
    return out


def h_warned(it, log):
    return [m for kind, m in log if kind == "warn"]


HELPERS = {"has": h_has, "get": h_get, "map_is": h_map_is, "warned": h_warned}


# ---------------------------------------------------------------------------
# _common.usage_percent
# ---------------------------------------------------------------------------

def setup_usage(it, cfg):
    used = it.fresh("used", cfg["sort"])
    total = it.fresh("total", cfg["sort"])
    return {"args": {"used": used, "total": total, "round_": cfg["round"]}, "values": [used, total]}


def ret_real(it, env):
    return it.fresh("ret", "Real")


USAGE_ENS = [
    "implies(total == 0, result == 0.0)",
    "implies(total != 0 and round_ == 1, abs(result * total - 100 * used) <= 0.05 * abs(total))",
    "implies(total != 0 and round_ is None, result * total == 100 * used)",
    "implies(0 <= used and used <= total and round_ == 1, 0 <= result and result <= 100)",
]

REGISTRY.add(Contract(
    "C08", COMMON_PY, "usage_percent", setup=setup_usage,
    configs=[{"sort": "Int", "round": 1}, {"sort": "Real", "round": 1}, {"sort": "Int", "round": None}],
    env=BASE_ENV, ensures=USAGE_ENS, canaries=["result == 0.0"], returns=ret_real, role="helper",
    replay="c08:usage_percent",
    note="percent = used/total*100 rounded to one decimal, 0.0 for a zero total"))


# ---------------------------------------------------------------------------
# _pslinux.calculate_avail_vmem
# ---------------------------------------------------------------------------

PAGESIZE = 4096


def setup_avail(it, cfg):
    mems = SymMap("String", "Int", it.fresh("mems_pres", ("Array", "String", "Bool")),
                  it.fresh("mems_vals", ("Array", "String", "Int")), kbk="bytes")
    Z = it.fresh("zone_lines", ("Seq", "String"))
    n = smt.Len(Z)
    it.ctx.uf("py_strip", ["String"], "String")
    it.ctx.uf("py_splitws", ["String"], ("Seq", "String"))
    it.ctx.uf("py_intval", ["String"], "Int")
    it.ctx.counter["_q"] += 1
    j = T("Int", f"q{it.ctx.counter['_q']}_j")

    def stripped(x):
        return smt.app("py_strip", "String", smt.Nth(Z, x))

    def islow(x):
        return smt.app("str.prefixof", "Bool", S(b"low"), stripped(x))

    def lowval(x):
        return smt.app("py_intval", "Int", smt.Nth(smt.app("py_splitws", ("Seq", "String"), stripped(x)), I(1)))

    def zone_fact(j):
        toks = smt.app("py_splitws", ("Seq", "String"), stripped(j))
        rng = And(smt.Cmp("<=", I(0), j), smt.Cmp("<", j, n))
        return Implies(And(rng, islow(j)), And(
            smt.Cmp(">=", smt.Len(toks), I(2)), lib.in_re(smt.Nth(toks, I(1)), lib.digits_re()),
            smt.Cmp(">=", lowval(j), I(0))))

    it.forall_int(zone_fact)
    W = fold_fn(it, "zone_W", "Int", n, I(0), lambda jj, prev: smt.Add(prev, Ite(islow(jj), lowval(jj), I(0))))
    zone_ok = cfg["zoneinfo"]

    def zone(it2, path):
        if not zone_ok:
            it2.raise_(FileNotFoundError, errno=I(2))
        return SymFile(Z, "bytes")

    it.env_over.update(proc_file_env({"/zoneinfo": zone}))
    it.env_over["_pslinux.PAGESIZE"] = PAGESIZE
    return {"args": {"mems": mems}, "spec": {"W": smt.Mul(W(n), I(PAGESIZE)), "Wf": EnvFunc("Wf", lambda it2, x: W(x)),
                                              "zone_ok": zone_ok, "PAGE": PAGESIZE},
            "values": [mems.pres, mems.vals, Z]}


def h_estimate(it, mems, W):
    """the kernel's MemAvailable estimate (commit 34e431b0ae39): free - low watermark
    + page cache and reclaimable slab, each minus min(half of it, low watermark); truncated to an int"""
    free = smt.Select(mems.vals, S(b"MemFree:"))
    af = smt.Select(mems.vals, S(b"Active(file):"))
    inf = smt.Select(mems.vals, S(b"Inactive(file):"))
    sr = smt.Select(mems.vals, S(b"SReclaimable:"))
    pagecache = smt.Add(af, inf)
    half_pc = smt.app("/", "Real", lift(pagecache, "Real"), R(2))
    half_sr = smt.app("/", "Real", lift(sr, "Real"), R(2))
    Wr = lift(W, "Real")
    x = smt.Add(smt.Sub(lift(smt.Sub(free, W), "Real"), R(0)), R(0))
    x = smt.Add(x, smt.Sub(lift(pagecache, "Real"), Ite(smt.Cmp("<", half_pc, Wr), half_pc, Wr)))
    x = smt.Add(x, smt.Sub(lift(sr, "Real"), Ite(smt.Cmp("<", half_sr, Wr), half_sr, Wr)))
    return lib.py_int(it, x)


AV_HELPERS = dict(HELPERS, estimate=h_estimate)


def _est(it):
    if "est" not in it.ctx.ghost:
        it.ctx.ghost["est"] = it.fresh("est", "Int")
        it.ctx.values.append(it.ctx.ghost["est"])
    return it.ctx.ghost["est"]

REGISTRY.add(Contract(
    "C08", LINUX_PY, "calculate_avail_vmem", setup=setup_avail, configs=[{"zoneinfo": True}, {"zoneinfo": False}],
    env=dict(BASE_ENV), helpers=AV_HELPERS,
    requires=["has(mems, b'MemFree:')"],
    loops={0: LoopSpec(inv=["watermark_low == Wf(_i)"])},
    ensures=[
        "implies(not (has(mems, b'Active(file):') and has(mems, b'Inactive(file):') and has(mems, b'SReclaimable:')),"
        " result == mems[b'MemFree:'] + get(mems, b'Cached:', 0))",
        "implies(not zone_ok, result == mems[b'MemFree:'] + get(mems, b'Cached:', 0))",
        "implies(zone_ok and has(mems, b'Active(file):') and has(mems, b'Inactive(file):') and has(mems, b'SReclaimable:'),"
        " result == estimate(mems, W))",
    ],
    canaries=["result == mems[b'MemFree:']"], replay="c08:avail",
    returns=lambda it, env: _est(it), role="helper",
    callee_ensures=[],   # callers only need: the result is *the* fallback estimate (ghost 'est')
    note="documented fallback estimate of available memory (kernel commit 34e431b0ae39), (free+cached) when "
         "its inputs are missing"))


# ---------------------------------------------------------------------------
# _pslinux.virtual_memory
# ---------------------------------------------------------------------------

def setup_vm(it, cfg):
    L, P, Vv, M = meminfo_setup(it)
    it.env_over.update(proc_file_env({"/meminfo": file_of(L)}))
    it.env_over.update(warn_env())
    vals = model_names(it, M, MEMKEYS)
    _est(it)        # the fallback estimate is a function of the inputs: it exists whether or not the code asks for it
    return {"args": {}, "spec": {"M": M, "P": EnvFunc("P", lambda it2, x: P(x)), "Vv": EnvFunc("Vv", lambda it2, x: Vv(x))},
            "values": vals}


def h_est(it):
    return it.ctx.ghost.get("est", I(0))


def h_raw_avail(it, M):
    if isinstance(M, dict):
        a = M.get(b"MemAvailable:")
        return a if a else h_est(it)
    a = smt.Select(M.vals, S(b"MemAvailable:"))
    use_kernel = And(smt.Select(M.pres, S(b"MemAvailable:")), Not(Eq(a, I(0))))
    return Ite(use_kernel, a, it.term(h_est(it)))


def h_missing(it, M):
    """names the warning must mention, in the order the statement lists the metrics"""
    return None


VM_HELPERS = dict(HELPERS, est=h_est, raw_avail=h_raw_avail)

MEMLOOP = LoopSpec(inv=["map_is(mems, P(_i), Vv(_i))"], havoc={"mems": ("Map", "Bytes", "Int")})

VM_ENSURES = [
    "result.total == M[b'MemTotal:']",
    "result.free == M[b'MemFree:']",
    "result.buffers == get(M, b'Buffers:', 0)",
    "result.cached == ite(has(M, b'Cached:'), M[b'Cached:'] + get(M, b'SReclaimable:', 0), 0)",
    "result.shared == ite(has(M, b'Shmem:'), M[b'Shmem:'], get(M, b'MemShared:', 0))",
    "result.active == get(M, b'Active:', 0)",
    "result.inactive == ite(has(M, b'Inactive:'), M[b'Inactive:'], "
    "ite(has(M, b'Inact_dirty:') and has(M, b'Inact_clean:') and has(M, b'Inact_laundry:'), "
    "M[b'Inact_dirty:'] + M[b'Inact_clean:'] + M[b'Inact_laundry:'], 0))",
    "result.slab == get(M, b'Slab:', 0)",
    # used = total-free-cached-buffers, total-free when that is negative
    "result.used == ite(result.total - result.free - result.cached - result.buffers < 0, "
    "result.total - result.free, result.total - result.free - result.cached - result.buffers)",
    # available = kernel estimate (fallback estimate when absent or zero) forced into [0, total]
    "result.available == ite(raw_avail(M) < 0, 0, ite(raw_avail(M) > result.total, result.free, raw_avail(M)))",
    "implies(result.free <= result.total, 0 <= result.available and result.available <= result.total)",
    # percent = (total-available)/total*100 rounded to one decimal
    "implies(result.total == 0, result.percent == 0.0)",
    "implies(result.total != 0, abs(result.percent * result.total - 100 * (result.total - result.available)) "
    "<= 0.05 * result.total)",
    "implies(result.free <= result.total, 0 <= result.percent and result.percent <= 100)",
    # warnings name exactly the metrics that were set to 0 for lack of data (slab excepted)
    "implies(not has(M, b'Buffers:'), len(warned(log)) == 1 and 'buffers' in warned(log)[0])",
    "implies(not has(M, b'Cached:'), len(warned(log)) == 1 and 'cached' in warned(log)[0])",
    "implies(not has(M, b'Shmem:') and not has(M, b'MemShared:'), len(warned(log)) == 1 and 'shared' in warned(log)[0])",
    "implies(not has(M, b'Active:'), len(warned(log)) == 1 and 'active' in warned(log)[0])",
    "implies(has(M, b'Buffers:') and has(M, b'Cached:') and (has(M, b'Shmem:') or has(M, b'MemShared:')) "
    "and has(M, b'Active:') and (has(M, b'Inactive:') or (has(M, b'Inact_dirty:') and has(M, b'Inact_clean:') "
    "and has(M, b'Inact_laundry:'))) and raw_avail(M) >= 0, len(warned(log)) == 0)",
]

REGISTRY.add(Contract(
    "C08", LINUX_PY, "virtual_memory", setup=setup_vm, env=dict(BASE_ENV), helpers=VM_HELPERS,
    loops={0: MEMLOOP},
    ensures=VM_ENSURES,
    raises={"KeyError": "not (has(M, b'MemTotal:') and has(M, b'MemFree:'))"},
    canaries=["result.used == result.total - result.free"],
    replay="c08:virtual_memory", max_paths=60000, parallel=True,
    note="every field follows the documented formula for any subset of optional meminfo keys"))


# ---------------------------------------------------------------------------
# _pslinux.swap_memory
# ---------------------------------------------------------------------------

def setup_swap(it, cfg):
    L, P, Vv, M = meminfo_setup(it)
    vm = it.fresh("vmstat_lines", ("Seq", "String"))
    n = smt.Len(vm)
    it.ctx.uf("py_split", ["String", "String"], ("Seq", "String"))
    it.ctx.uf("py_intval", ["String"], "Int")
    # grammar: at most one pswpin / pswpout line, at ghost indices iin / iout (-1: absent)
    iin = it.fresh("iin", "Int")
    iout = it.fresh("iout", "Int")
    vin = it.fresh("vin", "Int")
    vout = it.fresh("vout", "Int")
    it.ctx.counter["_q"] += 1
    j = T("Int", f"q{it.ctx.counter['_q']}_j")
    rng = And(smt.Cmp("<=", I(0), j), smt.Cmp("<", j, n))
    ws = f"(re.* {lib.ws_re()})"

    def starts(p, x):
        return smt.app("str.prefixof", "Bool", S(p), smt.Nth(vm, x))

    def tok1(x):
        return smt.Nth(smt.app("py_split", ("Seq", "String"), smt.Nth(vm, x), S(b" ")), I(1))

    def ntok(x):
        return smt.Len(smt.app("py_split", ("Seq", "String"), smt.Nth(vm, x), S(b" ")))

    it.assume(And(smt.Cmp("<=", I(-1), iin), smt.Cmp("<", iin, n), smt.Cmp("<=", I(-1), iout), smt.Cmp("<", iout, n),
                  smt.Cmp(">=", vin, I(0)), smt.Cmp(">=", vout, I(0))))
    it.forall_int(lambda jj: Implies(And(smt.Cmp("<=", I(0), jj), smt.Cmp("<", jj, n)),
                                     And(Eq(starts(b"pswpin", jj), Eq(jj, iin)),
                                         Eq(starts(b"pswpout", jj), Eq(jj, iout)))))
    dig = f"(re.++ {ws} {lib.digits_re()} {ws})"
    it.assume(Implies(smt.Cmp(">=", iin, I(0)), And(smt.Cmp(">=", ntok(iin), I(2)), lib.in_re(tok1(iin), dig),
                                                   Eq(smt.app("py_intval", "Int", tok1(iin)), vin))))
    it.assume(Implies(smt.Cmp(">=", iout, I(0)), And(smt.Cmp(">=", ntok(iout), I(2)), lib.in_re(tok1(iout), dig),
                                                    Eq(smt.app("py_intval", "Int", tok1(iout)), vout))))
    vm_ok = cfg["vmstat"]

    def vmstat(it2, path):
        if not vm_ok:
            it2.raise_(FileNotFoundError, errno=I(2))
        return SymFile(vm, "bytes")

    it.env_over.update(proc_file_env({"/meminfo": file_of(L), "/vmstat": vmstat}))
    it.env_over.update(warn_env())
    st = it.fresh("si_total", "Int")
    sf = it.fresh("si_free", "Int")
    su = it.fresh("si_unit", "Int")
    it.assume(And(smt.Cmp(">=", st, I(0)), smt.Cmp(">=", sf, I(0)), smt.Cmp(">=", su, I(1))))

    def sysinfo(it2):
        return (I(0), I(0), I(0), I(0), st, sf, su)

    it.env_over["_pslinux.cext"] = ModuleStub({"linux_sysinfo": EnvFunc("linux_sysinfo", sysinfo)})
    return {"args": {}, "spec": {"M": M, "P": EnvFunc("P", lambda it2, x: P(x)), "Vv": EnvFunc("Vv", lambda it2, x: Vv(x)),
                                  "iin": iin, "iout": iout, "vin": vin, "vout": vout, "vm_ok": vm_ok,
                                  "si_total": smt.Mul(st, su), "si_free": smt.Mul(sf, su)},
            "values": model_names(it, M, [b"SwapTotal:", b"SwapFree:"]) + [iin, iout, vin, vout, st, sf, su]}


class ModuleStub:
    def __init__(self, attrs):
        self.attrs = attrs

    def vc_getattr(self, it, name):
        if name in self.attrs:
            return self.attrs[name]
        it.raise_(AttributeError, name)


SWAP_LOOP1 = LoopSpec(
    havoc={"sin": ("Opt", "Int"), "sout": ("Opt", "Int")},
    inv=[
        # a value is recorded exactly when its line lies among the lines read so far
        "(sin is None) == (not (0 <= iin and iin < _i))",
        "(sout is None) == (not (0 <= iout and iout < _i))",
        "sin is None or sout is None",     # otherwise the loop would have been left by 'break'
        "implies(0 <= iin and iin < _i, sin == vin * 4096)",
        "implies(0 <= iout and iout < _i, sout == vout * 4096)",
    ])

REGISTRY.add(Contract(
    "C08", LINUX_PY, "swap_memory", setup=setup_swap, configs=[{"vmstat": True}, {"vmstat": False}],
    env=dict(BASE_ENV), helpers=dict(HELPERS),
    loops={0: MEMLOOP, 1: SWAP_LOOP1},
    ensures=[
        "implies(has(M, b'SwapTotal:') and has(M, b'SwapFree:'), result.total == M[b'SwapTotal:'] and result.free == M[b'SwapFree:'])",
        "implies(not (has(M, b'SwapTotal:') and has(M, b'SwapFree:')), result.total == si_total and result.free == si_free)",
        "result.used == result.total - result.free",
        "implies(result.total == 0, result.percent == 0.0)",
        "implies(result.total != 0, abs(result.percent * result.total - 100 * result.used) <= 0.05 * result.total)",
        "implies(result.free <= result.total, 0 <= result.percent and result.percent <= 100)",
        # cumulative swapped-in/out bytes: 4 KiB pages
        "implies(vm_ok and iin >= 0 and iout >= 0, result.sin == vin * 4096 and result.sout == vout * 4096)",
        # missing counters: 0 for both and one warning
        "implies((not vm_ok) or iin < 0 or iout < 0, result.sin == 0 and result.sout == 0 and len(warned(log)) == 1)",
        "implies(vm_ok and iin >= 0 and iout >= 0, len(warned(log)) == 0)",
    ],
    canaries=["result.used == 0"],
    replay="c08:swap_memory",
    note="total/free/used/percent and cumulative swap-in/out bytes; fall-backs when keys or vmstat are missing"))
