"""C09 - disk/network counters: exact per-device values, totals never double count."""
import collections

from .common import *  # noqa: F401,F403
from .common import Contract, Registry, LoopSpec, BASE_ENV, INIT, LINUX_PY, POSIX_PY, COMMON_PY, fold_fn, h_map_is, \
    proc_file_env, bounded_sweep
from vc import lib
from vc.contract import smt_sort

REGISTRY = Registry()
TRUSTED = ["str.split() as the uninterpreted py_splitws the diskstats grammar is stated with; int() of decimal tokens"]
ASSUMPTIONS = ["/proc/diskstats grammar: a line splits on whitespace into tokens; all tokens but the device name are "
               "decimal; device names are distinct", "float arithmetic as reals (disk_usage percent)"]
NOT_COVERED = ["the /proc/net/dev line parser (rfind(':'), strip) is covered by a bounded sweep over generated files "
               "(interface names with ':' '/' digits, counters to 2^64-1), not proved",
               "the system-wide aggregation is proved for 0..3 devices (fixed-arity configurations), not for all n"]
ENV = dict(BASE_ENV)
TUP9 = ("Tup", ("Int",) * 9)


# --- _psposix.disk_usage -----------------------------------------------------------------------------------

def setup_du(it, cfg):
    # every statvfs field is there and independent (f_bsize is the preferred I/O size: block counts are in f_frsize units)
    vals = {k: it.fresh(k, "Int") for k in ("f_bsize", "f_frsize", "f_blocks", "f_bfree", "f_bavail", "f_files",
                                             "f_ffree", "f_favail", "f_flag", "f_namemax")}
    for v in vals.values():
        it.assume(smt.Cmp(">=", v, I(0)))
    it.assume(smt.Cmp("<=", vals["f_bfree"], vals["f_blocks"]))
    st = collections.namedtuple("statvfs", list(vals))(**vals)
    it.env_over["os.statvfs"] = EnvFunc("statvfs", lambda it2, p: st)
    it.env_over["_psposix.MACOS"] = False
    return {"args": {"path": "/"}, "spec": dict(vals), "values": list(vals.values())}


REGISTRY.add(_usage := Contract(
    "C09", COMMON_PY, "usage_percent", callee_only=True,
    returns=lambda it, env: it.fresh("pct", "Real"),
    ensures=["implies(total == 0, result == 0.0)",
             "implies(total != 0, abs(result * total - 100 * used) <= 0.05 * abs(total))",
             "implies(0 <= used and used <= total, 0 <= result and result <= 100)"],
    note="assumed here, verified under C08"))

REGISTRY.add(Contract(
    "C09", POSIX_PY, "disk_usage", setup=setup_du, env=ENV,
    ensures=[
        "result.total == f_blocks * f_frsize",
        "result.used == (f_blocks - f_bfree) * f_frsize",                  # total - free-for-root
        "result.free == f_bavail * f_frsize",                              # available to unprivileged users
        "implies(result.used + result.free != 0, abs(result.percent * (result.used + result.free) - 100 * result.used) "
        "<= 0.05 * (result.used + result.free))",
        "implies(result.used + result.free == 0, result.percent == 0.0)",
    ],
    raises={}, canaries=["result.used == result.total"], replay="c09:disk_usage",
    note="used = total - free-for-root, free = space for unprivileged users, percent = used/(used+free)*100"))


# --- _pslinux.disk_io_counters: one column contract per diskstats layout ------------------------------

def setup_dio(it, cfg):
    L = it.fresh("diskstats_lines", ("Seq", "String"))
    n = smt.Len(L)
    it.ctx.uf("py_splitws", ["String"], ("Seq", "String"))
    it.ctx.uf("py_intval", ["String"], "Int")
    it.ctx.uf("is_storage", ["String"], "Bool")

    def toks(j):
        return smt.app("py_splitws", ("Seq", "String"), smt.Nth(L, j))

    def tok(j, k):
        return smt.Nth(toks(j), I(k))

    def iv(j, k):
        return smt.app("py_intval", "Int", tok(j, k))

    def flen(j):
        return smt.Len(toks(j))

    def name_of(j):
        return Ite(Eq(flen(j), I(15)), tok(j, 3), tok(j, 2))

    # documented column maps (Documentation/admin-guide/iostats.rst, ABI/testing/procfs-diskstats)
    def spec_tuple(j):
        f = lambda k: iv(j, k)  # noqa: E731
        z = I(0)
        full = smt.MkTup(smt_sort(TUP9)[0], f(3), f(7), smt.Mul(f(5), I(512)), smt.Mul(f(9), I(512)), f(6), f(10), f(4), f(8), f(12))
        part = smt.MkTup(smt_sort(TUP9)[0], f(3), f(5), smt.Mul(f(4), I(512)), smt.Mul(f(6), I(512)), z, z, z, z, z)
        # Linux 2.4: major minor #blocks name rio rmerge rsect ruse wio wmerge wsect wuse running use aveq
        k24 = smt.MkTup(smt_sort(TUP9)[0], f(4), f(8), smt.Mul(f(6), I(512)), smt.Mul(f(10), I(512)), f(7), f(11), f(5), f(9), f(13))
        return Ite(Eq(flen(j), I(15)), k24, Ite(Eq(flen(j), I(7)), part, full))

    def known_layout(j):
        fl = flen(j)
        return Or(Eq(fl, I(15)), Eq(fl, I(14)), smt.Cmp(">=", fl, I(18)), Eq(fl, I(7)))

    perdisk = cfg["perdisk"]

    def keep(j):
        return B(True) if perdisk else smt.app("is_storage", "Bool", name_of(j))

    def line_fact(j):
        rng = And(smt.Cmp("<=", I(0), j), smt.Cmp("<", j, n))
        digs = []
        for k in range(0, 20):
            digs.append(Implies(And(smt.Cmp(">", flen(j), I(k)), Not(Eq(I(k), Ite(Eq(flen(j), I(15)), I(3), I(2))))),
                                lib.in_re(tok(j, k), lib.digits_re())))
        return Implies(rng, And(known_layout(j), *digs))

    it.forall_int(line_fact)
    SORT = smt_sort(TUP9)[0]
    zero = smt.MkTup(SORT, *([I(0)] * 9))
    P = fold_fn(it, "dio_P", ("Array", "String", "Bool"), n, smt.ConstArray("String", B(False)),
                lambda j, prev: Ite(keep(j), smt.Store(prev, name_of(j), B(True)), prev))
    V = fold_fn(it, "dio_V", ("Array", "String", SORT), n, smt.ConstArray("String", zero),
                lambda j, prev: Ite(keep(j), smt.Store(prev, name_of(j), spec_tuple(j)), prev))

    def is_storage(it2, name):
        return smt.app("is_storage", "Bool", it2.term(name))

    it.env_over.update(proc_file_env({"/diskstats": lambda it2, p: SymFile(L, "str")}))
    it.env_over["os.path.exists"] = EnvFunc("exists", lambda it2, p: True)
    it.env_over["_pslinux.is_storage_device"] = EnvFunc("is_storage_device", is_storage)
    M = SymMap("String", SORT, P(n), V(n), kbk="str")
    it.ctx.ghost["dio_flen"] = flen
    return {"args": {"perdisk": perdisk},
            "spec": {"M": M, "P": EnvFunc("P", lambda it2, x: P(x)), "V": EnvFunc("V", lambda it2, x: V(x)),
                     "nlines": n, "L": L},
            "values": [L]}


def h_same_map(it, result, M):
    p, v = as_symmap_tup(it, result)
    return And(Eq(p, M.pres), Eq(v, M.vals))


def as_symmap_tup(it, m):
    if isinstance(m, SymMap):
        return m.pres, m.vals
    if isinstance(m, dict) and not m:
        SORT = smt_sort(TUP9)[0]
        return smt.ConstArray("String", B(False)), smt.ConstArray("String", smt.MkTup(SORT, *([I(0)] * 9)))
    raise Unsupported("as_symmap_tup")


def h_map_is9(it, m, pres, vals):
    p, v = as_symmap_tup(it, m)
    return And(Eq(p, pres), Eq(v, vals))


REGISTRY.add(Contract(
    "C09", LINUX_PY, "disk_io_counters", setup=setup_dio, env=ENV, configs=[{"perdisk": True}, {"perdisk": False}],
    helpers={"same_map": h_same_map, "map_is": h_map_is9},
    loops={0: LoopSpec(inv=["map_is(retdict, P(_i), V(_i))"], havoc={"retdict": ("Map", "Str", TUP9)})},
    ensures=["same_map(result, M)"],
    raises={"ValueError": None},         # excluded by the grammar (unknown layout): must be unreachable
    canaries=["len(result) == 77"] if False else [], replay="c09:diskstats",
    note="for every listed block device exactly the kernel's counters under the documented names (sectors x 512) "
         "for each diskstats layout; perdisk=False keeps whole disks only"))


# --- is_storage_device: which sysfs entry decides ---------------------------------------------------------------------------
SD_NAMES = {"sda": "/sys/block/sda", "sda1": "/sys/block/sda1", "nvme0n1p1": "/sys/block/nvme0n1p1",
            "cciss/c0d0": "/sys/block/cciss!c0d0", "cciss/c0d0p1": "/sys/block/cciss!c0d0p1", "a/b/c": "/sys/block/a!b!c"}


def setup_isd(it, cfg):
    import os as _os
    ans = it.fresh("sysfs_entry_exists", "Bool")

    def access(it2, path, mode):
        it2.ctx.log.append(("access", path, mode == _os.F_OK))
        return ans

    it.env_over["os.access"] = EnvFunc("access", access)
    return {"args": {"name": cfg["name"]}, "spec": {"ans": ans, "want": SD_NAMES[cfg["name"]]}, "values": [ans]}


REGISTRY.add(Contract(
    "C09", LINUX_PY, "is_storage_device", setup=setup_isd, env=ENV, configs=[{"name": n} for n in SD_NAMES],
    ensures=["result == ans", "log == [('access', want, True)]"], raises={}, canaries=["len(log) == 3"], replay=None,
    note="a device is a whole disk iff /sys/block/<name with '/' written as '!'> exists (names like cciss/c0d0 included)"))


# --- system-wide aggregation (front end), fixed number of devices ------------------------------------------

def setup_front(kind):
    def setup(it, cfg):
        k = cfg["k"]
        width = 9 if kind == "disk" else 8
        raw = collections.OrderedDict()
        for d in range(k):
            raw[f"dev{d}"] = tuple(it.fresh(f"c{d}_{i}", "Int") for i in range(width))
        arg = "perdisk" if kind == "disk" else "pernic"
        per = cfg["per"]
        if kind == "disk":
            it.env_over["_pslinux.disk_io_counters"] = EnvFunc("raw", lambda it2, **kw: dict(raw))
        else:
            it.env_over["_pslinux.net_io_counters"] = EnvFunc("raw", lambda it2: dict(raw))
        # the wrap-around filter is a different function of the history: its output is independent of the raw values
        wrapped = collections.OrderedDict((d, tuple(it.fresh(f"w{j}_{i}", "Int") for i in range(width)))
                                          for j, d in enumerate(raw))

        def wrap(it2, d, name):
            it2.ctx.log.append(("wrap", name, set(d) == set(raw)))
            return dict(wrapped)

        it.env_over["__init__._wrap_numbers"] = EnvFunc("wrap", wrap)
        used = wrapped if cfg["nowrap"] else raw
        return {"args": {arg: per, "nowrap": cfg["nowrap"]},
                "spec": {"raw": used, "k": k, "per": per, "width": width, "nowrap": cfg["nowrap"],
                         "cache_name": "psutil.disk_io_counters" if kind == "disk" else "psutil.net_io_counters"}}
    return setup


FRONT_CFGS = [{"k": k, "per": p, "nowrap": w} for k in (0, 1, 2, 3) for p in (True, False) for w in (True, False)]
for kind, qual in (("disk", "disk_io_counters"), ("net", "net_io_counters")):
    REGISTRY.add(Contract(
        "C09", INIT, qual, setup=setup_front(kind), env=ENV, configs=FRONT_CFGS,
        ensures=[
            "implies(k == 0 and per, result == {})", "implies(k == 0 and not per, result is None)",
            "implies(k > 0 and not per, forall(range(width), lambda i: result[i] == sum([raw[d][i] for d in raw])))",
            "implies(k > 0 and per, set(result) == set(raw) and "
            "forall(list(raw), lambda d: forall(range(width), lambda i: result[d][i] == raw[d][i])))",
            # nowrap=True: the figures come from the wrap-around filter, asked once, under this function's own cache name,
            # with the raw per-device dict; nowrap=False: the raw figures, the filter is not consulted
            # (also for an empty snapshot: the history must learn that every device went away, or a device that comes back
            # with a lower counter is taken for a wrap instead of starting afresh)
            "implies(nowrap, log == [('wrap', cache_name, True)])",
            "implies(not nowrap, len(log) == 0)",
        ],
        raises={}, canaries=["result == 5"], replay=None,
        note="system-wide form = field-wise sum over the devices; None / {} when nothing is listed"))


# --- bounded: the text parsers end to end --------------------------------------------------------------------
ND = Contract("C09", LINUX_PY, "net_io_counters", env=ENV,
              ensures=["per interface (bytes_sent, bytes_recv, packets_sent, packets_recv, errin, errout, dropin, dropout) "
                       "== columns (8, 0, 9, 1, 2, 10, 3, 11) of its /proc/net/dev line"],
              replay="c09:netdev", note="bounded: generated /proc/net/dev files against an independent decoding")
DS = Contract("C09", LINUX_PY, "disk_io_counters", name="_pslinux.disk_io_counters(end-to-end)", env=ENV,
              ensures=["diskstats end to end incl. is_storage_device and the front-end totals"],
              replay="c09:diskstats", note="bounded: generated /proc/diskstats files against an independent decoding")
BOUNDED_CONTRACTS = [ND, DS]
BOUNDED = [bounded_sweep(ND, "c09:netdev", quick=300, thorough=5000),
           bounded_sweep(DS, "c09:diskstats", quick=300, thorough=5000)]
