"""C19 - sensors, battery, CPU frequency/count, boot time mirror the kernel's tables."""
import collections

from .common import *  # noqa: F401,F403
from .common import Contract, Registry, LoopSpec, BASE_ENV, INIT, LINUX_PY, COMMON_PY, proc_file_env
from vc import lib
from vc.interp import PyRaise, ExcVal

REGISTRY = Registry()
TRUSTED = ["sysfs oracle: glob() returns the present paths of a layout; reading a file succeeds with a decimal figure, "
           "fails with OSError, or (thresholds) yields non-numeric text",
           "float arithmetic as reals; int() truncation exact"]
ASSUMPTIONS = ["hardware trees are checked for a fixed family of layouts (flat, nested, mixed, thermal zones with trip "
               "points, battery file-name variants); every figure in them is symbolic"]
NOT_COVERED = ["layouts outside the listed family (the glob/dirname plumbing is concrete per layout)"]
ENV = dict(BASE_ENV)
ENV["_common.POWER_TIME_UNLIMITED"] = -2
ENV["_common.POWER_TIME_UNKNOWN"] = -1


# --- psutil.sensors_temperatures (front end): Fahrenheit conversion and threshold back-fill -----------------

def opt_real(it, name, mode):
    if mode == "none":
        return None
    v = it.fresh(name, "Real")
    if mode == "zero":
        return 0.0
    return v


def setup_temps_front(it, cfg):
    cur = it.fresh("current", "Real")
    high = opt_real(it, "high", cfg["high"])
    crit = opt_real(it, "critical", cfg["crit"])
    raw = {"chip": [("label", cur, high, crit)]}
    it.env_over["_pslinux.sensors_temperatures"] = EnvFunc("raw", lambda it2: {k: list(v) for k, v in raw.items()})
    return {"args": {"fahrenheit": cfg["f"]},
            "spec": {"cur": cur, "high": high, "crit": crit, "f": cfg["f"]}, "values": [cur]}


def h_conv(it, v, f):
    if v is None:
        return None
    if not f:
        return v
    return it.binop("Add", it.binop("Div", it.binop("Mult", it.lib.py_float(it, v), 9), 5), 32)


def h_truthy(it, v):
    if v is None:
        return False
    if is_t(v):
        return Not(Eq(v, R(0)))
    return bool(v)


REGISTRY.add(Contract(
    "C19", INIT, "sensors_temperatures", setup=setup_temps_front, env=ENV, inline=["convert"],
    configs=[{"f": f, "high": h, "crit": c} for f in (False, True) for h in ("none", "some") for c in ("none", "some")],
    helpers={"conv": h_conv},
    ensures=[
        "set(result) == {'chip'} and len(result['chip']) == 1",
        "result['chip'][0].current == conv(cur, f)",
        "implies(high is not None, result['chip'][0].high == conv(high, f) or (crit is not None and conv(high, f) == 0))",
        # a missing threshold is filled from the other one
        "implies(high is None and crit is not None and conv(crit, f) != 0, result['chip'][0].high == conv(crit, f))",
        "implies(crit is None and high is not None and conv(high, f) != 0, result['chip'][0].critical == conv(high, f))",
        "implies(high is None and crit is None, result['chip'][0].high is None and result['chip'][0].critical is None)",
    ],
    raises={}, canaries=["result == {}"], replay=None,
    note="Fahrenheit = C*9/5+32, None preserved, missing high/critical filled from the other"))


# --- psutil.cpu_freq: mean over CPUs ------------------------------------------------------------------------------

FREQ = collections.namedtuple("scpufreq", ["current", "min", "max"])


def setup_freq(it, cfg):
    n = cfg["n"]
    cpus = []
    for k in range(n):
        cur = it.fresh(f"cur{k}", "Real")
        if cfg["minmax"]:
            cpus.append(FREQ(cur, it.fresh(f"min{k}", "Real"), it.fresh(f"max{k}", "Real")))
        else:
            cpus.append(FREQ(cur, None, None))
    it.env_over["_pslinux.cpu_freq"] = EnvFunc("cpu_freq", lambda it2: list(cpus))
    it.env_over["_common.scpufreq"] = FREQ
    return {"args": {"percpu": cfg["percpu"]}, "spec": {"cpus": cpus, "n": n, "percpu": cfg["percpu"], "mm": cfg["minmax"]}}


REGISTRY.add(Contract(
    "C19", INIT, "cpu_freq", setup=setup_freq, env=ENV,
    configs=[{"n": n, "percpu": p, "minmax": m} for n in (0, 1, 2, 3) for p in (False, True) for m in (True, False)],
    ensures=[
        "implies(percpu, result == cpus)",
        "implies(not percpu and n == 0, result is None)",
        "implies(not percpu and n == 1, result == cpus[0])",
        "implies(not percpu and n > 1, result.current * n == sum([c.current for c in cpus]))",        # the mean over CPUs
        "implies(not percpu and n > 1 and mm, result.min * n == sum([c.min for c in cpus]) and result.max * n == sum([c.max for c in cpus]))",
        "implies(not percpu and n > 1 and not mm, result.min is None and result.max is None)",
    ],
    raises={}, canaries=["result == 5"], replay=None, note="cpu_freq() without percpu is the mean over CPUs; None for zero CPUs"))


def setup_count(it, cfg):
    v = it.fresh("platform_count", "Int") if cfg["kind"] == "int" else None
    it.env_over["_pslinux.cpu_count_logical"] = EnvFunc("l", lambda it2: v)
    it.env_over["_pslinux.cpu_count_cores"] = EnvFunc("c", lambda it2: v)
    return {"args": {"logical": cfg["logical"]}, "spec": {"v": v}, "values": [v] if v is not None else []}


REGISTRY.add(Contract(
    "C19", INIT, "cpu_count", setup=setup_count, env=ENV,
    configs=[{"kind": k, "logical": l} for k in ("int", "none") for l in (True, False)],
    ensures=["implies(v is None, result is None)", "implies(v is not None and v >= 1, result == v)",
             "implies(v is not None and v < 1, result is None)"],
    raises={}, canaries=["result == 0"], replay=None, note="a count below 1 is reported as None"))


# --- _pslinux.sensors_battery ----------------------------------------------------------------------------------------

class SysFS:
    """files: {path: ('int', term) | ('text', str) | ('missing',)}"""

    def __init__(self, it, files, dirs=None, globs=None):
        self.it, self.files, self.dirs, self.globs = it, files, dirs or {}, globs or {}

    def bcat(self, it, path, *a, **kw):
        if a:
            kw["fallback"] = a[0]
        has_fb = "fallback" in kw
        ent = self.files.get(path, ("missing",))
        if ent[0] == "missing" or ent[0] == "oserror":
            if has_fb:
                return kw["fallback"]
            it.raise_(FileNotFoundError if ent[0] == "missing" else PermissionError, errno=I(2))
        if ent[0] == "int":
            it.ctx.uf("py_intval", ["String"], "Int")
            s = it.fresh("file_text", "String", "bytes")
            it.ctx.assume(lib.in_re(s, lib.digits_re()))
            it.ctx.assume(Eq(smt.app("py_intval", "Int", s), ent[1]))
            return s
        if ent[0] == "text":
            return ent[1]
        raise Unsupported("sysfs entry")

    def cat(self, it, path, *a, **kw):
        if a:
            kw["fallback"] = a[0]
        ent = self.files.get(path, ("missing",))
        if ent[0] in ("missing", "oserror"):
            if "fallback" in kw:
                return kw["fallback"]
            it.raise_(FileNotFoundError, errno=I(2))
        if ent[0] == "int":
            v = self.bcat(it, path)
            return T("String", v.sx, "str")
        return ent[1] if isinstance(ent[1], str) else ent[1].decode()

    def install(self):
        it = self.it
        it.env_over["_pslinux.bcat"] = EnvFunc("bcat", self.bcat)
        it.env_over["_pslinux.cat"] = EnvFunc("cat", self.cat)
        it.env_over["os.listdir"] = EnvFunc("listdir", lambda it2, p: list(self.dirs.get(p, [])))
        it.env_over["glob.glob"] = EnvFunc("glob", lambda it2, pat: list(self.globs.get(pat, [])))
        return self


PS = "/sys/class/power_supply"


def setup_battery(it, cfg):
    now, full, power = it.fresh("energy_now", "Int"), it.fresh("energy_full", "Int"), it.fresh("power_now", "Int")
    cap, tte = it.fresh("capacity", "Int"), it.fresh("time_to_empty", "Int")
    for v in (now, full, power):
        it.assume(smt.Cmp(">=", v, I(0)))
    it.assume(And(smt.Cmp("<=", I(0), cap), smt.Cmp("<=", cap, I(100))))
    files = {}
    root = f"{PS}/BAT0"
    if cfg["names"] == "energy":
        files.update({f"{root}/energy_now": ("int", now), f"{root}/energy_full": ("int", full), f"{root}/power_now": ("int", power)})
    elif cfg["names"] == "charge":
        files.update({f"{root}/charge_now": ("int", now), f"{root}/charge_full": ("int", full), f"{root}/current_now": ("int", power)})
    elif cfg["names"] == "both":
        # a battery exposing the energy_* (uWh) AND the charge_* (uAh) files: the energy figures are the ones to use
        # together (mixing units gives nonsense); the charge figures are independent symbols
        cnow, cfull, ccur = it.fresh("charge_now", "Int"), it.fresh("charge_full", "Int"), it.fresh("current_now", "Int")
        for v in (cnow, cfull, ccur):
            it.assume(smt.Cmp(">=", v, I(0)))
        files.update({f"{root}/energy_now": ("int", now), f"{root}/energy_full": ("int", full), f"{root}/power_now": ("int", power),
                      f"{root}/charge_now": ("int", cnow), f"{root}/charge_full": ("int", cfull), f"{root}/current_now": ("int", ccur)})
    elif cfg["names"] == "capacity":
        files[f"{root}/capacity"] = ("int", cap)
        files[f"{root}/time_to_empty_now"] = ("int", tte)
    if cfg["ac"] == "online1":
        files[f"{PS}/AC0/online"] = ("text", b"1\n")
    elif cfg["ac"] == "online0":
        files[f"{PS}/AC/online"] = ("text", b"0\n")
    elif cfg["ac"] in ("discharging", "charging", "full", "unknown"):
        files[f"{root}/status"] = ("text", cfg["ac"].capitalize() + "\n")
    bats = [] if cfg["names"] == "nobattery" else ["BAT0", "AC0"]
    SysFS(it, files, dirs={PS: bats}).install()
    it.env_over["_pslinux.POWER_SUPPLY_PATH"] = PS
    return {"args": {}, "spec": {"now": now, "full": full, "power": power, "cap": cap, "tte": tte, "names": cfg["names"],
                                  "ac": cfg["ac"], "UNLIMITED": -2, "UNKNOWN": -1},
            "values": [now, full, power, cap, tte]}


BAT_CFGS = [{"names": n, "ac": a} for n in ("energy", "charge", "both", "capacity", "nobattery", "nothing")
            for a in ("online1", "online0", "discharging", "charging", "full", "unknown", "absent")]

REGISTRY.add(Contract(
    "C19", LINUX_PY, "sensors_battery", setup=setup_battery, env=ENV, configs=BAT_CFGS, inline=["multi_bcat"],
    ensures=[
        "implies(names in ('nobattery', 'nothing'), result is None)",
        # percent = now/full*100 (0.0 for a zero 'full'), else the kernel's capacity figure
        "implies(names in ('energy', 'charge', 'both') and full != 0, result.percent * full == 100 * now)",
        "implies(names in ('energy', 'charge', 'both') and full == 0, result.percent == 0.0)",
        "implies(names == 'capacity', result.percent == cap)",
        # plugged: AC adapter file, else the battery's status
        "implies(names not in ('nobattery', 'nothing') and ac in ('online1', 'charging', 'full'), result.power_plugged == True and result.secsleft == UNLIMITED)",
        "implies(names not in ('nobattery', 'nothing') and ac in ('online0', 'discharging'), result.power_plugged == False)",
        "implies(names not in ('nobattery', 'nothing') and ac in ('unknown', 'absent'), result.power_plugged is None)",
        # seconds left = now/power*3600 unless on mains (UNLIMITED) or unknowable (UNKNOWN)
        "implies(names in ('energy', 'charge', 'both') and ac in ('online0', 'discharging', 'unknown', 'absent') and power != 0, "
        "result.secsleft * power <= now * 3600 and (result.secsleft + 1) * power > now * 3600)",
        "implies(names in ('energy', 'charge', 'both') and ac in ('online0', 'discharging', 'unknown', 'absent') and power == 0, "
        "result.secsleft == UNKNOWN)",
        "implies(names == 'capacity' and ac in ('online0', 'discharging', 'unknown', 'absent'), "
        "result.secsleft == ite(tte * 60 < 0, UNKNOWN, tte * 60))",
    ],
    raises={}, canaries=["result == 5"], replay=None,
    note="battery percent = now/full*100, seconds left = now/power*3600 unless on mains or unknowable; None without battery"))


# --- _pslinux.sensors_temperatures: layouts ----------------------------------------------------------------------------

HW = "/sys/class/hwmon"


def setup_temps(it, cfg):
    lay = cfg["layout"]
    files, globs = {}, {}
    vals = {}

    def sensor(base, name, unit, with_max=True, unreadable=False):
        v = it.fresh(f"{name}_input", "Int")
        vals[name] = v
        files[base + "_input"] = ("oserror",) if unreadable else ("int", v)
        files[base.rsplit("/", 1)[0] + "/name"] = ("text", unit + "\n")
        if with_max:
            mx = it.fresh(f"{name}_max", "Int")
            vals[name + "_max"] = mx
            files[base + "_max"] = ("int", mx)

    flat = [f"{HW}/hwmon0/temp1"]
    nested = [f"{HW}/hwmon1/device/temp1"]
    g_flat = f"{HW}/hwmon*/temp*_*"
    g_nested = f"{HW}/hwmon*/device/temp*_*"
    globs["/sys/devices/platform/coretemp.*/hwmon/hwmon*/temp*_*"] = []
    if lay in ("flat", "mixed", "flat_unreadable"):
        sensor(flat[0], "a", "acpitz", unreadable=(lay == "flat_unreadable"))
        globs[g_flat] = [flat[0] + "_input", flat[0] + "_max"]
    elif lay in ("flat_badmax", "flat_badcrit"):
        # one threshold file holds text that is not a number (some drivers print "N/A" or nothing): that threshold is unknown,
        # the other one is still reported
        sensor(flat[0], "a", "acpitz")
        cr = it.fresh("a_crit", "Int")
        vals["a_crit"] = cr
        files[flat[0] + "_crit"] = ("int", cr)
        files[flat[0] + ("_max" if lay == "flat_badmax" else "_crit")] = ("text", b"N/A")
        globs[g_flat] = [flat[0] + "_input", flat[0] + "_max", flat[0] + "_crit"]
    else:
        globs[g_flat] = []
    if lay in ("nested", "mixed"):
        sensor(nested[0], "b", "nvme", with_max=False)
        globs[g_nested] = [nested[0] + "_input"]
    else:
        globs[g_nested] = []
    if lay == "thermal":
        tz = "/sys/class/thermal/thermal_zone0"
        globs["/sys/class/thermal/thermal_zone*"] = [tz]
        t, c, h = it.fresh("tz_temp", "Int"), it.fresh("tz_crit", "Int"), it.fresh("tz_high", "Int")
        vals.update(tz=t, tz_crit=c, tz_high=h)
        files[tz + "/temp"] = ("int", t)
        files[tz + "/type"] = ("text", "x86_pkg_temp\n")
        globs[tz + "/trip_point*"] = [tz + "/trip_point_0_type", tz + "/trip_point_0_temp", tz + "/trip_point_1_type",
                                      tz + "/trip_point_1_temp"]
        files[tz + "/trip_point_0_type"] = ("text", "critical\n")
        files[tz + "/trip_point_0_temp"] = ("int", c)
        files[tz + "/trip_point_1_type"] = ("text", "high\n")
        files[tz + "/trip_point_1_temp"] = ("int", h)
    elif lay == "none":
        globs["/sys/class/thermal/thermal_zone*"] = []
    SysFS(it, files, globs=globs).install()
    return {"args": {}, "spec": dict(vals, lay=lay), "values": list(vals.values())}


REGISTRY.add(Contract(
    "C19", LINUX_PY, "sensors_temperatures", setup=setup_temps, env=ENV,
    configs=[{"layout": l} for l in ("flat", "nested", "mixed", "flat_unreadable", "flat_badmax", "flat_badcrit", "thermal",
                                     "none")],
    ensures=[
        "implies(lay == 'flat_badmax', len(result['acpitz']) == 1 and result['acpitz'][0][1] * 1000 == a "
        "and result['acpitz'][0][2] is None and result['acpitz'][0][3] * 1000 == a_crit)",
        "implies(lay == 'flat_badcrit', len(result['acpitz']) == 1 and result['acpitz'][0][1] * 1000 == a "
        "and result['acpitz'][0][2] * 1000 == a_max and result['acpitz'][0][3] is None)",
        "implies(lay == 'none', result == {})",
        "implies(lay == 'flat_unreadable', result == {})",                     # an unreadable sensor is skipped, the call succeeds
        "implies(lay in ('flat', 'mixed'), len(result['acpitz']) == 1 and result['acpitz'][0][1] * 1000 == a "
        "and result['acpitz'][0][2] * 1000 == a_max and result['acpitz'][0][3] is None)",
        "implies(lay in ('nested', 'mixed'), len(result['nvme']) == 1 and result['nvme'][0][1] * 1000 == b "
        "and result['nvme'][0][2] is None)",
        "implies(lay == 'mixed', set(result) == {'acpitz', 'nvme'})",          # either directory nesting, any number of chips
        "implies(lay == 'thermal', len(result['x86_pkg_temp']) == 1 and result['x86_pkg_temp'][0][1] * 1000 == tz "
        "and result['x86_pkg_temp'][0][3] * 1000 == tz_crit and result['x86_pkg_temp'][0][2] * 1000 == tz_high)",
    ],
    raises={}, canaries=["result == 5"], replay="c19:thermal",
    note="millidegrees scaled to degrees exactly once; unreadable sensors skipped; {} without sensors"))


# --- _pslinux.sensors_fans ---------------------------------------------------------------------------------------------

def setup_fans(it, cfg):
    lay = cfg["layout"]
    files, globs, vals = {}, {}, {}
    g_flat, g_nested = f"{HW}/hwmon*/fan*_*", f"{HW}/hwmon*/device/fan*_*"
    globs[g_flat], globs[g_nested] = [], []

    def fan(base, key, chip, readable=True, label=None):
        v = it.fresh(f"{key}_input", "Int")
        vals[key] = v
        files[base + "_input"] = ("int", v) if readable else ("oserror",)
        files[base.rsplit("/", 1)[0] + "/name"] = ("text", chip + "\n")
        if label is not None:
            files[base + "_label"] = ("text", label + "\n")

    if lay in ("flat", "two", "dead_and_live"):
        fan(f"{HW}/hwmon0/fan1", "a", "thinkpad", readable=(lay != "dead_and_live"), label="cpu fan")
        globs[g_flat] = [f"{HW}/hwmon0/fan1_input", f"{HW}/hwmon0/fan1_label"]
        if lay in ("two", "dead_and_live"):
            fan(f"{HW}/hwmon0/fan2", "b", "thinkpad")
            globs[g_flat] += [f"{HW}/hwmon0/fan2_input"]
    elif lay == "nested":
        fan(f"{HW}/hwmon1/device/fan1", "a", "dell_smm")
        globs[g_nested] = [f"{HW}/hwmon1/device/fan1_input"]
    elif lay == "dead":                  # the chip's only fan cannot be read
        fan(f"{HW}/hwmon0/fan1", "a", "deadchip", readable=False)
        globs[g_flat] = [f"{HW}/hwmon0/fan1_input"]
    elif lay == "dead_noname":           # ... and the chip has no name file either
        fan(f"{HW}/hwmon0/fan1", "a", "x", readable=False)
        del files[f"{HW}/hwmon0/name"]
        globs[g_flat] = [f"{HW}/hwmon0/fan1_input"]
    SysFS(it, files, globs=globs).install()
    return {"args": {}, "spec": dict(vals, lay=lay), "values": list(vals.values())}


REGISTRY.add(Contract(
    "C19", LINUX_PY, "sensors_fans", setup=setup_fans, env=ENV,
    configs=[{"layout": l} for l in ("none", "flat", "two", "nested", "dead", "dead_noname", "dead_and_live")],
    ensures=[
        "implies(lay in ('none', 'dead', 'dead_noname'), result == {})",      # nothing readable: {} (no empty chip entries)
        "implies(lay == 'flat', set(result) == {'thinkpad'} and len(result['thinkpad']) == 1 and "
        "result['thinkpad'][0].label == 'cpu fan' and result['thinkpad'][0].current == a)",
        "implies(lay == 'two', set(result) == {'thinkpad'} and len(result['thinkpad']) == 2 and "
        "result['thinkpad'][0].current == a and result['thinkpad'][1].current == b and result['thinkpad'][1].label == '')",
        "implies(lay == 'nested', set(result) == {'dell_smm'} and result['dell_smm'][0].current == a)",
        "implies(lay == 'dead_and_live', set(result) == {'thinkpad'} and len(result['thinkpad']) == 1 and "
        "result['thinkpad'][0].current == b)",
    ],
    raises={}, canaries=["result == 5"], replay=None,
    note="RPM of every readable fan under its chip; an unreadable fan is skipped, a chip with no readable fan does not "
         "appear; either directory nesting"))


# --- _pslinux.cpu_freq (sysfs variant): entry i describes CPU/policy i ---------------------------------------------------

def setup_pfreq(it, cfg):
    n = cfg["n"]
    base = "/sys/devices/system/cpu/cpufreq"
    # the directory listing comes back in an arbitrary order (here: reversed) and with two-digit numbers
    order = list(reversed(range(n)))
    paths = [f"{base}/policy{k}" for k in order]
    files, vals = {}, {}
    for k in range(n):
        cur, mn, mx = it.fresh(f"cur{k}", "Int"), it.fresh(f"min{k}", "Int"), it.fresh(f"max{k}", "Int")
        vals[k] = (cur, mn, mx)
        files[f"{base}/policy{k}/scaling_cur_freq"] = ("int", cur)
        files[f"{base}/policy{k}/scaling_min_freq"] = ("int", mn)
        files[f"{base}/policy{k}/scaling_max_freq"] = ("int", mx)
    SysFS(it, files, globs={f"{base}/policy[0-9]*": paths}).install()
    # /proc/cpuinfo "cpu MHz" values: none, one per CPU (then they are the current frequencies), or fewer than CPUs (an
    # offline CPU is missing from cpuinfo: the list cannot be matched to CPUs by position, the sysfs files are used)
    m = {"none": 0, "all": n, "short": max(0, n - 1)}[cfg.get("cpuinfo", "none")]
    mhz = [it.fresh(f"mhz{k}", "Int") for k in range(m)]
    it.env_over["_pslinux._cpu_get_cpuinfo_freq"] = EnvFunc("cpuinfo", lambda it2: list(mhz))
    use_info = cfg.get("cpuinfo") == "all"
    cur = {k: (smt.Mul(mhz[k], I(1000)) if use_info else vals[k][0]) for k in range(n)}
    return {"args": {}, "spec": {"vals": vals, "n": n, "cur": cur}, "values": [v for t in vals.values() for v in t] + mhz}


def in_cpufreq_world(node, guards):
    """the definition of _pslinux.cpu_freq in force on a machine that has the cpufreq sysfs directories: the module-level
    `if os.path.exists(...)` tests are evaluated (CPython) with exists() true for exactly those paths"""
    import ast as _ast
    import types
    fake_os = types.SimpleNamespace(path=types.SimpleNamespace(exists=lambda p: "cpufreq" in p))
    for test, pol in guards:
        try:
            v = eval(compile(_ast.Expression(test), "<guard>", "eval"), {"os": fake_os, "__builtins__": {}})
        except Exception:
            return False
        if bool(v) != pol:
            return False
    return True


REGISTRY.add(Contract(
    "C19", LINUX_PY, "cpu_freq", which=in_cpufreq_world, name="_pslinux.cpu_freq(sysfs)", setup=setup_pfreq, env=ENV,
    configs=[{"n": 1}, {"n": 3}, {"n": 12}, {"n": 3, "cpuinfo": "all"}, {"n": 3, "cpuinfo": "short"},
             {"n": 2, "cpuinfo": "short"}],
    ensures=["len(result) == n",
             "forall(range(n), lambda i: result[i].current * 1000 == cur[i] and result[i].min * 1000 == vals[i][1] "
             "and result[i].max * 1000 == vals[i][2])"],
    raises={}, canaries=["len(result) == 77"], replay=None,
    note="kHz files scaled to MHz; entry i is CPU i whatever order the directory listing has (numeric, not lexical: "
         "policy10 comes after policy9)"))


# --- boot_time / cpu_stats: line loops over /proc/stat ----------------------------------------------------------------

def setup_boot(it, cfg):
    L = it.fresh("stat_lines", ("Seq", "String"))
    n = smt.Len(L)
    ib = it.fresh("i_btime", "Int")
    bt = it.fresh("btime", "Int")
    has = cfg["has"]
    it.ctx.uf("py_strip", ["String"], "String")
    it.ctx.uf("py_splitws", ["String"], ("Seq", "String"))
    it.ctx.uf("py_intval", ["String"], "Int")
    if has:
        it.assume(And(smt.Cmp("<=", I(0), ib), smt.Cmp("<", ib, n), smt.Cmp(">=", bt, I(0))))
        toks = smt.app("py_splitws", ("Seq", "String"), smt.app("py_strip", "String", smt.Nth(L, ib)))
        it.assume(And(smt.Cmp(">=", smt.Len(toks), I(2)), lib.in_re(smt.Nth(toks, I(1)), lib.digits_re()),
                      Eq(smt.app("py_intval", "Int", smt.Nth(toks, I(1))), bt)))
    it.forall_int(lambda j: Implies(And(smt.Cmp("<=", I(0), j), smt.Cmp("<", j, n)),
                                    Eq(smt.app("str.prefixof", "Bool", S(b"btime"), smt.Nth(L, j)),
                                       Eq(j, ib) if has else B(False))), instances=[ib] if has else [])
    it.env_over.update(proc_file_env({"/stat": lambda it2, p: SymFile(L, "bytes")}))
    it.env_over["_pslinux.BOOT_TIME"] = None
    return {"args": {}, "spec": {"bt": bt, "has": has, "ib": ib}, "values": [bt]}


REGISTRY.add(Contract(
    "C19", LINUX_PY, "boot_time", setup=setup_boot, env=ENV, configs=[{"has": True}, {"has": False}],
    loops={0: LoopSpec(inv=["implies(has, _i <= ib)"])},
    ensures=["has", "result == bt"],
    raises={"RuntimeError": "not has"}, canaries=["result == 5"], replay=None,
    note="the 'btime' line of /proc/stat, RuntimeError when it is absent"))
