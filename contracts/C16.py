"""C16 - oneshot() and as_dict() change speed, never answers; safe across threads."""
from .common import *  # noqa: F401,F403
from .common import Contract, Registry, LoopSpec, BASE_ENV, INIT, LINUX_PY, COMMON_PY, bounded_sweep
from .frontproc import make_process, Lock
from vc.interp import PS_EXC, PyRaise, ExcVal, ModuleSrc, RepoFunc, BoundMethod, Frame

REGISTRY = Registry()
TRUSTED = ["volatile model of self._cache: every read/write/delete of the attribute may independently see it absent, "
           "empty, or holding the entry (another thread activating/deactivating between any two attribute operations); "
           "single attribute/dict operations are atomic (GIL)"]
ASSUMPTIONS = ["threading.RLock gives mutual exclusion for oneshot() itself"]
NOT_COVERED = ["that a value cached by another thread is 'valid at some moment of this call' (no thread model)",
               "interleavings of oneshot() enter/exit themselves (they run under the object's RLock)"]
ENV = dict(BASE_ENV)


# --- memoize_when_activated.<locals>.wrapper ----------------------------------------------------------

class Volatile:
    """attribute whose every access is decided by the scheduler"""

    def __init__(self, fun, cached):
        self.fun, self.cached = fun, cached

    def vc_read(self, it, obj, name):
        c = it.choose(3, "volatile _cache: absent/empty/holding")
        it.ctx.log.append(("read_cache", c))
        if c == 0:
            it.raise_(AttributeError, name)
        if c == 1:
            return {}
        return {self.fun: self.cached}

    def vc_write(self, it, obj, name, v):
        it.ctx.log.append(("write_cache",))

    def vc_delete(self, it, obj, name):
        if it.choose(2, "volatile del: present/absent") == 1:
            it.raise_(AttributeError, name)


def setup_memo(it, cfg):
    mod = ModuleSrc.get(COMMON_PY)
    dnode = mod.find("memoize_when_activated")
    wrapper = [s for s in dnode.body if getattr(s, "name", None) == "wrapper"][0]
    fresh_val = it.fresh("fun_result", "Int")
    cached_val = it.fresh("cached_value", "Int")
    outcome = cfg["fun"]

    def fun(it2, self_):
        it2.ctx.log.append(("fun",))
        if outcome == "raises":
            it2.raise_(PS_EXC["AccessDenied"][0], pid=I(1))
        return fresh_val

    funobj = EnvFunc("fun", fun)
    o = Obj("P", {}, module=None)
    mode = cfg["mode"]
    if mode == "inactive":
        pass
    elif mode == "active_empty":
        o.attrs["_cache"] = {}
    elif mode == "active_cached":
        o.attrs["_cache"] = {funobj: cached_val}
    else:
        o.attrs["_cache"] = Volatile(funobj, cached_val)
    return {"args": {"self": o}, "closure": {"fun": funobj},
            "spec": {"fresh": fresh_val, "cached": cached_val, "mode": mode, "outcome": outcome, "fun": funobj},
            "values": [fresh_val, cached_val]}


def h_calls(it, log):
    return len([e for e in log if e[0] == "fun"])


REGISTRY.add(Contract(
    "C16", COMMON_PY, "memoize_when_activated.<locals>.wrapper", setup=setup_memo, env=ENV,
    configs=[{"mode": m, "fun": f} for m in ("inactive", "active_empty", "active_cached", "volatile")
             for f in ("returns", "raises")],
    helpers={"ncalls": h_calls},
    ensures=[
        "implies(mode == 'inactive', result == fresh and ncalls(log) == 1 and not hasattr(self, '_cache'))",
        "implies(mode == 'active_cached', result == cached and ncalls(log) == 0)",             # source not read again
        "implies(mode == 'active_empty', result == fresh and ncalls(log) == 1 and self._cache[fun] == fresh)",
        # under arbitrary interference: a value produced by fun(self), or the cached one; source read at most once
        "implies(mode == 'volatile', (result == fresh and ncalls(log) == 1) or (result == cached and ncalls(log) == 0))",
    ],
    raises={"AccessDenied": ["outcome == 'raises'", "ncalls(log) == 1",
                             "implies(mode == 'active_empty', len(self._cache) == 0)"]},   # nothing stored on failure
    canaries=["result == 424242"], replay="c16:race",
    note="inactive: plain call; active: at most one read of the source per block; other threads entering/leaving a "
         "block between any two attribute operations never cause a spurious error"))


# --- Process.oneshot -----------------------------------------------------------------------------------------

def setup_oneshot(it, cfg):
    o = make_process(it)
    inner = o.attrs["_proc"]
    inner.module = ModuleSrc.get(LINUX_PY)
    nested = cfg["nested"]
    marker = {"outer": 1}
    if nested:
        o.attrs["_cache"] = marker
        inner.attrs["_cache"] = marker
    return {"args": {"self": o}, "spec": {"nested": nested, "marker": marker, "inner": inner}}


REGISTRY.add(Contract(
    "C16", INIT, "Process.oneshot", setup=setup_oneshot, env=ENV, configs=[{"nested": False}, {"nested": True}],
    yield_may_raise=True, inline=["oneshot_enter", "oneshot_exit", "cache_activate", "cache_deactivate"],
    ensures=[
        "len(result) == 1",                                                          # exactly one yield
        "implies(not nested, not hasattr(self, '_cache') and not hasattr(inner, '_cache'))",   # fresh data afterwards
        "implies(nested, self._cache is marker and inner._cache is marker)",        # nesting changes nothing
    ],
    raises={"RuntimeError": ["ghost.get('block_raised', False)",
                             "implies(not nested, not hasattr(self, '_cache') and not hasattr(inner, '_cache'))",
                             "implies(nested, self._cache is marker and inner._cache is marker)"]},
    canaries=["len(result) == 2"], replay="c16:oneshot",
    note="after the block exits - normally or by an exception - every cache (front end and platform) is dropped; "
         "a nested block is a no-op"))


# --- as_dict ------------------------------------------------------------------------------------------------

class OneshotStub:
    def vc_enter(self, it):
        it.ctx.log.append(("oneshot", "enter"))

    def vc_exit(self, it, exc):
        it.ctx.log.append(("oneshot", "exit"))


NAMES = {"pid", "name", "ppid", "status"}


def setup_as_dict(it, cfg):
    o = make_process(it)
    it.env_over["__init__._as_dict_attrnames"] = set(NAMES)
    o.attrs["oneshot"] = EnvFunc("oneshot", lambda it2: OneshotStub())
    vals = {n: it.fresh(f"val_{n}", "Int") for n in NAMES}
    behaviour = cfg["behaviour"]

    def mk(n):
        def meth(it2):
            it2.ctx.log.append(("query", n))
            b = behaviour if n == "name" else "value"
            if b == "denied":
                it2.raise_(PS_EXC["AccessDenied"][0], pid=o.attrs["_pid"])
            if b == "zombie":
                it2.raise_(PS_EXC["ZombieProcess"][0], pid=o.attrs["_pid"])
            if b == "gone":
                it2.raise_(PS_EXC["NoSuchProcess"][0], pid=o.attrs["_pid"])
            if b == "notimpl":
                it2.raise_(NotImplementedError, "n/a")
            return vals[n]
        return EnvFunc(n, meth)

    for n in NAMES - {"pid"}:
        o.attrs[n] = mk(n)
    attrs = cfg["attrs"]
    advalue = it.fresh("ad_value", "Int")
    arg = {"none": None, "list": ["name", "pid"], "empty": [], "bad": ["name", "bogus"], "str": "name",
           "tuple": ("ppid",), "set": {"status"}, "badset": {"name", "bogus"}, "badtuple": ("bogus",),
           "badfrozen": frozenset({"bogus"}),
           # iterables that are not collections (one-shot iterators, generators), and a non-iterable
           "iter": iter(["name"]), "gen": (n for n in ["name", "pid"]), "map": map(str, ["name"]), "int": 5,
           # falsy non-collections: rejected like any other non-collection, not mistaken for "no attrs given"
           "emptystr": "", "zero": 0, "false": False}[attrs]
    return {"args": {"self": o, "attrs": arg, "ad_value": advalue},
            "spec": {"vals": vals, "behaviour": behaviour, "mode": attrs, "adv": advalue, "NAMES": NAMES},
            "values": [advalue]}


def h_queries(it, log):
    return [e for e in log if e[0] == "query"]


AD_CFGS = [{"attrs": a, "behaviour": b} for a in ("none", "list", "empty", "bad", "str", "tuple", "set")
           for b in ("value", "denied", "zombie", "gone", "notimpl")] + \
          [{"attrs": a, "behaviour": "value"} for a in ("badset", "badtuple", "badfrozen", "iter", "gen", "map", "int", "emptystr", "zero", "false")]

REGISTRY.add(Contract(
    "C16", INIT, "Process.as_dict", setup=setup_as_dict, env=ENV, configs=AD_CFGS, inline=["pid"],
    helpers={"queries": h_queries},
    ensures=[
        "implies(mode in ('none', 'empty') and behaviour != 'notimpl', set(result) == NAMES)",
        "implies(mode in ('none', 'empty') and behaviour == 'notimpl', set(result) == NAMES - {'name'})",
        "implies(mode == 'list', set(result) == {'name', 'pid'})",
        "implies(mode == 'tuple', set(result) == {'ppid'})", "implies(mode == 'set', set(result) == {'status'})",
        "implies('pid' in result, result['pid'] == self._pid)",
        "implies('name' in result and behaviour == 'value', result['name'] == vals['name'])",
        "implies('name' in result and behaviour in ('denied', 'zombie'), result['name'] == adv)",
        "implies('ppid' in result, result['ppid'] == vals['ppid'])",
        "log[0] == ('oneshot', 'enter') and log[-1] == ('oneshot', 'exit')",
        # a dict comes back only for None or a collection of known names: everything else must have been rejected
        "mode in ('none', 'list', 'empty', 'tuple', 'set')",
    ],
    raises={
        "TypeError": ["mode in ('str', 'iter', 'gen', 'map', 'int', 'emptystr', 'zero', 'false')", "len(log) == 0"],                   # rejected before querying anything
        "ValueError": ["mode in ('bad', 'badset', 'badtuple', 'badfrozen')", "len(log) == 0"],   # whatever the collection type
        "NoSuchProcess": ["behaviour == 'gone'", "log[-1] == ('oneshot', 'exit')"],
        "NotImplementedError": ["behaviour == 'notimpl'", "mode == 'list'", "log[-1] == ('oneshot', 'exit')"],
    },
    canaries=["len(result) == 17"], replay=None,
    note="exactly the requested keys; ad_value for AccessDenied/ZombieProcess; NoSuchProcess propagates; unknown names "
         "(ValueError) and non-collections (TypeError) rejected before any query"))


# --- the shared per-process records are read-only for their users -----------------------------------------------------
# Inside a block the dict _parse_stat_file() returns IS the cached record every other method will read: a method that
# writes into it changes what later methods answer ("returns what it would return outside the block").
from . import C06 as _c06   # noqa: E402


def _stash_parsed(it, env):
    d = _c06.ret_parsed(it, env)
    it.ctx.ghost["parsed_dict"] = d
    it.ctx.ghost["parsed_snapshot"] = dict(d)
    return d


REGISTRY.add(Contract("C16", LINUX_PY, "Process._parse_stat_file", name="_parse_stat_file(shared record)", callee_only=True,
                      returns=_stash_parsed, raises={"NoSuchProcess": None, "ZombieProcess": None, "AccessDenied": None}))


def h_untouched(it):
    d, snap = it.ctx.ghost.get("parsed_dict"), it.ctx.ghost.get("parsed_snapshot")
    if d is None:
        return True
    return set(d) == set(snap) and all(d[k] is snap[k] for k in snap)


for _m in ("name", "ppid", "cpu_num", "status", "cpu_times"):
    REGISTRY.add(Contract(
        "C16", LINUX_PY, f"Process.{_m}", setup=_c06.setup_acc, env=ENV,
        helpers=dict(_c06.HELPERS, untouched=h_untouched), decorated=True, raises_any=True,
        inline=["_is_zombie", "_raise_if_zombie", "decode"],
        ensures=["untouched()"], canaries=[], replay=None,
        note="reads the shared stat record without modifying it"))
