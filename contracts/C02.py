"""C02 - Process ==, hash() and is_running() follow the process, not the PID."""
from .common import *  # noqa: F401,F403
from .common import reused_set_name
from .common import Contract, Registry, LoopSpec, BASE_ENV, INIT, LINUX_PY
from .frontproc import make_process, process_ctor_contract, observe
from .procenv import ProcEnv, linux_process, stat_record, parsed_stat, h_intval
from . import C06 as _c06
from vc.interp import ModuleSrc, PS_EXC

REGISTRY = Registry()
TRUSTED = ["process-table oracle (contracts/frontproc.py)", "stat record grammar (contracts/procenv.py)"]
ASSUMPTIONS = ["two processes never share pid AND start tick (the code's documented resolution assumption)",
               "Linux branch of the front end"]
NOT_COVERED = ["same-tick PID reuse"]
ENV = dict(BASE_ENV)


# --- identity is a function of (pid, start ticks) only: non-interference with the boot time ---------

def setup_ct(it, cfg):
    rec, proc, clk = _c06.base_setup(it, cfg)
    # BOOT_TIME is arbitrary (any earlier boot_time() call may have rewritten it) and so is the btime the kernel
    # publishes now: the identity must not depend on either
    cached = it.fresh("BOOT_TIME", "Real")
    it.assume(smt.Cmp(">", cached, R(0)))
    it.env_over["_pslinux.BOOT_TIME"] = cached if cfg["cached"] else None
    bt_now = it.fresh("btime_now", "Real")
    it.assume(smt.Cmp(">", bt_now, R(0)))
    it.ctx.ghost["btime_now"] = bt_now
    return {"args": {"self": proc, "monotonic": cfg["monotonic"]},
            "spec": {"F": rec["F"], "CLK": clk, "bt": cached if cfg["cached"] else bt_now, "monotonic": cfg["monotonic"]},
            "values": [clk, cached, bt_now]}


REGISTRY.add(_c06.PSP)
REGISTRY.add(Contract("C02", LINUX_PY, "boot_time", callee_only=True,
                      returns=lambda it, env: it.ctx.ghost["btime_now"],
                      note="assumed: returns the btime the kernel publishes now (and caches it in BOOT_TIME)"))

REGISTRY.add(Contract(
    "C02", LINUX_PY, "Process.create_time", setup=setup_ct, env=ENV, decorated=True, raises_any=True,
    helpers={"intval": h_intval}, inline=["_is_zombie", "_raise_if_zombie"],
    configs=[{"monotonic": m, "cached": c} for m in (True, False) for c in (True, False)],
    ensures=["implies(monotonic, result * CLK == intval(F[19]))",       # start ticks / tick rate: nothing else
             "implies(not monotonic, (result - bt) * CLK == intval(F[19]))"],
    canaries=["result == bt"],
    returns=lambda it, env: it.fresh("ct", "Real"),
    note="monotonic=True: the start time since boot, a function of the stat record alone"))


def setup_ident(it, cfg):
    o = make_process(it, born_known=False)
    mono = it.fresh("start_since_boot", "Real")
    epoch = it.fresh("epoch_create_time", "Real")      # depends on the boot time: must not leak into the identity
    calls = []

    def ct(it2, *a, **k):
        calls.append(dict(k))
        it2.ctx.log.append(("create_time", tuple(a), tuple(sorted(k.items()))))
        if k.get("monotonic") is True or (a and a[0] is True):
            return mono
        return epoch

    o.attrs["_proc"].attrs["create_time"] = EnvFunc("create_time", ct)
    return {"args": {"self": o}, "spec": {"mono": mono, "epoch": epoch}, "values": [mono, epoch]}


REGISTRY.add(Contract(
    "C02", INIT, "Process._get_ident", setup=setup_ident, env=ENV, inline=["pid", "create_time"],
    ensures=["result == (self._pid, mono)"],
    raises={}, canaries=["result == (self._pid, epoch)"], replay="c02:clockstep",
    note="identity = (pid, start time since boot): independent of BOOT_TIME, of boot_time() calls and of clock steps"))


# --- __eq__, __ne__, __hash__ -----------------------------------------------------------------------

def setup_eq(it, cfg):
    a = make_process(it)
    mod = ModuleSrc.get(INIT)
    pb, cb = it.fresh("pid_b", "Int"), it.fresh("born_b", "Real")
    other_ct = cb if cfg["b_known"] else None
    if not cfg["a_known"]:
        a.attrs["_ident"] = (a.attrs["_pid"], None)
    b = Obj("Process", {"_pid": pb, "_ident": (pb, other_ct), "_hash": None}, module=mod)
    return {"args": {"self": a, "other": b}, "spec": {"a": a, "b": b}, "values": [pb, cb]}


for q in ("Process.__eq__", "Process.__ne__"):
    REGISTRY.add(Contract(
        "C02", INIT, q, setup=setup_eq, env=ENV, inline=["__eq__"],
        configs=[{"a_known": x, "b_known": y} for x in (True, False) for y in (True, False)],
        ensures=["result == (self._ident == other._ident)" if q.endswith("__eq__") else
                 "result == (not (self._ident == other._ident))"],
        raises={}, canaries=["result == 7"], replay=None,
        note="equal exactly when same PID and same process start (an unknown start time never equals a known one)"))


def setup_hash(it, cfg):
    a = make_process(it)
    it.ctx.uf("py_hash", ["Int", "Real"], "Int")

    def h(it2, v):
        return smt.app("py_hash", "Int", it2.term(v[0]), it2.term(v[1]))

    it.builtins["hash"] = EnvFunc("hash", h)
    if cfg["memo"]:
        a.attrs["_hash"] = h(it, a.attrs["_ident"])
    # the lazily cached public create_time() is epoch based (it moves with the boot-time reading) and may not have been
    # computed yet: it is NOT the identity and must not leak into the hash
    a.attrs["_create_time"] = it.fresh("cached_epoch_create_time", "Real") if cfg["ct"] == "cached" else None
    return {"args": {"self": a}, "spec": {"H": EnvFunc("H", h)}}


REGISTRY.add(Contract(
    "C02", INIT, "Process.__hash__", setup=setup_hash, env=ENV,
    configs=[{"memo": m, "ct": c} for m in (False, True) for c in ("cached", "none")],
    ensures=["result == H(self._ident)", "self._hash == result"], raises={}, canaries=["result == 0"], replay="c02:hash",
    note="hash(ident): objects that are equal hash alike"))


# --- is_running ------------------------------------------------------------------------------------------
CTOR = REGISTRY.add(process_ctor_contract("C02"))


def h_same(it):
    gh = it.ctx.ghost
    last = gh.get("last_obj_owner")
    if last is None or not is_t(last):
        return B(False)
    return Eq(last, gh["born"])


def setup_isr(it, cfg):
    o = make_process(it)
    it.env_over["__init__." + reused_set_name()] = SymSet("Int", it.fresh("pids_reused", ("Array", "Int", "Bool")))
    it.ctx.ghost["last_obj_owner"] = None
    return {"args": {"self": o}, "spec": {"reused_set": it.env_over["__init__." + reused_set_name()]}}


REGISTRY.add(Contract(
    "C02", INIT, "Process.is_running", setup=setup_isr, env=ENV, inline=["__eq__", "__ne__", "pid"],
    helpers={"same": h_same, "alive": lambda it: it.ctx.ghost["orig_alive"],
             "observed": lambda it: it.ctx.ghost["obs"] > 0},
    ensures=[
        "implies(result, same())",                       # True only while that very process is in the table
        "implies(observed() and same(), result)",         # ... and always True then (zombie included)
        "implies(old(self._gone) or old(self._pid_reused), not result)",   # False ever after
        "implies(not result, self._gone or self._pid_reused)",
        "implies(self._pid_reused and not old(self._pid_reused), self._pid in reused_set)",
    ],
    raises={}, canaries=["result"], replay=None,
    note="True for as long as that very process is in the process table, False ever after"))


# --- histories with other psutil calls in between: bounded stand-in --------------------------------------
from .common import bounded_sweep  # noqa: E402
HIST = Contract("C02", INIT, "process_iter", env=ENV, name="__init__.is_running-along-histories",
                ensures=["every handle answers is_running() == True exactly while its own process is listed, whatever "
                         "process_iter()/is_running()/cache_clear() calls happen in between"],
                replay="c04:history", note="bounded: enumeration of process-table histories (PIDs 1..3, short histories)")
BOUNDED_CONTRACTS = [HIST]
CLK = Contract("C02", INIT, "Process.is_running", env=ENV, name="identity across a clock step (scripts of other calls)",
               ensures=["same process: ==, hash and is_running() unchanged by a wall-clock step, whatever other psutil calls "
                        "(create_time, boot_time, name, hash, str) were made before or after it; also for a start of 0 ticks"],
               replay="c02:clockstep", note="bounded: scripts of up to two calls before and after the step")
BOUNDED_CONTRACTS = list(globals().get("BOUNDED_CONTRACTS", [])) + [CLK]
BOUNDED = [bounded_sweep(HIST, "c04:history", quick=1200, thorough=30000),
           bounded_sweep(CLK, "c02:clockstep", quick=120, thorough=400)]
NOT_COVERED.append("interleaved process_iter()/is_running() histories are covered by a bounded enumeration only")


# --- "is_running() is True for as long as that very process is in the process table (zombie included) ... whatever other
# psutil call is made in between": signalling a zombie on the flavour where kill() answers ESRCH for it (OpenBSD) ---------
from . import C01 as _c01          # noqa: E402
from vc.interp import EnvFunc as _EnvFunc   # noqa: E402


def setup_sig_zombie(it, cfg):
    o = make_process(it, gone=False, reused=False)
    # the identity guard in front of the signal is C01's subject (proved there); here it has passed
    o.attrs["_raise_if_pid_reused"] = _EnvFunc("_raise_if_pid_reused", lambda it2: None)

    def kill(it2, pid, s):
        it2.ctx.log.append(("kill", pid, s))
        c = it2.choose(3, "os.kill:ok/ESRCH/EPERM")
        if c == 1:
            it2.raise_(ProcessLookupError, errno=I(3))
        if c == 2:
            it2.raise_(PermissionError, errno=I(1))

    it.env_over["os.kill"] = _EnvFunc("os.kill", kill)
    sig = it.fresh("sig", "Int")
    listed = it.fresh("pid_still_listed", "Bool")      # what pid_exists() answers after kill() said ESRCH
    it.env_over["__init__.pid_exists"] = _EnvFunc("pid_exists", lambda it2, p: listed)
    return {"args": {"self": o, "sig": sig}, "spec": {"sig": sig, "listed": listed}, "values": [sig, listed]}


REGISTRY.add(Contract(
    "C02", INIT, "Process._send_signal", name="__init__.Process._send_signal[OPENBSD zombie]", setup=setup_sig_zombie,
    env=dict(ENV, OPENBSD=True, BSD=True, LINUX=False), inline=_c01.INLINE, helpers=_c01.HELPERS,
    ensures=["not self._gone"],
    raises={"ZombieProcess": ["listed", "not self._gone", "exc.pid == self._pid"],      # still in the table: not "gone"
            "NoSuchProcess": ["exc.pid == self._pid"], "AccessDenied": ["not self._gone"],
            "ValueError": ["self._pid == 0"], "AssertionError": None},
    canaries=["self._gone"], replay=None,
    note="a signal sent to a zombie (kill() -> ESRCH while the PID is still listed) raises ZombieProcess and does not latch "
         "the object as gone: is_running() keeps answering True while the zombie is in the table"))


# --- the epoch start time is a convenience value: asking for it never touches the identity -----------------------------------
# ("equal, and hash alike, exactly when same PID and same process start ... not on create_time() calls, clock steps ...")

def setup_front_ct(it, cfg):
    o = make_process(it, gone=False, reused=False)
    ident_ct = it.fresh("identity_start", "Real")           # whatever __init__ recorded, 0 ticks since boot included
    it.assume(smt.Cmp(">=", ident_ct, R(0)))
    ident = (o.attrs["_pid"], ident_ct) if cfg["ident"] == "known" else (o.attrs["_pid"], None)
    o.attrs["_ident"] = ident
    cached = it.fresh("cached_epoch_start", "Real")
    o.attrs["_create_time"] = cached if cfg["cached"] else None
    plat = it.fresh("platform_epoch_start", "Real")
    o.attrs["_proc"].attrs["create_time"] = _EnvFunc("create_time", lambda it2, *a, **k: plat)
    return {"args": {"self": o}, "spec": {"ident0": ident, "cached": cached, "plat": plat, "was_cached": cfg["cached"]},
            "values": [ident_ct, cached, plat]}


REGISTRY.add(Contract(
    "C02", INIT, "Process.create_time", name="__init__.Process.create_time (front end)", setup=setup_front_ct, env=ENV,
    configs=[{"ident": i, "cached": c} for i in ("known", "unknown") for c in (True, False)], inline=["pid"],
    ensures=["result == (cached if was_cached else plat)", "self._create_time == result",
             "self._ident[0] == ident0[0]",
             "(self._ident[1] is None) == (ident0[1] is None)",
             "implies(ident0[1] is not None, self._ident[1] == ident0[1])",      # a start of 0 ticks is an identity too
             "not self._gone and not self._pid_reused"],
    raises={"NoSuchProcess": None, "AccessDenied": None, "ZombieProcess": None}, canaries=["result == 5"], replay=None,
    note="returns the cached / platform epoch start time and leaves the identity (pid, start since boot) as __init__ made it"))
