"""C11 - net_connections(): every socket once, right kind, right addresses, right owner."""
import socket

from .common import *  # noqa: F401,F403
from .common import Contract, Registry, LoopSpec, BASE_ENV, INIT, LINUX_PY, COMMON_PY, bounded_sweep
from vc.interp import Interp, Ctx, ModuleSrc, RepoFunc, Frame

REGISTRY = Registry()
TRUSTED = ["socket.inet_ntop's text rendering (library)"]
ASSUMPTIONS = ["/proc/net/{tcp,tcp6,udp,udp6,unix} line formats of the running kernel generation"]
NOT_COVERED = ["decode_address, process_inet, process_unix, get_proc_inodes and retrieve are covered by a bounded sweep "
               "over generated socket tables on a fake procfs (all 11 kinds, IPv4/IPv6 incl. mapped/link-local/zero "
               "addresses, all TCP states, UNIX stream/dgram/seqpacket, abstract names, shared holders), not proved"]
ENV = dict(BASE_ENV)

DOC_KINDS = {
    "inet": {(socket.AF_INET, socket.SOCK_STREAM), (socket.AF_INET6, socket.SOCK_STREAM),
             (socket.AF_INET, socket.SOCK_DGRAM), (socket.AF_INET6, socket.SOCK_DGRAM)},
    "inet4": {(socket.AF_INET, socket.SOCK_STREAM), (socket.AF_INET, socket.SOCK_DGRAM)},
    "inet6": {(socket.AF_INET6, socket.SOCK_STREAM), (socket.AF_INET6, socket.SOCK_DGRAM)},
    "tcp": {(socket.AF_INET, socket.SOCK_STREAM), (socket.AF_INET6, socket.SOCK_STREAM)},
    "tcp4": {(socket.AF_INET, socket.SOCK_STREAM)}, "tcp6": {(socket.AF_INET6, socket.SOCK_STREAM)},
    "udp": {(socket.AF_INET, socket.SOCK_DGRAM), (socket.AF_INET6, socket.SOCK_DGRAM)},
    "udp4": {(socket.AF_INET, socket.SOCK_DGRAM)}, "udp6": {(socket.AF_INET6, socket.SOCK_DGRAM)},
    "unix": {(socket.AF_UNIX, None)},
}
DOC_KINDS["all"] = set().union(*DOC_KINDS.values())


# --- _check_conn_kind ------------------------------------------------------------------------------------------

def setup_kind(it, cfg):
    k = cfg["kind"]
    if k == "<symbolic>":
        kind = it.fresh("kind", "String", "str")
        for name in DOC_KINDS:
            it.assume(Not(Eq(kind, S(name))))
    else:
        kind = k
    return {"args": {"kind": kind}, "spec": {"k": k}, "values": [kind] if is_t(kind) else []}


REGISTRY.add(Contract(
    "C11", INIT, "_check_conn_kind", setup=setup_kind, env=ENV,
    configs=[{"kind": k} for k in list(DOC_KINDS) + ["<symbolic>", "TCP", ""]],
    ensures=["k in ('inet', 'inet4', 'inet6', 'tcp', 'tcp4', 'tcp6', 'udp', 'udp4', 'udp6', 'unix', 'all')"],
    raises={"ValueError": "k not in ('inet', 'inet4', 'inet6', 'tcp', 'tcp4', 'tcp6', 'udp', 'udp4', 'udp6', 'unix', 'all')"},
    canaries=[], replay="c11:kind",
    note="the 11 documented kinds are accepted, every other string raises ValueError"))


# --- kind table (exhaustive) -------------------------------------------------------------------------------------

def table_kinds():
    """NetConnections.__init__ is interpreted from the real source; its tmap must reach exactly the documented
    (family, type) pairs for each of the 11 kinds"""
    ctx = Ctx([])
    it = Interp(ctx, REGISTRY, None)
    it.env_over.update(ENV)
    mod = ModuleSrc.get(LINUX_PY)
    node = mod.find("NetConnections.__init__")
    from vc.interp import Obj
    o = Obj("NetConnections", {}, module=mod)
    it.run_function(RepoFunc(mod, "NetConnections.__init__", node), [o], {})
    tmap = o.attrs["tmap"]
    out = []
    for kind, want in DOC_KINDS.items():
        got = {(int(f) if f is not None else None, (int(t) if t is not None else None)) for _, f, t in tmap.get(kind, ())}
        w = {(int(f), (int(t) if t is not None else None)) for f, t in want}
        out.append((f"kind {kind!r} reaches exactly its documented (family, type) pairs", got == w, f"{sorted(map(str, got))}"))
        files = [n for n, _, _ in tmap.get(kind, ())]
        out.append((f"kind {kind!r} reads each /proc/net file once", len(files) == len(set(files)), str(files)))
    out.append(("no undocumented kind is accepted by the Linux layer", set(tmap) == set(DOC_KINDS), str(sorted(tmap))))
    cm = ModuleSrc.get(COMMON_PY)
    it2 = Interp(Ctx([]), REGISTRY, None)
    it2.env_over.update(ENV)
    # the literal plus the conditional module-level statements that extend it (update(...) or item assignment): the engine
    # applies those when it resolves the name
    conn_tmap = dict(it2.module_name(cm, "conn_tmap"))
    out.append(("_common.conn_tmap lists the same 11 kinds", set(conn_tmap) == set(DOC_KINDS), str(sorted(conn_tmap))))
    return out


TABLES = [table_kinds]

NC = Contract("C11", LINUX_PY, "NetConnections.retrieve", name="_pslinux net_connections (end-to-end)", env=ENV,
              ensures=["exactly the sockets of the requested kind, each once, with decoded addresses (empty when port 0), "
                       "TCP state names, UNIX bound paths, pid/fd of the holder (one row per holder for UNIX), None/-1 "
                       "without holder; the per-process form lists that process's sockets"],
              replay="c11:sockets", note="bounded: generated socket tables against an independent decoding")
BOUNDED_CONTRACTS = [NC]
BOUNDED = [bounded_sweep(NC, "c11:sockets", quick=300, thorough=6000)]
