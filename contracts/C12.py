"""C12 - cmdline/environ/exe/cwd and extended name() decode what the kernel exposes."""
from .common import *  # noqa: F401,F403
from .common import Contract, Registry, LoopSpec, BASE_ENV, LINUX_PY, COMMON_PY, INIT, bounded_sweep
from .procenv import ProcEnv, linux_process
from vc import lib
from vc.interp import PyRaise, ExcVal, PS_EXC, ModuleSrc

REGISTRY = Registry()
TRUSTED = ["library models: str.split(sep) as the uninterpreted py_split (spec and code use the same function; "
           "len >= 1, first element characterised), endswith, slicing, os.path.basename (uninterpreted)",
           "environment model contracts/procenv.py"]
ASSUMPTIONS = ["open_text decoding is an injective byte -> code point map",
               "readlink / path_exists_strict / os.access are environment oracles (any outcome)"]
NOT_COVERED = ["parse_environ_block: bounded exhaustive enumeration (alphabet NUL,'=',a,b; length <= 9), not proved"]
ENV = dict(BASE_ENV)
NUL = "\x00"


# --- _pslinux.Process.cmdline -----------------------------------------------------------------

def setup_cmdline(it, cfg):
    proc = linux_process(it)
    data = it.fresh("cmdline_data", "String", "str")
    zombie = it.fresh("is_zombie", "Bool")
    env = ProcEnv(it, files={"/cmdline": lambda it2, p: data}).install()
    it.env_over["_pslinux.Process._is_zombie"] = None
    return {"args": {"self": proc}, "spec": {"data": data, "zombie": zombie, "NUL": NUL}, "values": [data, zombie]}


def is_zombie_returns(it, env):
    return it.spec_names["zombie"]


IS_ZOMBIE = Contract("C12", LINUX_PY, "Process._is_zombie", callee_only=True, returns=is_zombie_returns,
                     note="assumed here (verified under C03): True iff the stat record says 'Z'")
REGISTRY.add(IS_ZOMBIE)
# ... and verified here too, against the stat-record model of C06 (arbitrary command names)
from . import C06 as _c06z   # noqa: E402
REGISTRY.add(_c06z.IS_Z)


def h_split(it, s, sep):
    if isinstance(s, str):
        return s.split(sep)
    return lib.split_model(it, it.term(s), sep, -1)


REGISTRY.add(Contract(
    "C12", LINUX_PY, "Process.cmdline", setup=setup_cmdline, env=ENV, decorated=True, helpers={"split": h_split},
    inline=["_raise_if_zombie"],
    ensures=[
        "implies(data == '', result == [])",
        # NUL separated: empty arguments preserved (also a trailing empty one)
        "implies(data != '' and data.endswith(NUL) and (len(split(data[:-1], NUL)) != 1 or ' ' not in data[:-1]), "
        "result == split(data[:-1], NUL))",
        # title overwritten without NUL separators: split on spaces
        "implies(data != '' and data.endswith(NUL) and len(split(data[:-1], NUL)) == 1 and ' ' in data[:-1], "
        "result == split(data[:-1], ' '))",
        "implies(data != '' and not data.endswith(NUL) and data.endswith(' '), result == split(data[:-1], ' '))",
        "implies(data != '' and not data.endswith(NUL) and not data.endswith(' '), result == split(data, ' '))",
    ],
    raises={"ZombieProcess": ["zombie", "exc.pid == self.pid"],
            "NoSuchProcess": None, "AccessDenied": None},
    canaries=["result == []"], replay="c12:cmdline",
    note="argument vector as the kernel exposes it; ZombieProcess for a zombie's empty cmdline"))


# --- _pslinux.readlink -------------------------------------------------------------------------------

def setup_readlink(it, cfg):
    target = it.fresh("link_target", "String", "str")
    exists = it.fresh("suffixed_path_exists", "Bool")
    denied = cfg.get("denied", False)

    def os_readlink(it2, path):
        return target

    def pes(it2, path):
        if denied:
            it2.raise_(PermissionError, errno=I(13))
        return exists

    it.env_over["os.readlink"] = EnvFunc("os.readlink", os_readlink)
    it.env_over["_pslinux.path_exists_strict"] = EnvFunc("path_exists_strict", pes)
    p = it.fresh("path", "String", "str")
    return {"args": {"path": p}, "spec": {"target": target, "exists": exists, "NUL": NUL, "denied": denied},
            "values": [target, exists]}


def h_head(it, s):
    """text before the first NUL"""
    if isinstance(s, str):
        return s.split(NUL)[0]
    k = smt.app("str.indexof", "Int", s, S(NUL), I(0))
    return Ite(smt.Cmp(">=", k, I(0)), smt.Substr(s, I(0), k), s)


REGISTRY.add(Contract(
    "C12", LINUX_PY, "readlink", setup=setup_readlink, env=ENV, helpers={"head": h_head},
    configs=[{"denied": False}, {"denied": True}],
    ensures=[
        "implies(not head(target).endswith(' (deleted)'), result == head(target))",
        "implies(head(target).endswith(' (deleted)') and exists, result == head(target))",
        "implies(head(target).endswith(' (deleted)') and not exists, result == head(target)[:-10])",
    ],
    raises={"PermissionError": ["denied", "head(target).endswith(' (deleted)')"]},
    canaries=["result == target"], replay="c12:readlink",
    returns=lambda it, env: it.fresh("readlink_result", "String", "str"),
    note="link target with trailing NUL garbage and a stale ' (deleted)' suffix removed"))


# --- _readlink / exe / cwd ---------------------------------------------------------------------------

def setup_link(it, cfg):
    proc = linux_process(it)
    target = it.fresh("link", "String", "str")
    zombie = it.fresh("is_zombie", "Bool")
    env = ProcEnv(it, files={"/exe": lambda it2, p: target, "/cwd": lambda it2, p: target}).install()

    def rl(it2, path):
        env.outcome(path, "readlink:" + ("exe" if "exe" in str(getattr(path, "parts", path)) else "cwd"))
        return target

    it.env_over["_pslinux.readlink"] = EnvFunc("readlink", rl)
    return {"args": {"self": proc}, "spec": {"target": target, "zombie": zombie}, "values": [target, zombie]}


for _m in ("exe", "cwd"):
    REGISTRY.add(Contract(
        "C12", LINUX_PY, f"Process.{_m}", setup=setup_link, env=ENV, decorated=True,
        inline=["_raise_if_zombie", "_readlink"],
        ensures=["result == target or result == ''",
                 # '' only when the kernel withheld the link (no successful readlink in this call)
                 "implies(result == '' and target != '', not any_ok(log))"],
        helpers={"any_ok": lambda it, log: any(e[0] == "access" and e[1].startswith("readlink") and e[3] == "ok" for e in log)},
        raises={"ZombieProcess": ["zombie", "exc.pid == self.pid"], "NoSuchProcess": ["exc.pid == self.pid"],
                "AccessDenied": ["exc.pid == self.pid"]},
        canaries=["result == ''"], replay=None,
        note="link target, or '' when the kernel withholds it for a live non-zombie process"))


# --- psutil.Process.name (front end) ------------------------------------------------------------------

def front_process(it, procname, cmdline_outcome):
    mod = ModuleSrc.get(INIT)
    inner = Obj("Process", {"_name": None}, module=ModuleSrc.get(LINUX_PY))
    o = Obj("Process", {"_pid": it.fresh("pid", "Int"), "_name": None, "_exe": None, "_proc": inner}, module=mod)
    return o, inner


def setup_name(it, cfg):
    kname = it.fresh("kernel_name", "String", "str")
    o, inner = front_process(it, kname, None)
    kind = cfg["cmdline"]
    arg0 = it.fresh("arg0", "String", "str")
    it.ctx.uf("py_basename", ["String"], "String")
    base = smt.app("py_basename", "String", arg0, bk="str")

    def proc_name(it2, self_):
        return kname

    def cmdline(it2, self_):
        if kind == "empty":
            return []
        if kind == "denied":
            it2.raise_(PS_EXC["AccessDenied"][0], pid=o.attrs["_pid"])
        if kind == "zombie":
            it2.raise_(PS_EXC["ZombieProcess"][0], pid=o.attrs["_pid"])
        return [arg0, it.fresh("arg1", "String", "str")]

    def basename(it2, p):
        if is_t(p):
            it2.ctx.uf("py_basename", ["String"], "String")
            return smt.app("py_basename", "String", p, bk="str")
        import os.path
        return os.path.basename(p)

    it.env_over["_pslinux.Process.name"] = None
    inner.attrs["name"] = EnvFunc("proc.name", lambda it2: kname)
    o.attrs["cmdline"] = EnvFunc("cmdline", lambda it2: cmdline(it2, o))
    it.env_over["os.path.basename"] = EnvFunc("basename", basename)
    return {"args": {"self": o}, "spec": {"kname": kname, "base": base, "kind": kind, "inner": inner},
            "values": [kname, arg0]}


REGISTRY.add(Contract(
    "C12", INIT, "Process.name", setup=setup_name, env=ENV,
    configs=[{"cmdline": k} for k in ("args", "empty", "denied", "zombie")],
    ensures=[
        "implies(kind == 'args' and len(kname) >= 15 and base.startswith(kname), result == base)",
        "implies(not (kind == 'args' and len(kname) >= 15 and base.startswith(kname)), result == kname)",
        "self._name == result and inner._name == result",
    ],
    raises={}, canaries=["result == base"], replay=None,
    note="the kernel's name, except that a name of >= 15 bytes is replaced by basename(cmdline()[0]) when that "
         "basename starts with it; AccessDenied/ZombieProcess from cmdline() are swallowed"))


# --- psutil.Process.exe (front end): the cmdline()[0] fallback -----------------------------------------------------------

def setup_exe_front(it, cfg):
    import os as _os
    o, inner = front_process(it, None, None)
    native = it.fresh("native_exe", "String", "str")
    it.assume(smt.Cmp(">", smt.Len(native), I(0)))
    arg0 = it.fresh("arg0", "String", "str")
    isabs, isfile, xok = it.fresh("arg0_isabs", "Bool"), it.fresh("arg0_isfile", "Bool"), it.fresh("arg0_executable", "Bool")
    other_ok = it.fresh("arg0_access_other_mode", "Bool")
    how, cl = cfg["native"], cfg["cmdline"]
    if cfg.get("cached"):
        o.attrs["_exe"] = it.fresh("cached_exe", "String", "str")

    def p_exe(it2):
        it2.ctx.log.append(("proc.exe",))
        if how == "denied":
            it2.raise_(PS_EXC["AccessDenied"][0], pid=o.attrs["_pid"])
        return native if how == "path" else ""

    def p_cmdline(it2):
        it2.ctx.log.append(("proc.cmdline",))
        if cl == "denied":
            it2.raise_(PS_EXC["AccessDenied"][0], pid=o.attrs["_pid"])
        if cl == "empty":
            return []
        return [arg0, it.fresh("arg1", "String", "str")]

    def f_isabs(it2, p):
        it2.ctx.oblige("pre@os.path.isabs:asked about cmdline()[0]", "pre", it2.as_bool(it2.lib.equal(it2, p, arg0)), where="exe()")
        return isabs

    def f_isfile(it2, p):
        it2.ctx.oblige("pre@os.path.isfile:asked about cmdline()[0]", "pre", it2.as_bool(it2.lib.equal(it2, p, arg0)), where="exe()")
        return isfile

    def f_access(it2, p, mode):
        it2.ctx.oblige("pre@os.access:asked about cmdline()[0]", "pre", it2.as_bool(it2.lib.equal(it2, p, arg0)), where="exe()")
        return xok if mode == _os.X_OK else other_ok

    inner.attrs["exe"] = EnvFunc("proc.exe", p_exe)
    inner.attrs["cmdline"] = EnvFunc("proc.cmdline", p_cmdline)
    it.env_over.update({"os.path.isabs": EnvFunc("isabs", f_isabs), "os.path.isfile": EnvFunc("isfile", f_isfile),
                        "os.access": EnvFunc("access", f_access)})
    good = And(isabs, isfile, xok)
    return {"args": {"self": o}, "spec": {"native": native, "arg0": arg0, "good": good, "how": how, "cl": cl,
                                          "cached": bool(cfg.get("cached")), "cv": o.attrs["_exe"]},
            "values": [native, arg0, isabs, isfile, xok]}


EXE_CFGS = [{"native": n, "cmdline": c} for n in ("path", "empty", "denied") for c in ("args", "empty", "denied")] + \
           [{"native": "path", "cmdline": "args", "cached": True}]
REGISTRY.add(Contract(
    "C12", INIT, "Process.exe", name="__init__.Process.exe(fallback)", setup=setup_exe_front, env=ENV, configs=EXE_CFGS,
    inline=["cmdline"],
    ensures=[
        "implies(cached, result == cv and len(log) == 0)",                               # cached answer: nothing is asked again
        "implies(not cached and how == 'path', result == native and self._exe == native and log == [('proc.exe',)])",
        # no native answer: cmdline()[0] only if it is an absolute path to an executable regular FILE
        "implies(not cached and how != 'path' and cl == 'args' and good, result == arg0)",
        "implies(not cached and how == 'empty' and not (cl == 'args' and good), result == '')",
        "implies(not cached and how == 'empty', self._exe == result)",
        "implies(how == 'denied', cl == 'args' and good)",                               # otherwise AccessDenied, below
    ],
    raises={"AccessDenied": ["how == 'denied'", "not (cl == 'args' and good)", "exc.pid == self._pid"]},
    canaries=["result == 'zz'"], replay="c12:exe_front",
    note="native answer wins and is cached; '' or AccessDenied from the platform layer falls back to cmdline()[0] only "
         "when that is an absolute path to an executable regular file; otherwise '' resp. the original AccessDenied"))


# --- parse_environ_block: bounded -----------------------------------------------------------------------
PEB = Contract("C12", COMMON_PY, "parse_environ_block", env=ENV,
               ensures=["result == reference parse: entries up to the first empty entry, split at the first '=' "
                        "(position > 0), last duplicate wins, entries without '=' ignored, text after the last NUL ignored"],
               replay="c12:environ", note="bounded: exhaustive small-scope enumeration against a reference parser")
BOUNDED_CONTRACTS = [PEB]
BOUNDED = [bounded_sweep(PEB, "c12:environ", quick=90000, thorough=400000)]
