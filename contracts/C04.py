"""C04 - pids(), pid_exists() and process_iter() give one coherent, cached process list."""
from .common import *  # noqa: F401,F403
from .common import Contract, Registry, LoopSpec, BASE_ENV, INIT, LINUX_PY, POSIX_PY, bounded_sweep
from vc import lib
from vc.interp import PS_EXC

REGISTRY = Registry()
TRUSTED = ["sorted() model (ordered permutation), os.kill model incl. OverflowError outside the C int range",
           "status-file grammar: exactly one 'Tgid:' line"]
ASSUMPTIONS = ["the process table is never empty (PID 1 or the caller itself is always listed)"]
NOT_COVERED = ["two threads iterating process_iter() at once (no thread model)",
               "process_iter()'s cache algebra is covered by a bounded enumeration of process-table histories "
               "(PIDs 1..4, <= 4 events) against a reference model, not proved"]
ENV = dict(BASE_ENV)


# --- psutil.pids ------------------------------------------------------------------------------------------

def setup_pids(it, cfg):
    raw = make_value(it, "listed", ("Seq", "Int"))
    it.assume(smt.Cmp(">=", smt.Len(raw.seq), I(1)))
    it.env_over["_pslinux.pids"] = EnvFunc("pids", lambda it2: SymList(raw.seq))
    return {"args": {}, "spec": {"raw": raw}, "values": [raw.seq]}


REGISTRY.add(Contract(
    "C04", INIT, "pids", setup=setup_pids, env=ENV,
    ensures=[
        "len(result) == len(raw)",
        "forall(range(len(result) - 1), lambda i: result[i] <= result[i + 1])",            # ascending
        "forall(range(len(raw)), lambda i: raw[i] in result)",                                # same PIDs
        "forall(range(len(result)), lambda i: result[i] in raw)",
    ],
    raises={}, canaries=["len(result) == 0"],
    returns=lambda it, env: make_value(it, "pids", ("Seq", "Int")),
    note="ascending list of the PIDs in the process table"))


# --- psutil.pid_exists / _psposix.pid_exists ------------------------------------------------------------

def setup_pe_front(it, cfg):
    pid = it.fresh("pid", "Int")
    listed = make_value(it, "listed", ("Seq", "Int"))
    plat = it.fresh("platform_answer", "Bool")
    it.env_over["__init__.pids"] = EnvFunc("pids", lambda it2: SymList(listed.seq))

    def plat_exists(it2, p):
        it2.ctx.log.append(("platform_pid_exists", p))
        return plat

    it.env_over["_pslinux.pid_exists"] = EnvFunc("pid_exists", plat_exists)
    return {"args": {"pid": pid}, "spec": {"listed": listed, "plat": plat}, "values": [pid, plat]}


REGISTRY.add(Contract(
    "C04", INIT, "pid_exists", setup=setup_pe_front, env=ENV,
    ensures=["implies(pid < 0, result == False)",
             "implies(pid == 0, result == (0 in listed))",
             "implies(pid > 0, result == plat)"],
    raises={}, canaries=["result == True"],
    note="False for negative numbers, PID 0 looked up in the listing, never an exception"))


def ghost_posix(it):
    if "posix_exists" not in it.ctx.ghost:
        it.ctx.ghost["posix_exists"] = it.fresh("posix_exists", "Bool")
    return it.ctx.ghost["posix_exists"]


def setup_pe_posix(it, cfg):
    pid = it.fresh("pid", "Int")
    alive = it.fresh("kill0_finds_process", "Bool")

    def kill(it2, p, sig):
        tp = it2.term(p)
        # CPython converts pid to a C pid_t (int): OverflowError outside [-2^31, 2^31)
        inrange = And(smt.Cmp(">=", tp, I(-2 ** 31)), smt.Cmp("<", tp, I(2 ** 31)))
        if not it2.truth(inrange, "pid-fits-pid_t"):
            it2.raise_(OverflowError, "signed integer is greater than maximum")
        it2.ctx.oblige("pre@os.kill:pid > 0", "pre", smt.Cmp(">", tp, I(0)), where="os.kill call site")
        it2.ctx.log.append(("kill", p, sig))
        c = it2.choose(3, "os.kill:ok/ESRCH/EPERM")
        if c == 1:
            it2.ctx.assume(Not(alive))
            it2.raise_(ProcessLookupError, errno=I(3))
        it2.ctx.assume(alive)
        if c == 2:
            it2.raise_(PermissionError, errno=I(1))

    it.env_over["os.kill"] = EnvFunc("os.kill", kill)
    return {"args": {"pid": pid}, "spec": {"alive": alive}, "values": [pid, alive]}


REGISTRY.add(Contract(
    "C04", POSIX_PY, "pid_exists", setup=setup_pe_posix, env=ENV,
    requires=["pid >= 0"],
    ensures=["implies(pid == 0, result == True)",
             "implies(pid > 0 and pid < 2147483648, result == alive)",
             "implies(pid >= 2147483648, result == False)"],     # no process can have a PID beyond pid_t
    raises={},                                                    # never an exception for a non-negative int
    canaries=["result == True"], replay="c04:pid_exists",
    returns=lambda it, env: ghost_posix(it), callee_ensures=[],
    note="signal-0 probe; an int of any size is answered without an exception"))


# --- _pslinux.pid_exists: PIDs only, thread IDs are not processes -----------------------------------------

def setup_pe_linux(it, cfg):
    pid = it.fresh("pid", "Int")
    it.assume(smt.Cmp(">", pid, I(0)))
    posix = ghost_posix(it)
    L = it.fresh("status_lines", ("Seq", "String"))
    n = smt.Len(L)
    iT = it.fresh("iT", "Int")
    tg = it.fresh("tgid", "Int")
    it.assume(And(smt.Cmp("<=", I(0), iT), smt.Cmp("<", iT, n), smt.Cmp(">=", tg, I(0))))
    it.ctx.uf("py_splitws", ["String"], ("Seq", "String"))
    it.ctx.uf("py_intval", ["String"], "Int")
    toks = smt.app("py_splitws", ("Seq", "String"), smt.Nth(L, iT))
    it.assume(And(smt.Cmp(">=", smt.Len(toks), I(2)), lib.in_re(smt.Nth(toks, I(1)), lib.digits_re()),
                  Eq(smt.app("py_intval", "Int", smt.Nth(toks, I(1))), tg)))
    it.forall_int(lambda j: Implies(And(smt.Cmp("<=", I(0), j), smt.Cmp("<", j, n)),
                                    Eq(smt.app("str.prefixof", "Bool", S(b"Tgid:"), smt.Nth(L, j)), Eq(j, iT))),
                  instances=[iT])
    listed = make_value(it, "listed", ("Seq", "Int"))
    readable = cfg["status"]

    def op(it2, path):
        if readable != "ok":
            it2.raise_(FileNotFoundError if readable == "enoent" else PermissionError, errno=I(2))
        return SymFile(L, "bytes")

    it.env_over.update(proc_file_env({"/status": op}))
    it.env_over["_pslinux.pids"] = EnvFunc("pids", lambda it2: SymList(listed.seq))
    return {"args": {"pid": pid}, "spec": {"posix": posix, "tg": tg, "iT": iT, "listed": listed, "readable": readable},
            "values": [pid, posix, tg]}


from .common import proc_file_env  # noqa: E402

REGISTRY.add(Contract(
    "C04", LINUX_PY, "pid_exists", setup=setup_pe_linux, env=ENV,
    configs=[{"status": s} for s in ("ok", "enoent", "denied")],
    loops={0: LoopSpec(inv=["_i <= iT"])},
    ensures=["implies(not posix, result == False)",
             "implies(posix and readable == 'ok', result == (tg == pid))",          # thread IDs are not PIDs
             "implies(posix and readable != 'ok', result == (pid in listed))"],
    raises={}, canaries=["result == True"], replay="c04:linux_pid_exists",
    note="True exactly for thread-group leaders; falls back to the listing when status cannot be read"))


# --- process_iter: bounded stand-in ----------------------------------------------------------------------
PI = Contract("C04", INIT, "process_iter", env=ENV,
              ensures=["yields one Process per listed PID in ascending order; same object while the PID stays listed; "
                       "gone entries dropped; entries found recycled replaced; cache_clear() empties; attrs -> info keys; "
                       "live processes' handles keep answering is_running() == True"],
              replay="c04:history", note="bounded: exhaustive enumeration of small process-table histories")
BOUNDED_CONTRACTS = [PI]
BOUNDED = [bounded_sweep(PI, "c04:history", quick=2500, thorough=60000)]


# --- BSD: pid_exists() per flavour (the module defines it three ways under `if NETBSD: ... elif OPENBSD: ... else:`) ---------
# kill(pid, 0) alone is not the process table there: it succeeds for thread IDs on OpenBSD and fails for zombies on NetBSD.
import ast as _ast   # noqa: E402

BSD_PY = "psutil/_psbsd.py"
_ALL_FLAGS = ("LINUX", "WINDOWS", "MACOS", "OSX", "FREEBSD", "OPENBSD", "NETBSD", "BSD", "SUNOS", "AIX", "POSIX")


def in_world(**flags):
    """select, among conditional module-level definitions, the one in force under these platform flags"""
    env = {f: False for f in _ALL_FLAGS}
    env.update(flags)

    def pick(node, guards):
        for test, pol in guards:
            try:
                v = eval(compile(_ast.Expression(test), "<guard>", "eval"), {"__builtins__": {}}, dict(env))
            except Exception:
                return False
            if bool(v) != pol:
                return False
        return True
    return pick


class _Listing(list):
    def __init__(self, has):
        super().__init__()
        self.has = has

    def vc_contains(self, it, x):
        return self.has


def setup_bsd_pid_exists(it, cfg):
    pid = it.fresh("pid", "Int")
    kill_ok = it.fresh("kill0_succeeds", "Bool")      # what _psposix.pid_exists (kill(pid, 0)) answers
    listed = it.fresh("pid_listed", "Bool")           # whether the process table lists it
    # what is known about kill(pid, 0) there (the comments in the module): OpenBSD - every listed process answers, and so do
    # thread IDs; NetBSD - whoever answers is listed, zombies are listed without answering
    it.assume(Implies(listed, kill_ok) if cfg["flavour"] == "OPENBSD" else Implies(kill_ok, listed))
    it.env_over["_psposix.pid_exists"] = EnvFunc("pid_exists", lambda it2, p: kill_ok)
    it.env_over["_psbsd.pids"] = EnvFunc("pids", lambda it2: _Listing(listed))
    return {"args": {"pid": pid}, "spec": {"kill_ok": kill_ok, "listed": listed}, "values": [pid, kill_ok, listed]}


for _flav, _post in (("OPENBSD", "result == listed"),      # a thread ID answers kill() but is not listed: False
                     ("NETBSD", "result == listed")):       # a zombie is listed but does not answer kill(): True
    REGISTRY.add(Contract(
        "C04", BSD_PY, "pid_exists", which=in_world(**{_flav: True, "BSD": True, "POSIX": True}),
        name=f"_psbsd.pid_exists[{_flav}]", setup=setup_bsd_pid_exists, configs=[{"flavour": _flav}],
        env=dict(BASE_ENV, **{f: (f in (_flav, "BSD", "POSIX")) for f in _ALL_FLAGS}),
        ensures=[_post], raises={}, canaries=["result == True"], replay=None,
        note="True exactly for listed processes: kill(pid, 0) is cross-checked against the process table in the direction "
             "that flavour needs"))
