"""C20 - every platform layer keeps the same error contract and record layout.

The non-Linux platform modules are never imported: their real source text is
interpreted (wrappers, accessors), the native module is an environment stub."""
import ast
import os
import re

from .common import *  # noqa: F401,F403
from .common import Contract, Registry, LoopSpec, BASE_ENV, INIT, COMMON_PY
from vc.interp import ModuleSrc, PS_EXC, RepoFunc, Frame, PyRaise, ExcVal

REGISTRY = Registry()
TRUSTED = ["native modules are environment stubs: a native call returns a record of pairwise distinct symbolic slots or "
           "raises an OSError of a given class/errno"]
ASSUMPTIONS = ["the platform flag set of each configuration (FREEBSD / OPENBSD / NETBSD / MACOS / SUNOS / AIX / WINDOWS)"]
NOT_COVERED = ["the native layers themselves (C code of non-Linux platforms cannot be built or run here); slot order is "
               "checked against the C producers' argument lists mechanically, their semantics are not",
               "the per-platform __all__ / documentation availability table"]

MODS = {"bsd": "psutil/_psbsd.py", "osx": "psutil/_psosx.py", "sunos": "psutil/_pssunos.py", "aix": "psutil/_psaix.py",
        "win": "psutil/_pswindows.py"}


def flags_env(**on):
    e = dict(BASE_ENV)
    names = ("LINUX", "POSIX", "WINDOWS", "MACOS", "OSX", "FREEBSD", "OPENBSD", "NETBSD", "BSD", "SUNOS", "AIX")
    for m in ("__init__", "_common", "_psbsd", "_psosx", "_pssunos", "_psaix", "_pswindows", "_psposix"):
        for n in names:
            e[f"{m}.{n}"] = bool(on.get(n, False))
        e[f"{m}.debug"] = BASE_ENV["_common.debug"]
    return e


class Stub:
    def __init__(self, attrs=None, default=None):
        self.attrs, self.default = dict(attrs or {}), default

    def vc_getattr(self, it, name):
        if name in self.attrs:
            return self.attrs[name]
        if self.default is not None:
            return self.default(name)
        it.raise_(AttributeError, name)


# ---------------------------------------------------------------------------------------------------------------
# 1. the exception-translating wrappers, against an abstract wrapped function
# ---------------------------------------------------------------------------------------------------------------

FAULTS = ["none", "ESRCH", "ENOENT", "EPERM", "EACCES", "EIO", "EINVAL", "ValueError"]
WINERR = {"ERROR_ACCESS_DENIED": 5, "ERROR_PRIVILEGE_NOT_HELD": 1314, "ERROR_PARTIAL_COPY": 299}


def raise_fault(it, fault):
    import errno as E
    if fault == "ESRCH":
        it.raise_(ProcessLookupError, errno=I(E.ESRCH), winerror=I(0))
    if fault == "ENOENT":
        it.raise_(FileNotFoundError, errno=I(E.ENOENT), winerror=I(0))
    if fault == "EPERM":
        it.raise_(PermissionError, errno=I(E.EPERM), winerror=I(0))
    if fault == "EACCES":
        it.raise_(PermissionError, errno=I(E.EACCES), winerror=I(0))
    if fault == "EIO":
        it.raise_(OSError, errno=I(E.EIO), winerror=I(0))
    if fault == "EINVAL":
        it.raise_(OSError, errno=I(E.EINVAL), winerror=I(0))
    if fault == "WIN_ACCESS_DENIED":
        it.raise_(OSError, errno=I(E.EINVAL), winerror=I(WINERR["ERROR_ACCESS_DENIED"]))
    if fault == "WIN_PRIVILEGE":
        it.raise_(OSError, errno=I(E.EINVAL), winerror=I(WINERR["ERROR_PRIVILEGE_NOT_HELD"]))
    if fault == "ValueError":
        it.raise_(ValueError, "not an OS error")


def setup_wrapper(mod_key):
    def setup(it, cfg):
        mod = ModuleSrc.get(MODS[mod_key])
        pid = it.fresh("pid", "Int") if cfg.get("pid") != 0 else 0
        if cfg.get("pid") != 0:
            it.assume(smt.Cmp(">", pid, I(0)))
        name = Opaque("cached_name")
        ppid = Opaque("cached_ppid")
        o = Obj("Process", {"pid": pid, "_name": name, "_ppid": ppid}, module=mod)
        zombie = it.fresh("zombie_test", "Bool")
        exists = it.fresh("pid_still_listed", "Bool")
        pid0_listed = it.fresh("pid0_listed", "Bool")
        fault = cfg["fault"]
        ret = it.fresh("fun_result", "Int")

        def fun(it2, self_, *a, **k):
            raise_fault(it2, fault)
            return ret

        m = mod.name
        it.env_over[f"{m}.is_zombie"] = EnvFunc("is_zombie", lambda it2, p: zombie)
        it.env_over[f"{m}.pid_exists"] = EnvFunc("pid_exists", lambda it2, p: exists)
        it.env_over[f"{m}.pids"] = EnvFunc("pids", lambda it2: ZeroList(pid0_listed))
        it.env_over[f"{m}.cext"] = Stub(dict(WINERR))
        return {"args": {"self": o}, "closure": {"fun": EnvFunc("fun", fun)},
                "spec": {"fault": fault, "zombie": zombie, "exists": exists, "pid0_listed": pid0_listed, "ret": ret,
                         "name": name, "ppid": ppid, "pid0": cfg.get("pid") == 0},
                "values": [zombie, exists, pid0_listed]}
    return setup


class ZeroList(list):
    """pids() result of which only `0 in pids()` is observed"""

    def __init__(self, has0):
        super().__init__()
        self.has0 = has0

    def vc_contains(self, it, x):
        return self.has0


CFGS = [{"fault": f, "pid": p} for f in FAULTS for p in ("any", 0)]

# (module key, flags, NoSuchProcess classes, zombie test kind, documented pid-0 exception)
WRAPPERS = [
    ("bsd", dict(FREEBSD=True, BSD=True, POSIX=True), ("ESRCH",), "is_zombie", True),
    ("osx", dict(MACOS=True, OSX=True, POSIX=True), ("ESRCH",), "is_zombie", False),
    ("sunos", dict(SUNOS=True, POSIX=True), ("ESRCH", "ENOENT"), "not_exists", True),
    ("aix", dict(AIX=True, POSIX=True), ("ESRCH", "ENOENT"), "not_exists", False),
]

for key, flags, gone_faults, ztest, pid0_rule in WRAPPERS:
    gf = repr(gone_faults)
    zomb = "zombie" if ztest == "is_zombie" else "exists"      # SunOS/AIX: still listed => zombie
    other = "('EIO', 'EINVAL')" if "ENOENT" in gone_faults else "('EIO', 'EINVAL', 'ENOENT')"
    raises = {
        "ZombieProcess": [f"fault in {gf}", zomb, "exc.pid == self.pid", "exc.name is name", "exc.ppid is ppid"],
        "NoSuchProcess": [f"fault in {gf}", f"not {zomb}", "exc.pid == self.pid", "exc.name is name"],
        "AccessDenied": [f"fault in ('EPERM', 'EACCES')" + (f" or (fault in {other} and pid0 and pid0_listed)" if pid0_rule else ""),
                         "exc.pid == self.pid", "exc.name is name"],
        # any other OS error passes through unchanged (same class, same errno)
        "OSError": [f"fault in {other}", "not (pid0 and pid0_listed)" if pid0_rule else "True",
                    "implies(fault == 'EIO', exc.errno == 5)", "implies(fault == 'EINVAL', exc.errno == 22)",
                    "implies(fault == 'ENOENT', exc.errno == 2)"],
        "ValueError": ["fault == 'ValueError'"],
    }
    REGISTRY.add(Contract(
        "C20", MODS[key], "wrap_exceptions.<locals>.wrapper", setup=setup_wrapper(key), env=flags_env(**flags),
        configs=CFGS, name=f"{key}.wrap_exceptions.wrapper",
        ensures=["fault == 'none'", "result == ret"], raises=raises, canaries=[], replay=None,
        note="no-such-process -> NoSuchProcess / ZombieProcess, permission -> AccessDenied, both carrying pid and cached "
             "name; other errors unchanged" + ("; unexplained OS error on the existing PID 0 -> AccessDenied" if pid0_rule else "")))

WIN_CFGS = [{"fault": f, "pid": "any"} for f in FAULTS + ["WIN_ACCESS_DENIED", "WIN_PRIVILEGE"]]
REGISTRY.add(Contract(
    "C20", MODS["win"], "wrap_exceptions.<locals>.wrapper", setup=setup_wrapper("win"), env=flags_env(WINDOWS=True),
    configs=WIN_CFGS, name="win.wrap_exceptions.wrapper", inline=["convert_oserror", "is_permission_err"],
    ensures=["fault == 'none'", "result == ret"],
    raises={
        "NoSuchProcess": ["fault == 'ESRCH'", "exc.pid == self.pid", "exc.name is name"],
        "AccessDenied": ["fault in ('EPERM', 'EACCES', 'WIN_ACCESS_DENIED', 'WIN_PRIVILEGE')", "exc.pid == self.pid",
                         "exc.name is name"],
        "OSError": ["fault in ('EIO', 'EINVAL', 'ENOENT')"],
        "ValueError": ["fault == 'ValueError'"],
    },
    canaries=[], replay=None, note="Windows: ERROR_ACCESS_DENIED / ERROR_PRIVILEGE_NOT_HELD are permission errors too"))


# ---------------------------------------------------------------------------------------------------------------
# 1b. BSD is_zombie(): which kernel states count as "zombie" on each BSD flavour
# ---------------------------------------------------------------------------------------------------------------
BSD_CONST = {"SIDL": 1, "SRUN": 2, "SSLEEP": 3, "SSTOP": 4, "SZOMB": 5, "SWAIT": 6, "SLOCK": 7, "SDEAD": 8, "SONPROC": 9,
             "SSUSPENDED": 10}
# documented mapping (psutil/_psbsd.py PROC_STATUSES; OpenBSD: "SDEAD really means STATUS_ZOMBIE")
BSD_ZOMBIE_STATES = {"FREEBSD": {"SZOMB"}, "OPENBSD": {"SZOMB", "SDEAD"}, "NETBSD": {"SZOMB"}}


def setup_bsd_zombie(it, cfg):
    flavour, state, fault = cfg["flavour"], cfg["state"], cfg["fault"]

    def info(it2, pid):
        if fault:
            it2.raise_(ProcessLookupError, errno=I(3))
        rec = [Opaque(f"slot{k}") for k in range(30)]
        rec[it2.ctx.ghost["status_slot"]] = BSD_CONST[state]
        return tuple(rec)

    it.env_over["_psbsd.cext"] = Stub(dict(BSD_CONST, proc_oneshot_info=EnvFunc("proc_oneshot_info", info)))
    mod = ModuleSrc.get(MODS["bsd"])
    kmap = it.module_name(mod, "kinfo_proc_map")
    it.ctx.ghost["status_slot"] = kmap["status"]
    return {"args": {"pid": it.fresh("pid", "Int")},
            "spec": {"is_z": (state in BSD_ZOMBIE_STATES[flavour]) and not fault, "fault": fault}}


for _fl in BSD_ZOMBIE_STATES:
    REGISTRY.add(Contract(
        "C20", MODS["bsd"], "is_zombie", name=f"bsd.is_zombie[{_fl}]", setup=setup_bsd_zombie,
        env=flags_env(**{_fl: True, "BSD": True, "POSIX": True}),
        configs=[{"flavour": _fl, "state": st, "fault": False} for st in ("SZOMB", "SDEAD", "SRUN", "SSLEEP", "SSTOP")
                 if not (st == "SDEAD" and _fl == "FREEBSD")] + [{"flavour": _fl, "state": "SZOMB", "fault": True}],
        ensures=["result == is_z"], raises={}, canaries=[], replay=None,
        note="a PID counts as a zombie exactly for the kernel states the flavour's documented status map calls zombie "
             "(OpenBSD: SDEAD as well as SZOMB); an error reading the record means 'not a zombie'"))


# ---------------------------------------------------------------------------------------------------------------
# 2. accessors: documented named tuple filled from the matching slots of the native record
# ---------------------------------------------------------------------------------------------------------------

def distinct_record(it, n, base="slot"):
    vals = [it.fresh(f"{base}{k}", "Int") for k in range(n)]
    for a in range(n):
        for b in range(a + 1, n):
            it.ctx.assume(Not(Eq(vals[a], vals[b])))
    return tuple(vals)


def setup_accessor(mod_key, record_attr, nslots, extra=None):
    def setup(it, cfg):
        mod = ModuleSrc.get(MODS[mod_key])
        pid = it.fresh("pid", "Int")
        it.assume(smt.Cmp(">", pid, I(0)))
        o = Obj("Process", {"pid": pid, "_name": Opaque("n"), "_ppid": Opaque("pp"), "_procfs_path": "/proc"}, module=mod)
        rec = distinct_record(it, nslots)
        o.attrs[record_attr] = EnvFunc(record_attr, lambda it2: rec)
        it.env_over[f"{mod.name}.cext"] = Stub(default=lambda nm: EnvFunc(nm, lambda it2, *a: it2.ctx.ghost.setdefault(
            "native_" + nm, distinct_record(it2, 6, base="n_" + nm + "_"))))
        if extra:
            extra(it, o, mod)
        slotmap = it.module_name(mod, cfg["map"])
        return {"args": {"self": o}, "spec": {"raw": rec, "slot": slotmap}}
    return setup


def h_cls(it, v):
    return type(v).__name__


def acc(mod_key, flags, method, mapname, record_attr, nslots, cls, slots, **kw):
    ens = [f"cls(result) == '{cls}'"] + [f"result[{k}] == raw[slot['{s}']]" for k, s in enumerate(slots)]
    REGISTRY.add(Contract(
        "C20", MODS[mod_key], f"Process.{method}", setup=setup_accessor(mod_key, record_attr, nslots), env=flags_env(**flags),
        configs=[{"map": mapname}], decorated=True, name=f"{mod_key}.Process.{method}", helpers={"cls": h_cls},
        ensures=ens, raises={}, canaries=[f"result[0] == raw[slot['{slots[-1]}']]"] if len(slots) > 1 else [],
        replay=None, note=f"{cls} filled from the matching slots", **kw))


BSDF = dict(FREEBSD=True, BSD=True, POSIX=True)
acc("bsd", BSDF, "uids", "kinfo_proc_map", "oneshot", 25, "puids", ["real_uid", "effective_uid", "saved_uid"])
acc("bsd", BSDF, "gids", "kinfo_proc_map", "oneshot", 25, "pgids", ["real_gid", "effective_gid", "saved_gid"])
acc("bsd", BSDF, "cpu_times", "kinfo_proc_map", "oneshot", 25, "pcputimes",
    ["user_time", "sys_time", "ch_user_time", "ch_sys_time"])
acc("bsd", BSDF, "memory_info", "kinfo_proc_map", "oneshot", 25, "pmem", ["rss", "vms", "memtext", "memdata", "memstack"])
acc("bsd", BSDF, "num_ctx_switches", "kinfo_proc_map", "oneshot", 25, "pctxsw", ["ctx_switches_vol", "ctx_switches_unvol"])
OSXF = dict(MACOS=True, OSX=True, POSIX=True)
acc("osx", OSXF, "uids", "kinfo_proc_map", "_get_kinfo_proc", 11, "puids", ["ruid", "euid", "suid"])
acc("osx", OSXF, "gids", "kinfo_proc_map", "_get_kinfo_proc", 11, "pgids", ["rgid", "egid", "sgid"])
acc("osx", OSXF, "memory_info", "pidtaskinfo_map", "_get_pidtaskinfo", 8, "pmem", ["rss", "vms", "pfaults", "pageins"])


# ---------------------------------------------------------------------------------------------------------------
# 3. table obligations on the source text
# ---------------------------------------------------------------------------------------------------------------

REPO = os.environ.get("VERIF_REPO", "/repo")


def table_gids_class():
    """gids() of every platform layer returns the documented pgids tuple class"""
    out = []
    for key, rel in MODS.items():
        tree = ast.parse(open(os.path.join(REPO, rel)).read())
        for cls in [n for n in tree.body if isinstance(n, ast.ClassDef) and n.name == "Process"]:
            for fn in ast.walk(cls):
                if isinstance(fn, ast.FunctionDef) and fn.name in ("gids", "uids"):
                    want = "pgids" if fn.name == "gids" else "puids"
                    rets = [ast.unparse(r.value.func) for r in ast.walk(fn)
                            if isinstance(r, ast.Return) and isinstance(r.value, ast.Call)]
                    ok = bool(rets) and all(r.endswith("." + want) for r in rets)
                    out.append((f"{rel}: Process.{fn.name}() returns _common.{want}", ok, str(rets)))
    return out


def c_buildvalue_args(path, func):
    """argument expressions (with their trailing // comments) of the first Py_BuildValue in a C function,
    FreeBSD branch of #ifdef PSUTIL_FREEBSD"""
    src = open(path).read()
    i = src.index(func)
    j = src.index("Py_BuildValue", i)
    k = src.index(");", j)
    body = src[j:k]
    lines = body.splitlines()
    args, active = [], True
    for ln in lines[1:]:
        s = ln.strip()
        if s.startswith("#ifdef PSUTIL_FREEBSD"):
            active = True
            continue
        if s.startswith("#elif"):
            active = False
            continue
        if s.startswith("#endif"):
            active = True
            continue
        if s.startswith("#") or s.startswith("//") or s.startswith('"') or not s or not active:
            continue
        m = re.match(r"(.+?),?\s*(//\s*(.*))?$", s)
        args.append((m.group(1).rstrip(","), (m.group(3) or "").strip()))
    return args


BSD_BINDING = {      # semantic slot -> the kinfo_proc field that must feed it (FreeBSD)
    "real_uid": "ki_ruid", "effective_uid": "ki_uid", "saved_uid": "ki_svuid",
    "real_gid": "ki_rgid", "effective_gid": "ki_groups[0]", "saved_gid": "ki_svgid",
    "status": "ki_stat", "ttynr": "ki_tdev", "create_time": "ki_start",
    "ctx_switches_vol": "ru_nvcsw", "ctx_switches_unvol": "ru_nivcsw", "read_io_count": "ru_inblock",
    "write_io_count": "ru_oublock",
}


def table_bsd_slots():
    """psutil_proc_oneshot_info's Py_BuildValue argument order (FreeBSD) against _psbsd.kinfo_proc_map"""
    args = c_buildvalue_args(os.path.join(REPO, "psutil/arch/bsd/proc.c"), "psutil_proc_oneshot_info")
    tree = ast.parse(open(os.path.join(REPO, "psutil/_psbsd.py")).read())
    kmap = None
    for st in tree.body:
        if isinstance(st, ast.Assign) and isinstance(st.targets[0], ast.Name) and st.targets[0].id == "kinfo_proc_map":
            kmap = {kw.arg: ast.literal_eval(kw.value) for kw in st.value.keywords}
    out = [("kinfo_proc_map parsed and one C argument per slot (FreeBSD)", kmap is not None and len(args) >= len(kmap) - 1,
            f"{len(args)} C args, {len(kmap or {})} slots")]
    for sem, field in BSD_BINDING.items():
        idx = (kmap or {}).get(sem)
        ok = idx is not None and idx < len(args) and field in args[idx][0]
        out.append((f"slot {sem} (index {idx}) is fed from {field}", ok,
                    args[idx][0] if idx is not None and idx < len(args) else "missing"))
    return out


def table_rlim_export():
    """the package exports (attribute and __all__ entry) every RLIM* constant the posix extension registers, on a platform
    whose Process has rlimit().  The export block of psutil/__init__.py is cut out of the AST mechanically (the top-level
    `if hasattr(_psplatform.Process, "rlimit")`; dropped: the `from . import _psutil_posix` line, replaced by a stand-in
    module holding every RLIM* name found in _psutil_posix.c, i.e. the FreeBSD-only ones too, plus decoys) and executed by
    CPython: exhaustive over the finite set of names, not a proof over arbitrary extension modules."""
    import types
    csrc = open(os.path.join(REPO, "psutil/_psutil_posix.c")).read()
    names = sorted(set(re.findall(r'"(RLIM[A-Z_]*)"', csrc)))
    tree = ast.parse(open(os.path.join(REPO, "psutil/__init__.py")).read())
    blocks = [st for st in tree.body if isinstance(st, ast.If) and "rlimit" in ast.unparse(st.test)]
    out = [("RLIM* names found in _psutil_posix.c and one export block in psutil/__init__.py",
            len(names) >= 10 and len(blocks) == 1, f"{len(names)} names, {len(blocks)} blocks")]
    if len(blocks) != 1:
        return out
    body = [st for st in blocks[0].body
            if not (isinstance(st, ast.ImportFrom) and any(a.name == "_psutil_posix" for a in st.names))]
    fake = types.ModuleType("_psutil_posix")
    for i, n in enumerate(names):
        setattr(fake, n, 1000 + i)
    for d in ("getpriority", "POSIX", "rlim_lower", "Rlimit"):
        setattr(fake, d, object())
    plat = types.SimpleNamespace(Process=type("Process", (), {"rlimit": lambda self, *a: None}))
    ns = {"_psutil_posix": fake, "_psplatform": plat, "__all__": [], "__name__": "psutil"}
    try:
        blk = ast.copy_location(ast.If(test=blocks[0].test, body=body, orelse=[]), blocks[0])
        exec(compile(ast.Module(body=[blk], type_ignores=[]), "<rlim-export>", "exec"), ns)
        err = None
    except Exception as e:      # noqa: BLE001
        err = repr(e)
    out.append(("the export block runs against the stand-in module", err is None, str(err)))
    for i, n in enumerate(names):
        ok = ns.get(n) == 1000 + i and n in ns["__all__"]
        out.append((f"psutil.{n} exported with the extension's value and listed in __all__", ok,
                    f"attr={ns.get(n)!r} in __all__={n in ns['__all__']}"))
    extra = [n for n in ns["__all__"] if n not in names]
    out.append(("nothing but RLIM* constants is added to __all__ by the block", not extra, str(extra)))
    return out


# --- "the package exposes for that platform the function ... names its documentation promises" ---------------------------
# docs/index.rst says for each optional module-level function on which platforms it is available; psutil/__init__.py
# defines them under `if hasattr(_psplatform, ...)` / `if WINDOWS:` tests.  For every platform the tests are evaluated
# (CPython, the real AST nodes) against a stand-in platform module that has exactly the top-level names of that platform's
# module under that platform's flags; `os` has getloadavg everywhere but on Windows.  Exhaustive over documented function x
# platform pairs; only "promised => exposed" is demanded.
PLAT = {   # platform -> (module file, flags)
    "Linux": ("psutil/_pslinux.py", {"LINUX": True}),
    "Windows": ("psutil/_pswindows.py", {"WINDOWS": True}),
    "macOS": ("psutil/_psosx.py", {"MACOS": True, "OSX": True}),
    "FreeBSD": ("psutil/_psbsd.py", {"FREEBSD": True, "BSD": True}),
    "OpenBSD": ("psutil/_psbsd.py", {"OPENBSD": True, "BSD": True}),
    "NetBSD": ("psutil/_psbsd.py", {"NETBSD": True, "BSD": True}),
    "SunOS": ("psutil/_pssunos.py", {"SUNOS": True}),
    "AIX": ("psutil/_psaix.py", {"AIX": True}),
}
ALLFLAGS = ["LINUX", "WINDOWS", "MACOS", "OSX", "FREEBSD", "OPENBSD", "NETBSD", "BSD", "SUNOS", "AIX", "POSIX"]
ALIAS = {"unix": [p for p in PLAT if p != "Windows"], "bsd": ["FreeBSD", "OpenBSD", "NetBSD"], "solaris": ["SunOS"],
         "sunos": ["SunOS"], "osx": ["macOS"]}


def doc_availability():
    out = {}
    cur = None
    for ln in open(os.path.join(REPO, "docs/index.rst")):
        m = re.match(r"^\.\. (function|method|class|data|attribute)::\s*([\w.]+)", ln)
        if m:
            cur = m.group(2) if m.group(1) == "function" else None
            continue
        if re.match(r"^\S", ln) and not ln.startswith(".."):
            cur = None if re.match(r"^[=\-~^]{3,}", ln) else cur
        m = re.match(r"^\s+Availability:\s*(.*)", ln)
        if m and cur:
            first = m.group(1).split(".")[0]
            plats = []
            for tok in first.split(","):
                t = tok.strip().split()[0].lower() if tok.strip() else ""
                for p in PLAT:
                    if p.lower() == t:
                        plats.append(p)
                plats += ALIAS.get(t, [])
            out.setdefault(cur, set()).update(plats)
    return out


def module_names(rel, flags):
    env = {f: False for f in ALLFLAGS}
    env.update(flags)
    env["POSIX"] = not flags.get("WINDOWS", False)
    names = set()

    def walk(body):
        for st in body:
            if isinstance(st, (ast.FunctionDef, ast.ClassDef)):
                names.add(st.name)
            elif isinstance(st, ast.Assign):
                for t in st.targets:
                    for n in ast.walk(t):
                        if isinstance(n, ast.Name):
                            names.add(n.id)
            elif isinstance(st, ast.If):
                try:
                    v = eval(compile(ast.Expression(st.test), "<g>", "eval"), {"__builtins__": {}}, dict(env))
                except Exception:
                    v = None
                if v is None or v:
                    walk(st.body)
                if v is None or not v:
                    walk(st.orelse)
            elif isinstance(st, (ast.Try, ast.With)):
                walk(st.body)
    walk(ast.parse(open(os.path.join(REPO, rel)).read()).body)
    return names


def exported(plat):
    rel, flags = PLAT[plat]
    names = module_names(rel, flags)
    import types
    stub = types.SimpleNamespace(**{n: object() for n in names})
    if "Process" in names:
        stub.Process = type("Process", (), {})
    osstub = types.SimpleNamespace()
    if plat != "Windows":
        osstub.getloadavg = lambda: (0, 0, 0)
    env = {f: False for f in ALLFLAGS}
    env.update(flags)
    env["POSIX"] = plat != "Windows"
    env.update(_psplatform=stub, os=osstub, hasattr=hasattr)
    out = set()
    tree = ast.parse(open(os.path.join(REPO, "psutil/__init__.py")).read())
    for st in tree.body:
        if isinstance(st, ast.FunctionDef):
            out.add(st.name)
        if isinstance(st, ast.If):
            try:
                v = eval(compile(ast.Expression(st.test), "<t>", "eval"), {"__builtins__": {}}, dict(env))
            except Exception:
                continue
            body = st.body if v else st.orelse
            for n in body:
                if isinstance(n, ast.FunctionDef):
                    out.add(n.name)
                for c in ast.walk(n):
                    if isinstance(c, ast.Call) and ast.unparse(c.func) in ("__all__.append", "__all__.extend"):
                        for a in ast.walk(c):
                            if isinstance(a, ast.Constant) and isinstance(a.value, str):
                                out.add(a.value)
    return out



def table_conditional_api():
    out = []
    doc = doc_availability()
    out.append(("docs/index.rst availability notes parsed", len(doc) >= 5, str(sorted(doc))))
    cache = {}
    for fn, plats in sorted(doc.items()):
        for pl in sorted(plats):
            if pl not in cache:
                cache[pl] = exported(pl)
            out.append((f"psutil.{fn} is exposed on {pl} (documented there)", fn in cache[pl], "not defined / not exported"))
    return out


TABLES = [table_gids_class, table_bsd_slots, table_rlim_export, table_conditional_api]


# ---------------------------------------------------------------------------------------------------------------
# 4. front end: platform-conditional post-processing in net_if_addrs
# ---------------------------------------------------------------------------------------------------------------

def setup_ifaddrs(it, cfg):
    import socket
    win = cfg["windows"]
    it.env_over.update(flags_env(WINDOWS=True) if win else flags_env(LINUX=True, POSIX=True))
    fam = int(socket.AF_INET)
    raw = [("eth0", fam, "10.0.0.5", "255.255.255.0", None if win else "10.0.0.255", None),
           ("eth0", -1 if win else 17, "aa-bb" if win else "aa:bb", None, None, None),
           # a second interface: each row's broadcast is computed from that row, not carried over from another one
           ("eth1", fam, "192.168.1.7", "255.255.0.0", None if win else "192.168.255.255", None),
           ("eth1", fam, "172.16.0.9", "255.240.0.0", None if win else "172.31.255.255", None)]
    plat = "_pswindows" if win else "_pslinux"
    it.env_over[f"{plat}.net_if_addrs"] = EnvFunc("raw", lambda it2: list(raw))
    it.env_over[f"{plat}.AF_LINK"] = -1 if win else 17
    it.env_over["__init__._psplatform"] = Stub({"net_if_addrs": EnvFunc("raw", lambda it2: list(raw)),
                                                "AF_LINK": -1 if win else 17})
    bcast = it.fresh("computed_broadcast", "String", "str")
    bc2, bc3 = it.fresh("computed_broadcast2", "String", "str"), it.fresh("computed_broadcast3", "String", "str")
    by_addr = {"10.0.0.5": bcast, "192.168.1.7": bc2, "172.16.0.9": bc3}
    other = it.fresh("computed_broadcast_of_another_row", "String", "str")
    it.env_over["_common.broadcast_addr"] = EnvFunc("broadcast_addr", lambda it2, nt: by_addr.get(nt.address, other))
    return {"args": {}, "spec": {"win": win, "bcast": bcast, "bc2": bc2, "bc3": bc3}, "values": [bcast, bc2, bc3]}


import collections as _c  # noqa: E402
SNIC = _c.namedtuple("snicaddr", ["family", "address", "netmask", "broadcast", "ptp"])

REGISTRY.add(Contract(
    "C20", INIT, "net_if_addrs", setup=setup_ifaddrs,
    env=flags_env(), configs=[{"windows": True}, {"windows": False}], name="__init__.net_if_addrs",
    helpers={"bc_of": lambda it, rows, addr: next((r.broadcast for r in rows if r.address == addr), "<no such row>")},
    ensures=[
        "set(result) == {'eth0', 'eth1'} and len(result['eth0']) == 2 and len(result['eth1']) == 2",
        "implies(win, bc_of(result['eth1'], '192.168.1.7') == bc2 and bc_of(result['eth1'], '172.16.0.9') == bc3)",
        "implies(not win, bc_of(result['eth1'], '192.168.1.7') == '192.168.255.255' and "
        "bc_of(result['eth1'], '172.16.0.9') == '172.31.255.255')",
        # rows are sorted by family: on Windows the link row (family -1) comes first, on Linux the inet row
        "implies(win, result['eth0'][1].broadcast == bcast)",             # the computed broadcast address takes effect
        "implies(not win, result['eth0'][0].broadcast == '10.0.0.255')",
        "implies(win, result['eth0'][0].address == 'aa-bb-00-00-00-00')",  # MAC padded to six groups
        "implies(not win, result['eth0'][1].address == 'aa:bb:00:00:00:00')",
    ],
    raises={}, canaries=["result == {}"], replay="c20:ifaddrs",
    note="platform-conditional post-processing in the front end takes effect (Windows broadcast, MAC padding)"))


# ---------------------------------------------------------------------------------------------------------------
# 5. Windows: memory record, native path and permission-error fallback through proc_info()
# ---------------------------------------------------------------------------------------------------------------

def setup_win_mem(it, cfg):
    mod = ModuleSrc.get(MODS["win"])
    pid = it.fresh("pid", "Int")
    it.assume(smt.Cmp(">", pid, I(0)))
    o = Obj("Process", {"pid": pid, "_name": Opaque("n"), "_ppid": Opaque("pp")}, module=mod)
    native = distinct_record(it, 10, base="pmc")       # PROCESS_MEMORY_COUNTERS_EX order
    info = distinct_record(it, 22, base="info")        # proc_info() record, indexed through pinfo_map
    fault = cfg["fault"]

    def proc_memory_info(it2, p):
        raise_fault(it2, fault)
        return native

    it.env_over["_pswindows.cext"] = Stub(dict(WINERR, proc_memory_info=EnvFunc("proc_memory_info", proc_memory_info)))
    o.attrs["_proc_info"] = EnvFunc("_proc_info", lambda it2: info)
    slot = it.module_name(mod, "pinfo_map")
    return {"args": {"self": o}, "spec": {"native": native, "info": info, "slot": slot, "fault": fault}}


WIN_MEM_FIELDS = ["num_page_faults", "peak_wset", "wset", "peak_paged_pool", "paged_pool", "peak_nonpaged_pool",
                  "nonpaged_pool", "pagefile", "peak_pagefile", "private"]
WIN_SLOTS = ["num_page_faults", "peak_wset", "wset", "peak_paged_pool", "paged_pool", "peak_non_paged_pool",
             "non_paged_pool", "pagefile", "peak_pagefile", "mem_private"]

REGISTRY.add(Contract(
    "C20", MODS["win"], "Process.memory_info", setup=setup_win_mem, env=flags_env(WINDOWS=True), decorated=True,
    configs=[{"fault": f} for f in ("none", "EACCES", "WIN_ACCESS_DENIED", "WIN_PRIVILEGE")],
    name="win.Process.memory_info", inline=["_get_raw_meminfo", "is_permission_err", "convert_oserror"],
    helpers={"cls": h_cls},
    ensures=["cls(result) == 'pmem'"] +
            [f"implies(fault == 'none', result.{f} == native[{k}])" for k, f in enumerate(WIN_MEM_FIELDS)] +
            [f"implies(fault != 'none', result.{f} == info[slot['{s}']])" for f, s in zip(WIN_MEM_FIELDS, WIN_SLOTS)] +
            ["implies(fault == 'none', result.rss == native[2] and result.vms == native[7])",
             "implies(fault != 'none', result.rss == info[slot['wset']] and result.vms == info[slot['pagefile']])"],
    raises={}, canaries=["result.rss == result.vms"], replay=None,
    note="pmem filled from PROCESS_MEMORY_COUNTERS, or - when that call is denied - from the matching proc_info() slots"))


# --- _psbsd.wrap_exceptions_procfs (NetBSD: routines reading /proc) through Process.exe --------------------------------------
# the context manager is executed by the engine (generator split at its yield, the fault thrown in at that point)

def setup_procfs_exe(it, cfg):
    mod = ModuleSrc.get(MODS["bsd"])
    pid = it.fresh("pid", "Int")
    it.assume(smt.Cmp(">", pid, I(0)))
    name, ppid = Opaque("cached_name"), Opaque("cached_ppid")
    o = Obj("Process", {"pid": pid, "_name": name, "_ppid": ppid}, module=mod)
    zombie = it.fresh("zombie_test", "Bool")
    fault = cfg["fault"]
    target = Opaque("link_target")

    def readlink(it2, path, *a, **k):
        raise_fault(it2, fault)
        return target

    m = mod.name
    it.env_over[f"{m}.is_zombie"] = EnvFunc("is_zombie", lambda it2, p: zombie)
    it.env_over["os.readlink"] = EnvFunc("readlink", readlink)
    it.env_over[f"{m}.pids"] = EnvFunc("pids", lambda it2: ZeroList(B(False)))
    return {"args": {"self": o}, "spec": {"fault": fault, "zombie": zombie, "name": name, "ppid": ppid, "target": target},
            "values": [zombie]}


REGISTRY.add(Contract(
    "C20", MODS["bsd"], "Process.exe", name="bsd.Process.exe[NETBSD] (wrap_exceptions_procfs)", setup=setup_procfs_exe,
    env=flags_env(NETBSD=True, BSD=True, POSIX=True), decorated=True,
    configs=[{"fault": f} for f in FAULTS if f != "ValueError"],
    ensures=["fault == 'none'", "result is target"],
    raises={
        "ZombieProcess": ["fault in ('ESRCH', 'ENOENT')", "zombie", "exc.pid == self.pid", "exc.name is name",
                          "exc.ppid is ppid"],
        "NoSuchProcess": ["fault in ('ESRCH', 'ENOENT')", "not zombie", "exc.pid == self.pid", "exc.name is name"],
        "AccessDenied": ["fault in ('EPERM', 'EACCES')", "exc.pid == self.pid", "exc.name is name"],
        "OSError": ["fault in ('EIO', 'EINVAL')"],
    },
    canaries=[], replay=None,
    note="/proc-reading routines on NetBSD: ENOENT/ESRCH -> NoSuchProcess or ZombieProcess, EPERM/EACCES -> AccessDenied, "
         "carrying the pid, the cached name (and the cached ppid for zombies)"))
