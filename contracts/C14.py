"""C14 - open_files(), num_fds() and io_counters() reflect the descriptor table exactly."""
import os

from .common import *  # noqa: F401,F403
from .common import Contract, Registry, LoopSpec, BASE_ENV, LINUX_PY, fold_fn, h_map_is, bounded_sweep
from .procenv import ProcEnv, linux_process
from vc import lib

REGISTRY = Registry()
TRUSTED = ["library models: int & mask on unbounded ints (exact div/mod encoding), str.replace on constants, "
           "bytes.strip/split(b': ') as uninterpreted functions the io-record grammar is stated with",
           "environment model contracts/procenv.py"]
ASSUMPTIONS = ["SHAPE BOUND of the open_files contract: descriptor tables of 0..2 entries (3 in the thorough tier); per "
               "descriptor all link/fdinfo outcomes and unconstrained paths, positions, flag words; fdinfo's first two lines "
               "are 'pos:\\t<decimal>' and 'flags:\\t<octal>' (kernel fs/proc/fd.c seq_show)",
               "/proc/<pid>/io grammar: a line holding exactly one ': ' carries a decimal value (kernel "
               "fs/proc/base.c do_io_accounting); other lines are arbitrary (blank, malformed)",
               "O_* flag values are those of the running platform's os module (Linux generic: O_APPEND=0o2000)"]
NOT_COVERED = ["open_files() for descriptor tables larger than the shape bound of its contract (n <= 2 quick, 3 thorough): the "
               "loop body is executed per descriptor with no state carried between iterations except retlist/hit_enoent, "
               "which is the (not machine-checked) argument for larger tables; the bounded sweep over generated descriptor "
               "tables on a fake procfs remains as a second check",
               "open_files() through wrap_exceptions: the decorator's translation is proved once for the other readers (C03)"]
ENV = dict(BASE_ENV)


# --- file_flags_to_mode --------------------------------------------------------------------

def setup_flags(it, cfg):
    flags = it.fresh("flags", "Int")
    it.assume(smt.Cmp(">=", flags, I(0)))
    return {"args": {"flags": flags}, "spec": {"O_APPEND": os.O_APPEND}, "values": [flags]}


def h_acc(it, flags):
    return it.binop("BitAnd", flags, 3)


def h_app(it, flags):
    r = it.binop("BitAnd", flags, os.O_APPEND)
    return Not(Eq(it.term(r), I(0))) if is_t(r) else (r != 0)


REGISTRY.add(Contract(
    "C14", LINUX_PY, "file_flags_to_mode", setup=setup_flags, env=ENV, helpers={"acc": h_acc, "app": h_app},
    ensures=[
        "implies(acc(flags) == 0, result == 'r')",
        "implies(acc(flags) == 1 and not app(flags), result == 'w')",
        "implies(acc(flags) == 1 and app(flags), result == 'a')",
        "implies(acc(flags) == 2 and not app(flags), result == 'r+')",
        "implies(acc(flags) == 2 and app(flags), result == 'a+')",
        # access mode 3 (both bits; Linux: ioctl-only descriptor) reads as read-write, the superset of what its bits name
        "implies(acc(flags) == 3 and not app(flags), result == 'r+')",
        "implies(acc(flags) == 3 and app(flags), result == 'a+')",
        "result == 'r' or result == 'w' or result == 'a' or result == 'r+' or result == 'a+'",
    ],
    raises={},   # no flag word may make it fail (open_files() must not fail for a live process)
    canaries=["result == 'r'"],
    returns=lambda it, env: it.fresh("mode", "String", "str"), replay="c14:flags",
    note="mode string implied by access mode and O_APPEND only, for every flag word (access mode 3 included)"))


# --- io_counters ----------------------------------------------------------------------------------

IO_KEYS = [b"syscr", b"syscw", b"read_bytes", b"write_bytes", b"rchar", b"wchar"]


def setup_io(it, cfg):
    proc = linux_process(it)
    L = it.fresh("io_lines", ("Seq", "String"))
    n = smt.Len(L)
    for fn_, a_, r_ in (("py_strip", ["String"], "String"), ("py_split", ["String", "String"], ("Seq", "String")),
                        ("py_intval", ["String"], "Int")):
        it.ctx.uf(fn_, a_, r_)
    SEP = S(b": ")

    def stripped(j):
        return smt.app("py_strip", "String", smt.Nth(L, j))

    def parts(j):
        return smt.app("py_split", ("Seq", "String"), stripped(j), SEP)

    def valid(j):
        return And(smt.Cmp(">", smt.Len(stripped(j)), I(0)), Eq(smt.Len(parts(j)), I(2)))

    def key(j):
        return smt.Nth(parts(j), I(0))

    def val(j):
        return smt.app("py_intval", "Int", smt.Nth(parts(j), I(1)))

    it.forall_int(lambda j: Implies(And(smt.Cmp("<=", I(0), j), smt.Cmp("<", j, n), valid(j)),
                                    lib.in_re(smt.Nth(parts(j), I(1)), lib.digits_re())))
    P = fold_fn(it, "io_P", ("Array", "String", "Bool"), n, smt.ConstArray("String", B(False)),
                lambda j, prev: Ite(valid(j), smt.Store(prev, key(j), B(True)), prev))
    V = fold_fn(it, "io_V", ("Array", "String", "Int"), n, smt.ConstArray("String", I(0)),
                lambda j, prev: Ite(valid(j), smt.Store(prev, key(j), val(j)), prev))
    C = fold_fn(it, "io_C", "Int", n, I(0), lambda j, prev: Ite(valid(j), smt.Add(prev, I(1)), prev))
    it.forall_int(lambda j: Implies(And(smt.Cmp("<=", I(0), j), smt.Cmp("<=", j, n)), smt.Cmp(">=", C(j), I(0))))
    env = ProcEnv(it, files={"/io": lambda it2, p: SymFile(L, "bytes")}).install()
    M = SymMap("String", "Int", P(n), V(n), kbk="bytes")
    return {"args": {"self": proc},
            "spec": {"M": M, "P": EnvFunc("P", lambda it2, x: P(x)), "V": EnvFunc("V", lambda it2, x: V(x)),
                     "C": EnvFunc("C", lambda it2, x: C(x)), "nlines": n},
            "values": [L]}


def h_has(it, M, key):
    if isinstance(M, dict):
        return key in M
    return smt.Select(M.pres, it.term(key))


REGISTRY.add(Contract(
    "C14", LINUX_PY, "Process.io_counters", setup=setup_io, env=ENV, decorated=True,
    helpers={"has": h_has, "map_is": h_map_is},
    loops={0: LoopSpec(inv=["map_is(fields, P(_i), V(_i))", "(len(fields) == 0) == (C(_i) == 0)",
                            "forall('String', lambda k: implies(k in fields, len(fields) > 0))"],
                       havoc={"fields": ("Map", "Bytes", "Int", "keys")})},
    ensures=[
        "result.read_count == M[b'syscr']", "result.write_count == M[b'syscw']",
        "result.read_bytes == M[b'read_bytes']", "result.write_bytes == M[b'write_bytes']",
        "result.read_chars == M[b'rchar']", "result.write_chars == M[b'wchar']",
        "has(M, b'syscr') and has(M, b'syscw') and has(M, b'read_bytes') and has(M, b'write_bytes') "
        "and has(M, b'rchar') and has(M, b'wchar')",
    ],
    raises={"RuntimeError": "C(nlines) == 0",
            "ValueError": "not (has(M, b'syscr') and has(M, b'syscw') and has(M, b'read_bytes') and "
                          "has(M, b'write_bytes') and has(M, b'rchar') and has(M, b'wchar'))",
            "NoSuchProcess": None, "ZombieProcess": None, "AccessDenied": None},
    inline=["_is_zombie", "_raise_if_zombie"],
    canaries=["result.read_count == M[b'syscw']"], replay="c14:io",
    note="the kernel's six per-process I/O counters under the documented names; blank lines and lines without "
         "exactly one ': ' are ignored; empty file -> RuntimeError, missing key -> ValueError"))


# --- num_fds ----------------------------------------------------------------------------------------

def setup_numfds(it, cfg):
    proc = linux_process(it)
    names = make_value(it, "fd_names", ("Seq", "Str"))
    ProcEnv(it, files={"/fd": lambda it2, p: names}).install()
    return {"args": {"self": proc}, "spec": {"names": names}, "values": [names.seq]}


REGISTRY.add(Contract(
    "C14", LINUX_PY, "Process.num_fds", setup=setup_numfds, env=ENV, decorated=True,
    ensures=["result == len(names)"], canaries=["result == 0"],
    raises={"NoSuchProcess": None, "ZombieProcess": None, "AccessDenied": None},
    inline=["_is_zombie", "_raise_if_zombie"], replay=None,
    note="counts all descriptors"))


# --- open_files: the descriptor scan under contract ----------------------------------------------------------------------
# The real method body is executed for a descriptor table of N entries (cfg n: 0, 1, 2 - the table's SHAPE is the bound)
# with, per descriptor, every outcome of readlink() (regular file at an absolute path / absolute path to something else /
# non-absolute target such as 'pipe:[5]' (also one that happens to name a regular file) / ENOENT / ESRCH / EINVAL / ENAMETOOLONG / any other OSError), every outcome of
# opening fdinfo (ok / ENOENT / ESRCH), and SYMBOLIC target paths, positions and flag words.
import errno as _errno
from vc.interp import PyRaise as _PyRaise

RL = ["reg", "notreg", "rel", "relreg", "ENOENT", "ESRCH", "EINVAL", "ENAMETOOLONG", "OTHER"]
FD_NAMES = ["3", "17", "255"]


class _FdInfo:
    """fdinfo file object: `with open_binary(..) as f`, two readline() calls -> 'pos:\t<dec>' and 'flags:\t<oct>'"""

    def __init__(self, k, ptok, ftok):
        self.k, self.toks, self.n = k, [(b"pos:", ptok), (b"flags:", ftok)], 0

    def vc_enter(self, it):
        return self

    def vc_exit(self, it, exc):
        return None

    def vc_getattr(self, it, name):
        if name == "readline":
            def rl(it2):
                if self.n >= 2:
                    raise Unsupported("third readline() on fdinfo: outside the file model")
                tk = self.toks[self.n]
                self.n += 1
                return _Line(tk)
            return EnvFunc("readline", rl)
        if name == "close":
            return EnvFunc("close", lambda it2: None)
        raise Unsupported(f"fdinfo file attribute {name}")


class _Line:
    def __init__(self, tk):
        self.tk = tk

    def vc_getattr(self, it, name):
        if name == "split":
            return EnvFunc("split", lambda it2, *a: [self.tk[0], self.tk[1]])
        raise Unsupported(f"fdinfo line method {name}")


def setup_of(it, cfg):
    n = cfg["n"]
    proc = linux_process(it)
    fds = FD_NAMES[:n]
    rl = [RL[it.choose(len(RL), f"readlink outcome of fd {fd}")] for fd in fds]
    paths, ptoks, ftoks = [], [], []
    vals = []
    for k, fd in enumerate(fds):
        pth = it.fresh(f"path{k}", "String", "str")
        if rl[k] in ("reg", "notreg"):
            it.assume(smt.app("str.prefixof", "Bool", S("/"), pth))
        elif rl[k] in ("rel", "relreg"):
            it.assume(Not(smt.app("str.prefixof", "Bool", S("/"), pth)))
        pt, ft = it.fresh(f"postok{k}", "String", "bytes"), it.fresh(f"flagtok{k}", "String", "bytes")
        it.assume(lib.in_re(pt, lib.digits_re()))
        it.assume(lib.in_re(ft, '(re.+ (re.range "0" "7"))'))
        paths.append(pth), ptoks.append(pt), ftoks.append(ft)
        vals += [pth, pt, ft]
    other_errno = it.fresh("other_errno", "Int")
    it.assume(And(*[Not(Eq(other_errno, I(e))) for e in (_errno.EINVAL, _errno.ENAMETOOLONG, _errno.ENOENT, _errno.ESRCH)]))
    vals.append(other_errno)
    gh = it.ctx.ghost
    gh["fi"], gh["alive_calls"], gh["alive_outcome"] = {}, 0, None

    def listdir(it2, path):
        it2.ctx.log.append(("listdir", path_text_(path)))
        return list(fds)

    def path_text_(path):
        from .procenv import path_text
        return path_text(path)

    def which(path, middle):
        txt = path_text_(path)
        for k, fd in enumerate(fds):
            if txt.endswith(f"/{middle}/{fd}"):
                return k
        raise Unsupported(f"access to {txt}: not a descriptor of the table")

    def readlink(it2, path):
        k = which(path, "fd")
        it2.ctx.log.append(("readlink", k))
        o = rl[k]
        if o in ("reg", "notreg", "rel", "relreg"):
            return paths[k]
        if o == "ENOENT":
            raise _PyRaise(ExcVal(FileNotFoundError, (), {"errno": I(_errno.ENOENT)}))
        if o == "ESRCH":
            raise _PyRaise(ExcVal(ProcessLookupError, (), {"errno": I(_errno.ESRCH)}))
        if o == "OTHER":
            raise _PyRaise(ExcVal(OSError, (), {"errno": other_errno}))
        raise _PyRaise(ExcVal(OSError, (), {"errno": I(getattr(_errno, o))}))

    def isfile_strict(it2, path):
        for k in range(n):
            if path is paths[k]:
                return rl[k] in ("reg", "relreg")      # relreg: a non-absolute target that happens to name a regular file
        raise Unsupported("isfile_strict on something that is not a link target of the table")

    def open_binary(it2, path, *a, **kw):
        k = which(path, "fdinfo")
        o = ["ok", "ENOENT", "ESRCH"][it2.choose(3, f"fdinfo outcome of fd {fds[k]}")]
        gh["fi"][k] = o
        if o == "ENOENT":
            raise _PyRaise(ExcVal(FileNotFoundError, (), {"errno": I(_errno.ENOENT)}))
        if o == "ESRCH":
            raise _PyRaise(ExcVal(ProcessLookupError, (), {"errno": I(_errno.ESRCH)}))
        return _FdInfo(k, ptoks[k], ftoks[k])

    def alive(it2):
        gh["alive_calls"] += 1
        o = ["ok", "NoSuchProcess", "ZombieProcess"][it2.choose(3, "_raise_if_not_alive outcome")]
        gh["alive_outcome"] = o
        if o != "ok":
            from vc.interp import PS_EXC
            raise _PyRaise(ExcVal(PS_EXC[o][0], (), {"pid": proc.attrs["pid"]}))

    for m in ("_pslinux",):
        it.env_over[f"{m}.readlink"] = EnvFunc("readlink", readlink)
        it.env_over[f"{m}.isfile_strict"] = EnvFunc("isfile_strict", isfile_strict)
        it.env_over[f"{m}.open_binary"] = EnvFunc("open_binary", open_binary)
    it.env_over["os.listdir"] = EnvFunc("os.listdir", listdir)
    proc.attrs["_raise_if_not_alive"] = EnvFunc("_raise_if_not_alive", alive)
    return {"args": {"self": proc},
            "spec": {"fds": fds, "rl": rl, "paths": paths, "ptoks": ptoks, "ftoks": ftoks, "gh": gh}, "values": vals}


def _mode_of(it, flags):
    acc, app = h_acc(it, flags), h_app(it, flags)
    a = it.term(acc)
    return Ite(Eq(a, I(0)), S("r"), Ite(Eq(a, I(1)), Ite(app, S("a"), S("w")), Ite(app, S("a+"), S("r+"))))


def _hit(env):
    rl, fi = env["rl"], env["gh"]["fi"]
    return any(o in ("ENOENT", "ESRCH") for o in rl) or any(o != "ok" for o in fi.values())


def p_of_rows(it, env):
    """one row per descriptor whose link target is an absolute path to a regular file and whose fdinfo could be read, in
    directory order: (target, int(fd name), decimal position, mode of the flag word, octal flag word)"""
    res, rl, fi = env["result"], env["rl"], env["gh"]["fi"]
    want = []
    for k, fd in enumerate(env["fds"]):
        if rl[k] == "reg":
            if k not in fi:
                return B(False)          # a regular file whose fdinfo was never opened
            if fi[k] == "ok":
                want.append(k)
    if not isinstance(res, list) or len(res) != len(want):
        return B(False)
    it.ctx.uf("py_intval", ["String"], "Int")
    it.ctx.uf("py_int8", ["String"], "Int")
    cl = []
    for row, k in zip(res, want):
        flags = smt.app("py_int8", "Int", env["ftoks"][k])
        f = getattr(row, "attrs", None) or {}
        try:
            path, fdn, pos, mode, fl = (it.getattr_(row, a) for a in ("path", "fd", "position", "mode", "flags"))
        except Exception:
            return B(False)
        cl += [lift(lib.equal(it, path, env["paths"][k])), lift(lib.equal(it, fdn, int(env["fds"][k]))),
               lift(lib.equal(it, pos, smt.app("py_intval", "Int", env["ptoks"][k]))),
               lift(lib.equal(it, fl, flags)), lift(lib.equal(it, mode, _mode_of(it, flags)))]
    return And(*cl) if cl else B(True)


def p_of_alive(it, env):
    """the liveness check runs exactly when some descriptor vanished under the scan (ENOENT/ESRCH), once, after the scan"""
    gh = env["gh"]
    return B(gh["alive_calls"] == (1 if _hit(env) else 0))


def p_of_scan(it, env):
    """every descriptor of the listing is looked at (readlink once each, in order)"""
    got = [e[1] for e in env["log"] if e[0] == "readlink"]
    return B(got == list(range(len(env["fds"]))))


def x_of_oserror(it, env):
    """only an unexpected OSError of readlink() propagates, and only from the first such descriptor"""
    return B("OTHER" in env["rl"])


def x_of_gone(it, env):
    return B(_hit(env) and env["gh"]["alive_calls"] == 1 and env["gh"]["alive_outcome"] in ("NoSuchProcess", "ZombieProcess"))


OFS = Contract(
    "C14", LINUX_PY, "Process.open_files", name="_pslinux.Process.open_files (descriptor scan)", setup=setup_of, env=ENV,
    configs=[{"n": 0}, {"n": 1}, {"n": 2}] + ([{"n": 3}] if os.environ.get("VERIF_TIER") == "thorough" else []),
    ensures=[p_of_rows, p_of_alive, p_of_scan],
    raises={"OSError": x_of_oserror, "NoSuchProcess": x_of_gone, "ZombieProcess": x_of_gone},
    canaries=[], replay="c14:scan", max_paths=60000, parallel=True,
    note="the undecorated method body: rows exactly for regular files at absolute paths with readable fdinfo; vanished "
         "descriptors are skipped and trigger one liveness check; EINVAL / ENAMETOOLONG links are skipped; other errors "
         "propagate")
REGISTRY.add(OFS)


# --- open_files: bounded stand-in ------------------------------------------------------------------
OF = Contract("C14", LINUX_PY, "Process.open_files", env=ENV, decorated=True,
              ensures=["result == exactly the descriptors whose target is an absolute path to a regular file, with "
                       "(path, fd, position, mode(flags), flags) of each"],
              replay="c14:open_files", note="bounded: descriptor scan against generated descriptor tables")
BOUNDED_CONTRACTS = [OF]
BOUNDED = [bounded_sweep(OF, "c14:open_files", quick=60, thorough=1500)]


# --- table: the descriptor-table readers run their body on every call ------------------------------------------------

def table_fd_readers_not_cached():
    """"reflect the descriptor table exactly ... for every history": open_files(), num_fds() and io_counters() read /proc on
    every call.  A caching decorator on one of them (memoize_when_activated freezes the answer for a whole oneshot() block,
    memoize for ever) would return the table of an earlier moment; oneshot_enter() must not activate a cache on them."""
    import ast as _ast
    repo = os.environ.get("VERIF_REPO", "/repo")
    out = []
    names = ("open_files", "num_fds", "io_counters")
    for rel in (LINUX_PY, "psutil/__init__.py"):
        tree = _ast.parse(open(os.path.join(repo, rel)).read())
        for cls in [n for n in tree.body if isinstance(n, _ast.ClassDef) and n.name == "Process"]:
            for node in cls.body:
                if isinstance(node, _ast.FunctionDef) and node.name in names:
                    decs = [_ast.unparse(d) for d in node.decorator_list]
                    caching = [d for d in decs if any(w in d.lower() for w in ("memo", "cache", "lru"))]
                    out.append((f"{rel}: Process.{node.name} carries no caching decorator", not caching,
                                f"decorators: {decs}"))
                if isinstance(node, _ast.FunctionDef) and node.name in ("oneshot_enter", "oneshot"):
                    act = [_ast.unparse(c.func) for c in _ast.walk(node) if isinstance(c, _ast.Call)
                           and isinstance(c.func, _ast.Attribute) and c.func.attr == "cache_activate"]
                    bad = [a for a in act if any(f".{n}." in a for n in names)]
                    out.append((f"{rel}: Process.{node.name} activates no cache on a descriptor-table reader", not bad,
                                str(bad)))
    return out


TABLES = list(globals().get("TABLES", [])) + [table_fd_readers_not_cached]
