"""C14 - open_files(), num_fds() and io_counters() reflect the descriptor table exactly."""
import os

from .common import *  # noqa: F401,F403
from .common import Contract, Registry, LoopSpec, BASE_ENV, LINUX_PY, fold_fn, h_map_is, bounded_sweep
from .procenv import ProcEnv, linux_process
from vc import lib

REGISTRY = Registry()
TRUSTED = ["library models: int & mask on unbounded ints (exact div/mod encoding), str.replace on constants, "
           "bytes.strip/split(b': ') as uninterpreted functions the io-record grammar is stated with",
           "environment model contracts/procenv.py"]
ASSUMPTIONS = ["/proc/<pid>/io grammar: a line holding exactly one ': ' carries a decimal value (kernel "
               "fs/proc/base.c do_io_accounting); other lines are arbitrary (blank, malformed)",
               "O_* flag values are those of the running platform's os module (Linux generic: O_APPEND=0o2000)"]
NOT_COVERED = ["open_files(): the descriptor scan itself (listdir/readlink/fdinfo loop) is covered by a bounded sweep "
               "over generated descriptor tables, not proved"]
ENV = dict(BASE_ENV)


# --- file_flags_to_mode --------------------------------------------------------------------

def setup_flags(it, cfg):
    flags = it.fresh("flags", "Int")
    it.assume(smt.Cmp(">=", flags, I(0)))
    return {"args": {"flags": flags}, "spec": {"O_APPEND": os.O_APPEND}, "values": [flags]}


def h_acc(it, flags):
    return it.binop("BitAnd", flags, 3)


def h_app(it, flags):
    r = it.binop("BitAnd", flags, os.O_APPEND)
    return Not(Eq(it.term(r), I(0))) if is_t(r) else (r != 0)


REGISTRY.add(Contract(
    "C14", LINUX_PY, "file_flags_to_mode", setup=setup_flags, env=ENV, helpers={"acc": h_acc, "app": h_app},
    ensures=[
        "implies(acc(flags) == 0, result == 'r')",
        "implies(acc(flags) == 1 and not app(flags), result == 'w')",
        "implies(acc(flags) == 1 and app(flags), result == 'a')",
        "implies(acc(flags) == 2 and not app(flags), result == 'r+')",
        "implies(acc(flags) == 2 and app(flags), result == 'a+')",
        # access mode 3 (both bits; Linux: ioctl-only descriptor) reads as read-write, the superset of what its bits name
        "implies(acc(flags) == 3 and not app(flags), result == 'r+')",
        "implies(acc(flags) == 3 and app(flags), result == 'a+')",
        "result == 'r' or result == 'w' or result == 'a' or result == 'r+' or result == 'a+'",
    ],
    raises={},   # no flag word may make it fail (open_files() must not fail for a live process)
    canaries=["result == 'r'"],
    returns=lambda it, env: it.fresh("mode", "String", "str"), replay="c14:flags",
    note="mode string implied by access mode and O_APPEND only, for every flag word (access mode 3 included)"))


# --- io_counters ----------------------------------------------------------------------------------

IO_KEYS = [b"syscr", b"syscw", b"read_bytes", b"write_bytes", b"rchar", b"wchar"]


def setup_io(it, cfg):
    proc = linux_process(it)
    L = it.fresh("io_lines", ("Seq", "String"))
    n = smt.Len(L)
    for fn_, a_, r_ in (("py_strip", ["String"], "String"), ("py_split", ["String", "String"], ("Seq", "String")),
                        ("py_intval", ["String"], "Int")):
        it.ctx.uf(fn_, a_, r_)
    SEP = S(b": ")

    def stripped(j):
        return smt.app("py_strip", "String", smt.Nth(L, j))

    def parts(j):
        return smt.app("py_split", ("Seq", "String"), stripped(j), SEP)

    def valid(j):
        return And(smt.Cmp(">", smt.Len(stripped(j)), I(0)), Eq(smt.Len(parts(j)), I(2)))

    def key(j):
        return smt.Nth(parts(j), I(0))

    def val(j):
        return smt.app("py_intval", "Int", smt.Nth(parts(j), I(1)))

    it.forall_int(lambda j: Implies(And(smt.Cmp("<=", I(0), j), smt.Cmp("<", j, n), valid(j)),
                                    lib.in_re(smt.Nth(parts(j), I(1)), lib.digits_re())))
    P = fold_fn(it, "io_P", ("Array", "String", "Bool"), n, smt.ConstArray("String", B(False)),
                lambda j, prev: Ite(valid(j), smt.Store(prev, key(j), B(True)), prev))
    V = fold_fn(it, "io_V", ("Array", "String", "Int"), n, smt.ConstArray("String", I(0)),
                lambda j, prev: Ite(valid(j), smt.Store(prev, key(j), val(j)), prev))
    C = fold_fn(it, "io_C", "Int", n, I(0), lambda j, prev: Ite(valid(j), smt.Add(prev, I(1)), prev))
    it.forall_int(lambda j: Implies(And(smt.Cmp("<=", I(0), j), smt.Cmp("<=", j, n)), smt.Cmp(">=", C(j), I(0))))
    env = ProcEnv(it, files={"/io": lambda it2, p: SymFile(L, "bytes")}).install()
    M = SymMap("String", "Int", P(n), V(n), kbk="bytes")
    return {"args": {"self": proc},
            "spec": {"M": M, "P": EnvFunc("P", lambda it2, x: P(x)), "V": EnvFunc("V", lambda it2, x: V(x)),
                     "C": EnvFunc("C", lambda it2, x: C(x)), "nlines": n},
            "values": [L]}


def h_has(it, M, key):
    if isinstance(M, dict):
        return key in M
    return smt.Select(M.pres, it.term(key))


REGISTRY.add(Contract(
    "C14", LINUX_PY, "Process.io_counters", setup=setup_io, env=ENV, decorated=True,
    helpers={"has": h_has, "map_is": h_map_is},
    loops={0: LoopSpec(inv=["map_is(fields, P(_i), V(_i))", "(len(fields) == 0) == (C(_i) == 0)",
                            "forall('String', lambda k: implies(k in fields, len(fields) > 0))"],
                       havoc={"fields": ("Map", "Bytes", "Int", "keys")})},
    ensures=[
        "result.read_count == M[b'syscr']", "result.write_count == M[b'syscw']",
        "result.read_bytes == M[b'read_bytes']", "result.write_bytes == M[b'write_bytes']",
        "result.read_chars == M[b'rchar']", "result.write_chars == M[b'wchar']",
        "has(M, b'syscr') and has(M, b'syscw') and has(M, b'read_bytes') and has(M, b'write_bytes') "
        "and has(M, b'rchar') and has(M, b'wchar')",
    ],
    raises={"RuntimeError": "C(nlines) == 0",
            "ValueError": "not (has(M, b'syscr') and has(M, b'syscw') and has(M, b'read_bytes') and "
                          "has(M, b'write_bytes') and has(M, b'rchar') and has(M, b'wchar'))",
            "NoSuchProcess": None, "ZombieProcess": None, "AccessDenied": None},
    inline=["_is_zombie", "_raise_if_zombie"],
    canaries=["result.read_count == M[b'syscw']"], replay="c14:io",
    note="the kernel's six per-process I/O counters under the documented names; blank lines and lines without "
         "exactly one ': ' are ignored; empty file -> RuntimeError, missing key -> ValueError"))


# --- num_fds ----------------------------------------------------------------------------------------

def setup_numfds(it, cfg):
    proc = linux_process(it)
    names = make_value(it, "fd_names", ("Seq", "Str"))
    ProcEnv(it, files={"/fd": lambda it2, p: names}).install()
    return {"args": {"self": proc}, "spec": {"names": names}, "values": [names.seq]}


REGISTRY.add(Contract(
    "C14", LINUX_PY, "Process.num_fds", setup=setup_numfds, env=ENV, decorated=True,
    ensures=["result == len(names)"], canaries=["result == 0"],
    raises={"NoSuchProcess": None, "ZombieProcess": None, "AccessDenied": None},
    inline=["_is_zombie", "_raise_if_zombie"], replay=None,
    note="counts all descriptors"))


# --- open_files: bounded stand-in ------------------------------------------------------------------
OF = Contract("C14", LINUX_PY, "Process.open_files", env=ENV, decorated=True,
              ensures=["result == exactly the descriptors whose target is an absolute path to a regular file, with "
                       "(path, fd, position, mode(flags), flags) of each"],
              replay="c14:open_files", note="bounded: descriptor scan against generated descriptor tables")
BOUNDED_CONTRACTS = [OF]
BOUNDED = [bounded_sweep(OF, "c14:open_files", quick=60, thorough=1500)]


# --- table: the descriptor-table readers run their body on every call ------------------------------------------------

def table_fd_readers_not_cached():
    """"reflect the descriptor table exactly ... for every history": open_files(), num_fds() and io_counters() read /proc on
    every call.  A caching decorator on one of them (memoize_when_activated freezes the answer for a whole oneshot() block,
    memoize for ever) would return the table of an earlier moment; oneshot_enter() must not activate a cache on them."""
    import ast as _ast
    repo = os.environ.get("VERIF_REPO", "/repo")
    out = []
    names = ("open_files", "num_fds", "io_counters")
    for rel in (LINUX_PY, "psutil/__init__.py"):
        tree = _ast.parse(open(os.path.join(repo, rel)).read())
        for cls in [n for n in tree.body if isinstance(n, _ast.ClassDef) and n.name == "Process"]:
            for node in cls.body:
                if isinstance(node, _ast.FunctionDef) and node.name in names:
                    decs = [_ast.unparse(d) for d in node.decorator_list]
                    caching = [d for d in decs if any(w in d.lower() for w in ("memo", "cache", "lru"))]
                    out.append((f"{rel}: Process.{node.name} carries no caching decorator", not caching,
                                f"decorators: {decs}"))
                if isinstance(node, _ast.FunctionDef) and node.name in ("oneshot_enter", "oneshot"):
                    act = [_ast.unparse(c.func) for c in _ast.walk(node) if isinstance(c, _ast.Call)
                           and isinstance(c.func, _ast.Attribute) and c.func.attr == "cache_activate"]
                    bad = [a for a in act if any(f".{n}." in a for n in names)]
                    out.append((f"{rel}: Process.{node.name} activates no cache on a descriptor-table reader", not bad,
                                str(bad)))
    return out


TABLES = list(globals().get("TABLES", [])) + [table_fd_readers_not_cached]
