"""C17 - the C extension is memory-safe and decodes OS records faithfully."""
from .common import *  # noqa: F401,F403
from .common import Contract, Registry, LoopSpec, BASE_ENV, INIT, LINUX_PY, bounded_sweep
from vc.interp import PS_EXC, ModuleSrc
from vc import cvc
from vc.cvc import PV, Mem, IV, Cell, bvc, bv64
from . import C18 as _c18

REGISTRY = Registry()
Z = cvc.Z
TRUSTED = ["contracts of the CPython C-API, libc and system calls in vc/cvc.py EXTERN: PyArg_ParseTuple stores a value of "
           "the unit's C type or fails; Py_BuildValue 'O' borrows / 'N' steals (also on failure) / 's' needs a NUL-terminated "
           "string; PyUnicode_DecodeFSDefault(p) needs a terminator inside p's object; strnlen/strncpy/sprintf/memset/"
           "getnameinfo touch exactly the bytes their man pages say; every allocation may fail",
           "libc record iterators: getutent() returns NULL or a struct utmp with ARBITRARY content (fields possibly "
           "filled to their full width, any record type); getmntent() returns NULL or an entry whose four strings are "
           "NUL-terminated (glibc contract) with arbitrary content",
           "ioctl()/sysinfo() write arbitrary values into the structure they are handed (and into the ethtool_cmd "
           "reachable through ifr_data)",
           "reference ownership is tracked per path as a ghost counter: new references are owned, PyArg 'O' and "
           "PyExc_*/None are borrowed"]
ASSUMPTIONS = ["clang's macro-expanded AST of the working tree's C file is the code that runs (macro set of setup.py on "
               "Linux); x86-64 Linux data model",
               "union members are modelled as independent cells (no type punning through unions in the verified functions)",
               "reads of uninitialised locals are not checked; termination is not proved",
               "the sockaddr_ll object getifaddrs() hands out holds sll_halen address bytes (glibc keeps it <= 16 inside "
               "its 28-byte union)",
               "getifaddrs() stores NULL in *ifap before it can fail (glibc); on a libc that leaves *ifap untouched on "
               "failure psutil_net_if_addrs' error path would pass an uninitialised pointer to freeifaddrs()"]
NOT_COVERED = ["whole-extension memory safety beyond the functions under contract: bounded ASan+UBSan grid over every "
               "mod_methods entry (argument grid) and generated utmp / mounts files, not proved",
               "'agree with the kernel's interface list, addresses, MTU and flags': both sides are the kernel; only the "
               "decoding is within a contract's reach",
               "_pslinux.users/disk_partitions/net_if_stats loops: unrolled for record lists of length <= 2 with arbitrary "
               "element values (the bodies carry no state between iterations)"]
ENV = dict(BASE_ENV)


# =================================================================================================================
# 1. C functions (vc/cvc.py)
# =================================================================================================================

def _cut_spec(arr, ln, width):
    """ln == min(index of the first NUL, width) for the width-byte field arr"""
    c = [Z.ULE(ln, bvc(width, 64))]
    for i in range(width):
        c.append(Z.Implies(Z.ULT(bvc(i, 64), ln), Z.Select(arr.content, bvc(i, 64)) != 0))
        c.append(Z.Implies(Z.And(ln == i, Z.ULT(ln, bvc(width, 64))), Z.Select(arr.content, bvc(i, 64)) == 0))
    return Z.And(*c)


def users_append(I, args):
    """at PyList_Append(retlist, tuple): the tuple is (user, tty, host|'localhost', (double)tv_sec, pid) of the
    current USER_PROCESS record, each string cut at its field width"""
    tup = args[1].obj
    if tup is None or tup.kind != "pyobj" or "items" not in tup.info:
        return [("the appended object is the tuple just built", False)]
    rec = I.ghost["record_objs"][-1]
    f = rec.fields
    it = tup.info["items"]
    out = [("tuple format 'OOOdi'", tup.info["fmt"] == "OOOdi"),
           ("only USER_PROCESS records are reported", f["ut_type"].value.t == 7)]

    def cut_ok(item, fld, width):
        inf = item.info
        arr = f[fld].value
        ok = inf.get("of", (None,))[0] is arr and inf["of"][1] == 0 and "size" in inf
        if not ok:
            return Z.BoolVal(False)
        return _cut_spec(arr, inf["size"], width)
    out.append(("user = ut_user cut at the first NUL or at 32 bytes", cut_ok(it[0], "ut_user", 32)))
    out.append(("terminal = ut_line cut at the first NUL or at 32 bytes", cut_ok(it[1], "ut_line", 32)))
    host = f["ut_host"].value
    is_local = it[2].info.get("of", (None,))[0] is not host
    if is_local:
        lit = getattr(it[2].info["of"][0], "lit", b"")
        out.append(("the substitute host is 'localhost'", lit == b"localhost\0"))
    else:
        out.append(("host = ut_host cut at the first NUL or at 256 bytes", cut_ok(it[2], "ut_host", 256)))

    def eq_lit(lit):
        return Z.And(*[Z.Select(host.content, bvc(i, 64)) == b for i, b in enumerate(lit)])
    is0 = Z.Or(eq_lit(b":0\0"), eq_lit(b":0.0\0"))
    out.append(("host is 'localhost' exactly for ':0' and ':0.0'", is0 if is_local else Z.Not(is0)))
    tv = f["ut_tv"].value.fields["tv_sec"].value
    src = it[3].src if isinstance(it[3], cvc.DV) else None
    out.append(("started = (double) ut_tv.tv_sec", src is not None and src.bits == tv.bits and Z.simplify(src.t == tv.t)))
    out.append(("pid = ut_pid", it[4].t == f["ut_pid"].value.t))
    return out


def disk_append(I, args):
    tup = args[1].obj
    if tup is None or tup.kind != "pyobj" or "items" not in tup.info:
        return [("the appended object is the tuple just built", False)]
    rec = I.ghost["record_objs"][-1]
    f = rec.fields
    it = tup.info["items"]

    def dec_of(item, fld):
        return isinstance(item, Mem) and item.info.get("of", (None,))[0] is f[fld].value.obj

    def str_of(item, fld):
        return isinstance(item, tuple) and item[0] == "str" and item[1] is f[fld].value.obj and item[2] == 0
    return [("tuple format '(OOss)'", tup.info["fmt"] == "(OOss)"),
            ("device = mnt_fsname", dec_of(it[0], "mnt_fsname")), ("mount point = mnt_dir", dec_of(it[1], "mnt_dir")),
            ("fs type = mnt_type", str_of(it[2], "mnt_type")), ("options = mnt_opts", str_of(it[3], "mnt_opts"))]


def post_list(I, x):
    if x.null:
        return []
    return [("the list built is the one returned", x.ret.obj.name == "list" and x.ret.obj.owned == 1)]


def ip_params(I, ps):
    if I.choose(2, "addr NULL/object") == 0:
        ps["addr"].value = PV(None)
    else:
        ps["addr"].value = PV(Mem("struct", "addr", ctype="struct sockaddr_ll", fields={}), 0)


def ip_field(I, obj, name, ty):
    if name == "sll_addr":
        return Cell(ty, I.new_array("addr.sll_addr", "unsigned char", 255), name)      # see ASSUMPTIONS
    return cvc.default_field(I, obj, name, ty)


def ip_ptr(I):
    b = I.var("buf").get(I)
    if isinstance(b, PV):        # buf reached through a pointer parameter of a helper
        return PV(b.obj, cvc.bv64(b.off) + 3 * I.var("n").get(I).t)
    return PV(b, 3 * I.var("n").get(I).t)


def ip_inv(I):
    n, ln = I.var("n").get(I), I.var("len").get(I)
    return [("n <= len <= 255", Z.And(Z.ULE(n.t, ln.t), Z.ULE(ln.t, bvc(255, 64))))]


def flag_params(I, ps):
    ps["py_retlist"].value = PV(I.pyobj("list", owned=1, items=[]))
    ps["flag_name"].value = PV(I.new_array("flag_name", "char", None, cstr=True, content=None), 0)


def flag_append(I, args):
    """net_if_flags: a flag name is reported only on a path where the kernel's flag word has the bit of the header constant of
    the same name (IFF_<NAME>; the constants stay symbolic, so testing another flag's constant does not discharge this)"""
    lit = getattr(args[1].obj, "lit", None)
    if lit is None:
        return [("the flag name handed to append_flag is a string literal", False)]
    name = lit.rstrip(b"\0").decode()
    c = I.enum_by_name.get("IFF_" + name.upper())
    flags = [cell for sc in I.env for cell in sc.values() if getattr(cell, "name", "") == "flags"]
    if c is None or not flags:
        return [(f"'{name}' is reported under a test of IFF_{name.upper()}", False)]
    fv = flags[-1].get(I) if hasattr(flags[-1], "get") else flags[-1].value
    w = max(fv.bits, c.value.bits)
    ext = lambda v: Z.SignExt(w - v.bits, v.t) if v.bits < w else v.t  # noqa: E731
    return [(f"'{name}' is reported only if (flags & IFF_{name.upper()}) != 0", (ext(fv) & ext(c.value)) != 0)]


def post_speed(I, x):
    if x.null or "items" not in x.ret.obj.info:
        return []
    sp = x.ret.obj.info["items"][1]
    return [("speed is reported in [0, INT_MAX]", sp.t >= 0)]


def post_pid_range(I, x):
    g = x.ghost
    if not g.get("parsed"):
        return [("argument error returns NULL", x.null)]
    pid = g["args"][0].t
    return [("ValueError exactly for negative pids", (pid < 0) if x.null else (pid >= 0))]


def ifa_node(I, label="ifaddrs"):
    k = I.ghost.get("records", 1)
    I.ghost["records"] = k + 1
    return PV(Mem("struct", f"{label}#{k}", ctype="struct ifaddrs", fields={}, library_owned=True), 0)


def ifa_field(I, obj, name, ty):
    """getifaddrs() list node: every pointer is NULL or a library-owned object, every scalar arbitrary"""
    if name == "ifa_next":
        return Cell(ty, PV(None) if I.choose(2, "ifa_next NULL/node") == 0 else ifa_node(I), name)
    if name in ("ifa_addr", "ifa_netmask", "ifu_broadaddr", "ifu_dstaddr"):
        if I.choose(2, f"{name} NULL/sockaddr") == 0:
            return Cell(ty, PV(None), name)
        return Cell(ty, PV(Mem("struct", f"{obj.name}.{name}", ctype="struct sockaddr", fields={}, library_owned=True), 0), name)
    return cvc.default_field(I, obj, name, ty)


def ifa_cursor_make(I):
    return PV(None) if I.choose(2, "cursor NULL/node") == 0 else ifa_node(I)


def ifa_cursor_ok(I, v):
    return isinstance(v, PV) and (v.obj is None or (v.obj.kind == "struct" and v.obj.ctype == "struct ifaddrs"
                                                    and getattr(v.obj, "library_owned", False) and v.off == 0))


def addrs_append(I, args):
    """at PyList_Append: the tuple is (ifa_name, sa_family, addr(ifa_addr), addr(ifa_netmask), broadcast, ptp) of the
    node under the cursor; broadcast only from ifu_broadaddr under IFF_BROADCAST, ptp only from ifu_dstaddr under
    IFF_POINTOPOINT (and not IFF_BROADCAST), the other one None"""
    tup = args[1].obj
    if tup is None or tup.kind != "pyobj" or "items" not in tup.info:
        return [("the appended object is the tuple just built", False)]
    node = I.var("ifa").value.obj
    f = node.fields
    it = tup.info["items"]
    none = I.singleton("None")
    out = [("tuple format '(siOOOO)'", tup.info["fmt"] == "(siOOOO)")]
    out.append(("name = ifa_name", isinstance(it[0], tuple) and it[0][1] is f["ifa_name"].value.obj))
    fam = f["ifa_addr"].value.obj.fields["sa_family"].value
    out.append(("family = ifa_addr->sa_family", it[1].t == Z.ZeroExt(32 - fam.bits, fam.t)))

    def from_field(item, fld, holder):
        return item is not none and item.info.get("args") is not None and item.info["args"][0].obj is holder[fld].value.obj
    out.append(("address = convert(ifa_addr, family)", from_field(it[2], "ifa_addr", f)))
    out.append(("netmask = convert(ifa_netmask, family) or None", it[3] is none or from_field(it[3], "ifa_netmask", f)))
    flags = f["ifa_flags"].value.t

    def flag(name):        # the header's constant, whatever its value (left symbolic)
        c = I.enum_by_name.get(name)
        return ((flags & c.value.t) != 0) if c is not None else Z.BoolVal(False)
    bc, pp = flag("IFF_BROADCAST"), flag("IFF_POINTOPOINT")
    if it[4] is not none:
        u = f["ifa_ifu"].value.fields
        out.append(("a broadcast address is reported only under IFF_BROADCAST, from ifu_broadaddr",
                    Z.And(bc, Z.BoolVal(from_field(it[4], "ifu_broadaddr", u)))))
        out.append(("broadcast and ptp are never both reported", it[5] is none))
    if it[5] is not none:
        u = f["ifa_ifu"].value.fields
        out.append(("a ptp address is reported only under IFF_POINTOPOINT without IFF_BROADCAST, from ifu_dstaddr",
                    Z.And(Z.Not(bc), pp, Z.BoolVal(from_field(it[5], "ifu_dstaddr", u)))))
    return out


NOLOOP = {i: cvc.LoopCut() for i in range(3)}
C_CONTRACTS = [
    cvc.CContract("C17", "psutil/arch/linux/users.c", "psutil_users", loops={0: cvc.LoopCut()}, post=post_list,
                  checks={"PyList_Append": users_append}, replay="c17:users",
                  note="every string read stays inside its fixed-width field; tuple slots; cleanup on every error path"),
    cvc.CContract("C17", "psutil/arch/linux/disk.c", "psutil_disk_partitions", loops={0: cvc.LoopCut()}, post=post_list,
                  checks={"PyList_Append": disk_append}, replay="c17:mounts_own",
                  note="tuple slots = (fsname, dir, type, opts); no double release on any error path"),
    cvc.CContract("C17", "psutil/_psutil_posix.c", "psutil_convert_ipaddr", params=ip_params, field=ip_field,
                  loops={0: cvc.LoopCut(inv=ip_inv, ptrs={"ptr": ip_ptr}, arrays=["buf"])},
                  note="MAC formatter: every sprintf stays inside buf[NI_MAXHOST] (ptr == buf + 3n, n <= len <= 255)"),
    cvc.CContract("C17", "psutil/_psutil_posix.c", "psutil_net_if_addrs", field=ifa_field, post=post_list,
                  externs={"psutil_convert_ipaddr": cvc.x_new_object("addr")}, checks={"PyList_Append": addrs_append},
                  loops={0: cvc.LoopCut(dead=["py_address", "family"], cursors={"ifa": (ifa_cursor_make, ifa_cursor_ok)})},
                  note="getifaddrs() list walk: tuple slots per node; ownership on every error path (psutil_convert_ipaddr "
                       "applied through its own contract: NULL+exception / None / new object)"),
    cvc.CContract("C17", "psutil/_psutil_posix.c", "append_flag", filt="flag", params=flag_params),
    cvc.CContract("C17", "psutil/_psutil_posix.c", "psutil_net_if_flags", filt="flag", merge=True, checks={"append_flag": flag_append},
                  note="20 independent `if (flags & X) append_flag(...)` steps: path merging where the step leaves the state "
                       "unchanged (55 paths instead of 3^20)"),
    cvc.CContract("C17", "psutil/_psutil_posix.c", "psutil_net_if_mtu", note="PSUTIL_STRNCPY stays inside ifr_name[16]"),
    cvc.CContract("C17", "psutil/_psutil_posix.c", "psutil_net_if_is_running"),
    cvc.CContract("C17", "psutil/arch/linux/net.c", "psutil_net_if_duplex_speed", filt="psutil_", post=post_speed,
                  replay="c17:ethtool", note="speed words combined without signed overflow; clamp to [0, INT_MAX]"),
    cvc.CContract("C17", "psutil/arch/linux/proc.c", "psutil_proc_cpu_affinity_set", filt="affinity_set",
                  loops={0: cvc.LoopCut()},
                  note="every long item: either an error or a store inside cpu_set_t (CPU_SET bounds check)"),
    cvc.CContract("C17", "psutil/arch/linux/proc.c", "psutil_proc_cpu_affinity_get", filt="affinity_get",
                  loops=_c18.AFF_GET.loops, checks=_c18.AFF_GET.checks, post=_c18.AFF_GET.post, replay="c18:live",
                  note=_c18.AFF_GET.note),
    cvc.CContract("C17", "psutil/arch/linux/proc.c", "psutil_proc_ioprio_get", filt="ioprio", enums={"IOPRIO_WHO_PROCESS": 1}),
    cvc.CContract("C17", "psutil/arch/linux/proc.c", "psutil_proc_ioprio_set", filt="ioprio", enums={"IOPRIO_WHO_PROCESS": 1},
                  replay="c18:ioprio_set", note="no shift UB for any (ioclass, iodata) ints"),
    cvc.CContract("C17", "psutil/_psutil_common.c", "psutil_check_pid_range", post=post_pid_range),
    cvc.CContract("C17", "psutil/_psutil_common.c", "psutil_set_debug"),
    cvc.CContract("C17", "psutil/_psutil_posix.c", "psutil_pid_exists"),
    cvc.CContract("C17", "psutil/_psutil_posix.c", "psutil_posix_getpriority", enums={"PRIO_PROCESS": 0}),
    cvc.CContract("C17", "psutil/_psutil_posix.c", "psutil_posix_setpriority", enums={"PRIO_PROCESS": 0}),
    cvc.CContract("C17", "psutil/_psutil_posix.c", "psutil_getpagesize_pywrapper", filt="getpagesize"),
    cvc.CContract("C17", "psutil/arch/linux/mem.c", "psutil_linux_sysinfo"),
]
CPROOFS = C_CONTRACTS


def table_entry_points():
    """every function registered in the two mod_methods tables is under a C contract"""
    import os
    import re
    repo = os.environ.get("VERIF_REPO", "/repo")
    have = {c.func for c in C_CONTRACTS}
    out = []
    for f in ("psutil/_psutil_linux.c", "psutil/_psutil_posix.c"):
        txt = open(os.path.join(repo, f)).read()
        # Linux build: drop the BSD/OSX-only block of the posix table
        txt = re.sub(r"#if defined\(PSUTIL_BSD\) \|\| defined\(PSUTIL_OSX\)\n(.*?)#endif", "", txt, flags=re.S)
        for m in re.finditer(r'\{"(\w+)",\s*(\w+),\s*METH_VARARGS', txt):
            out.append((f"{f}: entry point '{m.group(1)}' -> {m.group(2)} is under a C contract", m.group(2) in have,
                        "add a CContract for it in contracts/C17.py", "coverage"))
    return out


LINUX_IFF = ["up", "broadcast", "debug", "loopback", "pointopoint", "notrailers", "running", "noarp", "promisc", "allmulti",
             "master", "slave", "multicast", "portsel", "automedia", "dynamic"]       # glibc sysdeps/gnu/net/if.h


def table_net_if_flags():
    """completeness side of the net_if_flags contract (the proof obligation is "reported => bit set"): every flag glibc's
    <net/if.h> defines has its own `#ifdef IFF_X` step in psutil_net_if_flags, and each step tests and reports the same X"""
    import os
    import re
    repo = os.environ.get("VERIF_REPO", "/repo")
    src = open(os.path.join(repo, "psutil/_psutil_posix.c")).read()
    i = src.index("psutil_net_if_flags(PyObject")
    body = src[i:src.index("\n}\n", i)]
    steps = re.findall(r"#ifdef\s+IFF_(\w+)(.*?)#endif", body, re.S)
    out = [("psutil_net_if_flags has one #ifdef step per flag", len(steps) >= len(LINUX_IFF), f"{len(steps)} steps")]
    seen = {}
    for macro, blk in steps:
        code = re.sub(r"//[^\n]*", "", blk)
        tests = re.findall(r"\w+\s*&\s*IFF_(\w+)", code)           # whatever the locals are called
        names = re.findall(r'append_flag\(\s*\w+\s*,\s*"(\w+)"', code)
        ok = tests == [macro] and names == [macro.lower()]
        out.append((f"step IFF_{macro} tests IFF_{macro} and reports '{macro.lower()}'", ok, f"tests {tests}, reports {names}"))
        seen[macro.lower()] = seen.get(macro.lower(), 0) + 1
    for nme in LINUX_IFF:
        out.append((f"flag '{nme}' has exactly one step", seen.get(nme) == 1, f"{seen.get(nme, 0)} steps"))
    m = re.search(r"\b\w+\s*=\s*([^;]*\bifr_flags\b[^;]*);", body)
    rhs = re.sub(r"\s", "", m.group(1)) if m else ""
    out.append(("the tested word is the kernel's ifr_flags (16 bits)",
                bool(re.fullmatch(r"(\(\w[\w ]*\))?\w+\.ifr_flags(&(0xFFFF|0xffff|65535))?", rhs)), rhs or "not found"))
    return out


TABLES = [table_entry_points, table_net_if_flags]


# =================================================================================================================
# 2. Python side: filtering of the raw tuples
# =================================================================================================================

class NativeStub:
    def __init__(self, fns):
        self.fns = fns

    def vc_getattr(self, it, name):
        if name in self.fns:
            return self.fns[name]
        it.raise_(AttributeError, name)


def setup_users(it, cfg):
    raw = []
    for k in range(cfg["n"]):
        raw.append((it.fresh(f"user{k}", "String", "str"), it.fresh(f"tty{k}", "String", "str"),
                    it.fresh(f"host{k}", "String", "str"), it.fresh(f"started{k}", "Real"), it.fresh(f"pid{k}", "Int")))
    it.env_over["_pslinux.cext"] = NativeStub({"users": EnvFunc("users", lambda it2: list(raw))})
    return {"args": {}, "spec": {"raw": raw, "n": cfg["n"]}}


REGISTRY.add(Contract(
    "C17", LINUX_PY, "users", setup=setup_users, env=ENV, configs=[{"n": 0}, {"n": 1}, {"n": 2}],
    ensures=["len(result) == n",
             "forall(range(n), lambda i: result[i].name == raw[i][0] and result[i].host == raw[i][2] and "
             "result[i].started == raw[i][3] and result[i].pid == raw[i][4])",
             "forall(range(n), lambda i: ite(len(raw[i][1]) == 0, result[i].terminal is None, result[i].terminal == raw[i][1]))"],
    raises={}, canaries=["len(result) == 5"], replay=None,
    note="one suser per raw tuple, same order; an empty terminal becomes None"))


FILESYSTEMS = "nodev\tsysfs\nnodev\tproc\n\text4\nnodev\tzfs\n\tvfat\nnodev\ttmpfs\n"
DISK_BACKED = {"ext4", "zfs", "vfat"}


class ConcreteFile(list):
    def vc_enter(self, it):
        return self

    def vc_exit(self, it, exc):
        pass


def setup_parts(it, cfg):
    parts = []
    for k in range(cfg["n"]):
        parts.append((it.fresh(f"dev{k}", "String", "str"), it.fresh(f"mnt{k}", "String", "str"),
                      it.fresh(f"fstype{k}", "String", "str"), it.fresh(f"opts{k}", "String", "str")))
    seen = []

    def native(it2, path):
        seen.append(path)
        return list(parts)

    it.env_over["_pslinux.cext"] = NativeStub({"disk_partitions": EnvFunc("disk_partitions", native)})
    it.env_over["_pslinux.get_procfs_path"] = EnvFunc("get_procfs_path", lambda it2: "/proc")
    it.env_over["_pslinux.open_text"] = EnvFunc("open_text", lambda it2, p, **kw: ConcreteFile(FILESYSTEMS.splitlines(True)))
    it.env_over["os.path.isfile"] = EnvFunc("isfile", lambda it2, p: False)
    it.env_over["os.path.realpath"] = EnvFunc("realpath", lambda it2, p: p)
    root = it.fresh("rootdev", "String", "str")

    class Finder(EnvFunc):
        def __init__(self):
            super().__init__("RootFsDeviceFinder", lambda it2: NativeStub({"find": EnvFunc("find", lambda it3: root)}))
    it.env_over["_pslinux.RootFsDeviceFinder"] = Finder()
    return {"args": {"all": cfg["all"]}, "spec": {"parts": parts, "n": cfg["n"], "all_": cfg["all"], "root": root,
                                                    "DISK": DISK_BACKED, "seen": seen}}


def h_dev(it, d, root):
    """device as reported: 'none' -> '', /dev/root|rootfs -> the resolved root device (or itself)"""
    td = it.term(d)
    is_root = Or(Eq(td, S("/dev/root")), Eq(td, S("rootfs")))
    return Ite(Eq(td, S("none")), S(""), Ite(And(is_root, smt.Cmp(">", smt.Len(root), I(0))), root, td))


def h_keep(it, d, fstype, root, all_):
    if all_:
        return B(True)
    dev = h_dev(it, d, root)
    tf = it.term(fstype)
    return And(smt.Cmp(">", smt.Len(dev), I(0)), Or(*[Eq(tf, S(x)) for x in sorted(DISK_BACKED)]))


REGISTRY.add(Contract(
    "C17", LINUX_PY, "disk_partitions", setup=setup_parts, env=ENV,
    configs=[{"n": n, "all": a} for n in (0, 1, 2) for a in (False, True)],
    helpers={"dev": h_dev, "keep": h_keep},
    ensures=[
        "seen == ['/proc/self/mounts']",
        "implies(n == 1, ite(keep(parts[0][0], parts[0][2], root, all_), len(result) == 1 and "
        "result[0].device == dev(parts[0][0], root) and result[0].mountpoint == parts[0][1] and "
        "result[0].fstype == parts[0][2] and result[0].opts == parts[0][3], len(result) == 0))",
        "implies(n == 2, len(result) == ite(keep(parts[0][0], parts[0][2], root, all_), 1, 0) + "
        "ite(keep(parts[1][0], parts[1][2], root, all_), 1, 0))",
        "implies(n == 2 and keep(parts[1][0], parts[1][2], root, all_), result[-1].mountpoint == parts[1][1] and "
        "result[-1].device == dev(parts[1][0], root))",
        "implies(n == 0, len(result) == 0)",
    ],
    raises={}, canaries=["len(result) == 5"], replay=None,
    note="kept iff all=True or (device != '' and fstype is disk-backed per /proc/filesystems: non-nodev lines plus zfs); "
         "'none' -> ''"))


def setup_ifstats(it, cfg):
    import errno as E
    names = ["eth0", "gone0"][:cfg["n"]]
    mtu = {n: it.fresh(f"mtu_{n}", "Int") for n in names}
    speed = {n: it.fresh(f"speed_{n}", "Int") for n in names}
    running = cfg["running"]
    fault = cfg["fault"]

    def f_mtu(it2, name):
        if name == "gone0" and fault == "ENODEV":
            it2.raise_(OSError, errno=I(E.ENODEV))
        if name == "gone0" and fault == "EPERM":
            it2.raise_(PermissionError, errno=I(E.EPERM))
        return mtu[name]

    stub = NativeStub({
        "net_if_mtu": EnvFunc("net_if_mtu", f_mtu),
        "net_if_flags": EnvFunc("net_if_flags", lambda it2, name: ["up", "running"] if running else ["up"]),
        "net_if_duplex_speed": EnvFunc("net_if_duplex_speed", lambda it2, name: (1, speed[name])),
        "DUPLEX_FULL": 1, "DUPLEX_HALF": 0, "DUPLEX_UNKNOWN": 255})
    it.env_over["_pslinux.cext"] = stub
    it.env_over["_pslinux.cext_posix"] = stub
    it.env_over["_pslinux.net_io_counters"] = EnvFunc("net_io_counters", lambda it2: {n: None for n in names})
    for k, v in (("NIC_DUPLEX_FULL", 2), ("NIC_DUPLEX_HALF", 1), ("NIC_DUPLEX_UNKNOWN", 0)):
        it.env_over[f"_pslinux.{k}"] = v
    return {"args": {}, "spec": {"mtu": mtu, "speed": speed, "running": running, "fault": fault, "n": cfg["n"]}}


REGISTRY.add(Contract(
    "C17", LINUX_PY, "net_if_stats", setup=setup_ifstats, env=ENV,
    configs=[{"n": n, "running": r, "fault": f} for n in (1, 2) for r in (True, False) for f in (None, "ENODEV", "EPERM")
             if not (n == 1 and f)],
    ensures=["'eth0' in result and result['eth0'].mtu == mtu['eth0'] and result['eth0'].speed == speed['eth0']",
             "result['eth0'].isup == running", "result['eth0'].duplex == 2",
             "result['eth0'].flags == ('up,running' if running else 'up')",
             "implies(n == 2 and fault is None, 'gone0' in result and result['gone0'].mtu == mtu['gone0'])",
             "implies(fault == 'ENODEV', 'gone0' not in result)", "fault != 'EPERM'"],
    raises={"PermissionError": ["fault == 'EPERM'"]}, canaries=["len(result) == 7"], replay=None,
    note="per NIC: (isup = 'running' in flags, duplex mapped, speed, mtu, flags joined); a NIC that vanished (ENODEV) is "
         "skipped, any other error propagates"))


# =================================================================================================================
# 3. bounded: sanitizer build of the working tree's extension
# =================================================================================================================
ASAN = Contract("C17", "psutil/_psutil_linux.c", "*", name="ASan+UBSan argument grid over every mod_methods entry", env=ENV,
                ensures=["every call with ints of any size / strings / bytes / wrong types / sequences ends in a value or "
                         "a Python exception: no sanitizer report, no crash"],
                replay="c17:asan", note="bounded: argument grid on a sanitizer build")
UTMPF = Contract("C17", "psutil/arch/linux/users.c", "psutil_users", name="users() on generated utmp files (sanitizer build)",
                 env=ENV, ensures=["users() == independent struct decoding of the same records, strings cut at field width"],
                 replay="c17:users", note="bounded: generated utmp files")
MNTF = Contract("C17", "psutil/arch/linux/disk.c", "psutil_disk_partitions",
                name="disk_partitions() on generated mounts files (sanitizer build)", env=ENV,
                ensures=["entries == independent decoding of the same file (escapes undone); non-UTF-8 type/options give a "
                         "clean UnicodeDecodeError; no sanitizer report"],
                replay="c17:mounts", note="bounded: generated mounts files")
ETH = Contract("C17", "psutil/arch/linux/net.c", "psutil_net_if_duplex_speed",
               name="net_if_duplex_speed() against injected ethtool answers (sanitizer build)", env=ENV,
               ensures=["speed == the driver's 32-bit speed, 0 for SPEED_UNKNOWN or > INT_MAX; no sanitizer report"],
               replay="c17:ethtool", note="bounded: ioctl answers injected by an LD_PRELOAD shim")
BOUNDED_CONTRACTS = [ASAN, UTMPF, MNTF, ETH]
BOUNDED = [bounded_sweep(UTMPF, "c17:users", quick=25, thorough=400),
           bounded_sweep(MNTF, "c17:mounts", quick=25, thorough=400),
           bounded_sweep(ETH, "c17:ethtool", quick=10, thorough=10),
           bounded_sweep(ASAN, "c17:asan", quick=1000, thorough=100000)]
