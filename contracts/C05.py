"""C05 - children(), parent() and parents() describe the real process tree."""
from .common import *  # noqa: F401,F403
from .common import Contract, Registry, LoopSpec, BASE_ENV, INIT, LINUX_PY, bounded_sweep, fold_fn
from vc.contract import make_value
from .frontproc import make_process
from vc.interp import ModuleSrc, PS_EXC

REGISTRY = Registry()
TRUSTED = ["constructor oracle for Process(ppid) (object with its own start time, or NoSuchProcess)"]
ASSUMPTIONS = ["start times order processes (a parent is never younger than its child unless the PID was recycled)"]
ASSUMPTIONS += ["SHAPE BOUND of the children(recursive=True) contract: parent-link graphs over the caller and three other "
                "pids (375 of the 625 assignments in the quick tier, all in the thorough tier); start times and the "
                "vanished / zombie status of every child are unconstrained"]
NOT_COVERED = ["children(recursive=True) on snapshots with more than four pids: the walk is proved per graph up to that size; the "
               "bounded enumeration of parent-link graphs x concrete start-time orderings against an independent reading stays "
               "as a second check",
               "termination of children(recursive=True) beyond the shape bound and of parents() (the symbolic execution of the "
               "real loop ends on every path of every graph of the table, which is a proof of termination for those graphs only)"]
ENV = dict(BASE_ENV)


# --- parent() ------------------------------------------------------------------------------------------

def setup_parent(it, cfg):
    o = make_process(it, gone=False, reused=False)
    low = it.fresh("lowest_pid", "Int")
    ppid = it.fresh("ppid", "Int")
    myct = it.ctx.ghost["born"]
    pct = it.fresh("parent_start", "Real")
    exists = it.fresh("parent_listed", "Bool")
    it.env_over["__init__._LOWEST_PID"] = low
    o.attrs["ppid"] = EnvFunc("ppid", lambda it2: ppid)
    o.attrs["create_time"] = EnvFunc("create_time", lambda it2: myct)
    mod = ModuleSrc.get(INIT)

    def ctor_effect(it2, env, exc):
        if not it2.truth(exists, "parent-listed"):
            it2.raise_(PS_EXC["NoSuchProcess"][0], pid=env["pid"])
        po = env["self"]
        po.module = mod
        po.attrs.update({"_pid": env["pid"], "create_time": EnvFunc("create_time", lambda it3: pct)})

    it.ctx.ghost["ctor_effect"] = ctor_effect
    # process_iter()'s cache may hold, under ANY pid, an object made for an earlier owner of that pid (it is refreshed only by
    # the next full pass): whoever consults it gets a handle with an unrelated start time
    stale_ct = it.fresh("cached_handle_start", "Real")

    class StaleCache:
        def _handle(self, it2, key):
            return Obj("Process", {"_pid": key, "pid": key, "create_time": EnvFunc("create_time", lambda it3: stale_ct),
                                   "_ident": (key, stale_ct), "_gone": False, "_pid_reused": False}, module=mod)

        def vc_getattr(self, it2, name):
            if name == "get":
                return EnvFunc("get", lambda it3, key, default=None: self._handle(it3, key))
            if name == "copy":
                return EnvFunc("copy", lambda it3: self)
            raise Unsupported(f"_pmap.{name}")

        def vc_contains(self, it2, x):
            return True

        def vc_getitem(self, it2, key):
            return self._handle(it2, key)

    it.env_over["__init__._pmap"] = StaleCache()
    return {"args": {"self": o}, "spec": {"low": low, "ppid": ppid, "myct": myct, "pct": pct, "exists": exists},
            "values": [low, ppid, pct, exists, stale_ct]}


REGISTRY.add(Contract("C05", INIT, "Process.__init__", callee_only=True,
                      effect=lambda it, env, exc: it.ctx.ghost["ctor_effect"](it, env, exc),
                      note="constructor oracle"))

REGISTRY.add(Contract(
    "C05", INIT, "Process.parent", setup=setup_parent, env=ENV, inline=["pid"],
    ensures=[
        "implies(self._pid == low, result is None)",
        "implies(self._pid != low and exists and pct <= myct, result is not None and result._pid == ppid)",
        "implies(self._pid != low and (not exists or pct > myct), result is None)",   # PID now owned by a younger process
    ],
    raises={}, canaries=["result is None"], replay=None,
    note="the process named by ppid() unless that PID now belongs to a process younger than the caller"))


# --- children(recursive=False): proof over an arbitrary pid -> ppid snapshot ---------------------------------------------

class PidBag:
    """stand-in for the list of child Process objects: only WHICH pids are in it matters (a set of ints)"""

    def __init__(self, mem):
        self.mem = mem

    def vc_getattr(self, it, name):
        if name == "append":
            def app(it2, child):
                pid = child.attrs["_pid"] if isinstance(child, Obj) else child
                self.mem = smt.Store(self.mem, it2.term(pid), B(True))
            return EnvFunc("append", app)
        raise Unsupported(f"PidBag.{name}")


def setup_children(it, cfg):
    o = make_process(it, gone=False, reused=False)
    me = o.attrs["_pid"]
    myct = it.ctx.ghost["born"]
    o.attrs["create_time"] = EnvFunc("create_time", lambda it2: myct)
    o.attrs["_raise_if_pid_reused"] = EnvFunc("_raise_if_pid_reused", lambda it2: None)
    pm = make_value(it, "ppid_map", ("Map", "Int", "Int", "keys"))
    it.env_over["__init__._ppid_map"] = EnvFunc("_ppid_map", lambda it2: pm)
    it.ctx.uf("child_alive", ["Int"], "Bool")        # oracle: is that pid still there when Process(pid) is built?
    it.ctx.uf("child_zombie", ["Int"], "Bool")
    it.ctx.uf("child_born", ["Int"], "Real")
    mod = ModuleSrc.get(INIT)

    def alive(p):
        return smt.app("child_alive", "Bool", p)

    def born(p):
        return smt.app("child_born", "Real", p)

    def zombie(p):
        return smt.app("child_zombie", "Bool", p)

    def ctor_effect(it2, env, exc):
        p = it2.term(env["pid"])
        if not it2.truth(alive(p), "child-listed"):
            it2.raise_(PS_EXC["NoSuchProcess"][0], pid=env["pid"])
        po = env["self"]
        po.module = mod

        def ct(it3):
            if it3.truth(zombie(p), "child-zombie"):
                it3.raise_(PS_EXC["ZombieProcess"][0], pid=env["pid"])
            return born(p)
        po.attrs.update({"_pid": env["pid"], "create_time": EnvFunc("create_time", ct)})

    it.ctx.ghost["ctor_effect"] = ctor_effect
    n = smt.Len(pm.keys)

    def key(j):
        return smt.Nth(pm.keys, j)

    def cond(j):
        k = key(j)
        return And(Eq(smt.Select(pm.vals, k), me), Not(Eq(k, me)), alive(k), Not(zombie(k)), smt.Cmp("<=", myct, born(k)))

    S = fold_fn(it, "children_S", ("Array", "Int", "Bool"), n, smt.ConstArray("Int", B(False)),
                lambda j, prev: Ite(cond(j), smt.Store(prev, key(j), B(True)), prev))
    return {"args": {"self": o, "recursive": False},
            "spec": {"S": EnvFunc("S", lambda it2, x: S(x)), "n": n, "me": me}, "values": [me]}


def h_bag_is(it, bag, arr):
    if isinstance(bag, PidBag):
        return Eq(bag.mem, arr)
    if isinstance(bag, list) and not bag:
        return Eq(smt.ConstArray("Int", B(False)), arr)
    raise Unsupported("bag_is")


def children_havoc(it, fr):
    f = fr
    while f is not None and "ret" not in f.env:
        f = f.parent
    f.env["ret"] = PidBag(it.fresh("children_so_far", ("Array", "Int", "Bool")))


REGISTRY.add(Contract(
    "C05", INIT, "Process.children", name="__init__.Process.children(recursive=False)", setup=setup_children, env=ENV,
    inline=["pid"], helpers={"bag_is": h_bag_is},
    loops={0: LoopSpec(inv=["bag_is(ret, S(_i))"], havoc={"ret": "keep"}, on_havoc=children_havoc)},
    ensures=["bag_is(result, S(n))"], raises={}, canaries=[], replay="c05:tree",
    note="children() == exactly the listed pids whose recorded parent is this process, other than itself, still there "
         "(not vanished, not a zombie) when looked at, and not older than the caller - for every pid -> ppid snapshot"))


# --- the guard in front of children()/parent()/ppid(): a handle once seen gone never describes the PID's new owner ------

def setup_guard(it, cfg):
    o = make_process(it)            # symbolic sticky flags _gone / _pid_reused
    g0, r0 = o.attrs["_gone"], o.attrs["_pid_reused"]
    verdict = it.fresh("is_running_now", "Bool")
    found_reused = it.fresh("found_recycled", "Bool")

    def is_running(it2):
        # contract of is_running() (proved under C01/C02): sticky flags short-circuit; a False answer is latched in
        # _gone or _pid_reused
        it2.ctx.log.append(("is_running",))
        if it2.truth(it2.as_bool(Or(it2.as_bool(o.attrs["_gone"]), it2.as_bool(o.attrs["_pid_reused"]))), "sticky"):
            return False
        if it2.truth(verdict, "running"):
            return True
        if it2.truth(found_reused, "recycled"):
            o.attrs["_pid_reused"] = True
        else:
            o.attrs["_gone"] = True
        return False

    o.attrs["is_running"] = EnvFunc("is_running", is_running)
    return {"args": {"self": o}, "spec": {"g0": g0, "r0": r0, "verdict": verdict}, "values": [g0, r0, verdict, found_reused]}


REGISTRY.add(Contract(
    "C05", INIT, "Process._raise_if_pid_reused", setup=setup_guard, env=ENV, inline=["pid"],
    ensures=["not g0 and not r0",                       # returns only for a handle never seen gone or recycled ...
             "not self._pid_reused and not self._gone",
             # ... whose identity was checked in THIS call and found intact (the flags alone only remember earlier checks)
             "len(log) >= 1 and log[0] == ('is_running',) and verdict"],
    raises={"NoSuchProcess": ["exc.pid == self._pid"]},
    canaries=["g0"], replay=None,
    note="children()/parent()/ppid() start with this guard: once the process was seen gone or its PID recycled, they raise "
         "NoSuchProcess instead of describing whoever owns the PID now"))


# --- children(recursive=True): the graph walk, per parent-link graph, for all start times / vanishing patterns ---------------
# SHAPE = the pid -> ppid snapshot over the caller (pid 10) and three other pids (every assignment of parents: forests,
# self-loops, cycles, unlisted parents, the caller itself having any parent); SYMBOLIC = the caller's and every child's start
# time, and whether each child is still there / a zombie when its handle is built.
import itertools as _it
import os as _os
ME, OTHERS, UNLISTED = 10, (11, 12, 13), 1


def _graphs(tier):
    out = []
    for pp in _it.product((UNLISTED, ME) + OTHERS, repeat=len(OTHERS) + 1):
        if tier != "thorough" and pp[0] not in (UNLISTED, ME, 12):
            continue                      # quick: the caller's own parent is unlisted, itself, or a potential descendant
        out.append({"g": "-".join(map(str, pp))})
    return out


def setup_walk(it, cfg):
    pp = [int(x) for x in cfg["g"].split("-")]
    ppid_map = dict(zip((ME,) + OTHERS, pp))
    o = make_process(it, gone=False, reused=False, pid=ME)
    myct = it.ctx.ghost["born"]
    o.attrs["create_time"] = EnvFunc("create_time", lambda it2: myct)
    o.attrs["_raise_if_pid_reused"] = EnvFunc("_raise_if_pid_reused", lambda it2: None)
    it.env_over["__init__._ppid_map"] = EnvFunc("_ppid_map", lambda it2: dict(ppid_map))
    mod = ModuleSrc.get(INIT)
    # (a handle for the caller's own pid can be built too - it must never be, or at least never be returned)
    alive = {c: it.fresh(f"alive{c}", "Bool") for c in OTHERS + (ME,)}
    zombie = {c: it.fresh(f"zombie{c}", "Bool") for c in OTHERS + (ME,)}
    born = {c: it.fresh(f"born{c}", "Real") for c in OTHERS + (ME,)}
    built = []

    def ctor_effect(it2, env, exc):
        c = env["pid"]
        if is_t(c) or c not in alive:
            raise Unsupported(f"Process({c!r}) for a pid that is not a listed child candidate")
        built.append(c)
        if not it2.truth(alive[c], f"child {c} listed"):
            it2.raise_(PS_EXC["NoSuchProcess"][0], pid=c)
        po = env["self"]
        po.module = mod

        def ct(it3):
            if it3.truth(zombie[c], f"child {c} zombie"):
                it3.raise_(PS_EXC["ZombieProcess"][0], pid=c)
            return born[c]
        po.attrs.update({"_pid": c, "create_time": EnvFunc("create_time", ct)})

    it.ctx.ghost["ctor_effect"] = ctor_effect
    acc = {c: And(alive[c], Not(zombie[c]), smt.Cmp("<=", myct, born[c])) for c in OTHERS}
    reach = {c: B(False) for c in OTHERS}
    for _ in range(len(OTHERS)):
        reach = {c: And(acc[c], (B(True) if ppid_map[c] == ME else reach.get(ppid_map[c], B(False)))) for c in OTHERS}
    return {"args": {"self": o, "recursive": True}, "spec": {"reach": reach, "built": built, "ppid_map": ppid_map},
            "values": list(alive.values()) + list(zombie.values()) + list(born.values()) + [myct]}


def p_walk_exact(it, env):
    """exactly the processes reachable from the caller through parent links whose every link is a live, non-zombie process
    not older than the caller - each once, never the caller"""
    res = env["result"]
    if not isinstance(res, list):
        return B(False)
    pids = [r.attrs.get("_pid") if isinstance(r, Obj) else r for r in res]
    if ME in pids:
        return B(False)
    cl = []
    for c in OTHERS:
        n = pids.count(c)
        if n > 1:
            return B(False)
        cl.append(Eq(env["reach"][c], B(n == 1)))
    return And(*cl)


def p_walk_frugal(it, env):
    """a handle is built at most once per pid, and never for the caller itself"""
    b = env["built"]
    return B(len(b) == len(set(b)) and ME not in b)


WALK = Contract(
    "C05", INIT, "Process.children", name="__init__.Process.children(recursive=True)", setup=setup_walk, env=ENV,
    inline=["pid"], configs=_graphs(_os.environ.get("VERIF_TIER", "quick")),
    ensures=[p_walk_exact, p_walk_frugal], raises={}, canaries=[], replay="c05:tree", max_paths=20000,
    note="per parent-link graph over the caller + 3 pids (all 5^4 assignments in the thorough tier), for every start-time "
         "ordering and every pattern of children vanishing / being zombies: the walk returns exactly the reachable, "
         "not-older processes, each once, never the caller, and terminates (the symbolic execution of the real loop ends "
         "on every path)")
REGISTRY.add(WALK)


# --- children(): bounded ------------------------------------------------------------------------------------
CH = Contract("C05", INIT, "Process.children", env=ENV,
              ensures=["children() == listed processes whose parent is this process; children(recursive=True) == "
                       "processes reachable through parent links; each once, never the caller, none older than the caller"],
              replay="c05:tree", note="bounded: every parent-link graph over 4 PIDs x start orderings")
BOUNDED_CONTRACTS = [CH]
BOUNDED = [bounded_sweep(CH, "c05:tree", quick=500, thorough=2592)]
