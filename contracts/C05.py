"""C05 - children(), parent() and parents() describe the real process tree."""
from .common import *  # noqa: F401,F403
from .common import Contract, Registry, LoopSpec, BASE_ENV, INIT, LINUX_PY, bounded_sweep
from .frontproc import make_process
from vc.interp import ModuleSrc, PS_EXC

REGISTRY = Registry()
TRUSTED = ["constructor oracle for Process(ppid) (object with its own start time, or NoSuchProcess)"]
ASSUMPTIONS = ["start times order processes (a parent is never younger than its child unless the PID was recycled)"]
NOT_COVERED = ["children(): the graph walk is covered by a bounded enumeration of all parent-link graphs over four "
               "PIDs (forests, self-loops, cycles, unlisted parents) x start-time orderings, not proved",
               "termination of parents() (not claimed by the statement)"]
ENV = dict(BASE_ENV)


# --- parent() ------------------------------------------------------------------------------------------

def setup_parent(it, cfg):
    o = make_process(it, gone=False, reused=False)
    low = it.fresh("lowest_pid", "Int")
    ppid = it.fresh("ppid", "Int")
    myct = it.ctx.ghost["born"]
    pct = it.fresh("parent_start", "Real")
    exists = it.fresh("parent_listed", "Bool")
    it.env_over["__init__._LOWEST_PID"] = low
    o.attrs["ppid"] = EnvFunc("ppid", lambda it2: ppid)
    o.attrs["create_time"] = EnvFunc("create_time", lambda it2: myct)
    mod = ModuleSrc.get(INIT)

    def ctor_effect(it2, env, exc):
        if not it2.truth(exists, "parent-listed"):
            it2.raise_(PS_EXC["NoSuchProcess"][0], pid=env["pid"])
        po = env["self"]
        po.module = mod
        po.attrs.update({"_pid": env["pid"], "create_time": EnvFunc("create_time", lambda it3: pct)})

    it.ctx.ghost["ctor_effect"] = ctor_effect
    return {"args": {"self": o}, "spec": {"low": low, "ppid": ppid, "myct": myct, "pct": pct, "exists": exists},
            "values": [low, ppid, pct, exists]}


REGISTRY.add(Contract("C05", INIT, "Process.__init__", callee_only=True,
                      effect=lambda it, env, exc: it.ctx.ghost["ctor_effect"](it, env, exc),
                      note="constructor oracle"))

REGISTRY.add(Contract(
    "C05", INIT, "Process.parent", setup=setup_parent, env=ENV, inline=["pid"],
    ensures=[
        "implies(self._pid == low, result is None)",
        "implies(self._pid != low and exists and pct <= myct, result is not None and result._pid == ppid)",
        "implies(self._pid != low and (not exists or pct > myct), result is None)",   # PID now owned by a younger process
    ],
    raises={}, canaries=["result is None"], replay=None,
    note="the process named by ppid() unless that PID now belongs to a process younger than the caller"))


# --- children(): bounded ------------------------------------------------------------------------------------
CH = Contract("C05", INIT, "Process.children", env=ENV,
              ensures=["children() == listed processes whose parent is this process; children(recursive=True) == "
                       "processes reachable through parent links; each once, never the caller, none older than the caller"],
              replay="c05:tree", note="bounded: every parent-link graph over 4 PIDs x start orderings")
BOUNDED_CONTRACTS = [CH]
BOUNDED = [bounded_sweep(CH, "c05:tree", quick=500, thorough=2592)]
