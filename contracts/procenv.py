"""Environment model of a Linux procfs entry for one target PID (DESIGN.md 3.3).

Ghost state: 'gone' (Bool term, monotone: once the process is gone it stays
gone), advanced non-deterministically before every access.  Lifetime paths
(/proc/P/stat, status, statm, cmdline, environ, io, smaps, fd/, task/) fail with
ENOENT/ESRCH exactly when the process is gone and may be denied (EACCES/EPERM) at
any access; volatile paths (fd/N, fdinfo/N, task/T/stat, exe, cwd, smaps_rollup)
may additionally fail with ENOENT/ESRCH while the process is alive.  Outcomes of
different accesses are independent: one proof covers every fault sequence."""
import errno as _errno

from vc import smt
from vc.smt import T, is_t, I, R, B, S, And, Or, Not, Implies, Ite, Eq, lift
from vc.interp import (Obj, SymList, SymMap, SymSet, SymFile, EnvFunc, Opaque, FStr, ExcVal, Unsupported, PyRaise)

LIFETIME_TAILS = ("/stat", "/status", "/statm", "/cmdline", "/environ", "/io", "/smaps", "/fd", "/task", "")
VOLATILE_TAILS = ("/exe", "/cwd", "/smaps_rollup")


def path_tail(path):
    if isinstance(path, str):
        return path
    if isinstance(path, FStr):
        return path.tail()
    return None


def path_text(path):
    """concrete pieces of a (possibly symbolic) path, symbolic pieces as '{}'"""
    if isinstance(path, str):
        return path
    if isinstance(path, FStr):
        return "".join(p if isinstance(p, str) else "{}" for p in path.parts)
    if is_t(path):
        return "{}"
    return str(path)


class ProcEnv:
    """files: {tail: provider(it, path) -> value for a successful read}
    classify(path_text) -> 'lifetime' | 'volatile' | 'other'"""

    def __init__(self, it, files=None, volatile=(), denied=True, zombie_possible=True):
        self.it = it
        self.files = dict(files or {})
        self.volatile = tuple(volatile)
        self.denied = denied
        g = it.fresh("gone0", "Bool")
        it.ctx.ghost["gone"] = g
        it.ctx.ghost["gone0"] = g
        it.ctx.ghost["accesses"] = 0
        it.ctx.ghost["saw_gone"] = B(False)     # an ENOENT/ESRCH was delivered on a lifetime path
        it.ctx.ghost["saw_denied"] = False
        it.ctx.values.append(g)

    # -- ghost ---------------------------------------------------------------
    def advance(self):
        it = self.it
        prev = it.ctx.ghost["gone"]
        it.ctx.ghost["accesses"] += 1
        g = it.fresh(f"gone{it.ctx.ghost['accesses']}", "Bool")
        it.ctx.assume(Implies(prev, g))
        it.ctx.ghost["gone"] = g
        return g

    def kind_of(self, path):
        txt = path_text(path)
        for v in self.volatile:
            if v in txt:
                return "volatile"
        for v in VOLATILE_TAILS:
            if txt.endswith(v):
                return "volatile"
        if "/fd/" in txt or "/fdinfo/" in txt or ("/task/" in txt and txt.endswith("/stat")):
            return "volatile"
        return "lifetime"

    def outcome(self, path, label, extra_errors=()):
        """non-deterministic outcome of one OS access; returns normally for success"""
        it = self.it
        kind = self.kind_of(path)
        g = self.advance()
        opts = ["ok", "ENOENT", "ESRCH"] + (["EACCES"] if self.denied else []) + list(extra_errors)
        k = it.choose(len(opts), f"access:{label}")
        o = opts[k]
        it.ctx.log.append(("access", label, kind, o))
        if o == "ok":
            it.ctx.assume(Not(g))
            return
        if o in ("ENOENT", "ESRCH"):
            if kind == "lifetime":
                it.ctx.assume(g)
                it.ctx.ghost["saw_gone"] = B(True)
            cls = FileNotFoundError if o == "ENOENT" else ProcessLookupError
            raise PyRaise(ExcVal(cls, (), {"errno": I(_errno.ENOENT if o == "ENOENT" else _errno.ESRCH)}))
        if o == "EACCES":
            it.ctx.ghost["saw_denied"] = True
            raise PyRaise(ExcVal(PermissionError, (), {"errno": I(_errno.EACCES)}))
        cls, eno = o
        raise PyRaise(ExcVal(cls, (), {"errno": I(eno)}))

    def content(self, path):
        p = path_text(path)
        for tail, prov in self.files.items():
            if p.endswith(tail):
                return prov(self.it, path)
        raise Unsupported(f"no content model for {p}")

    # -- primitives ------------------------------------------------------------
    def bcat(self, it, path, *a, **kw):
        if a:
            kw["fallback"] = a[0]
        has_fb = "fallback" in kw
        try:
            self.outcome(path, "read:" + path_text(path))
        except PyRaise:
            if "fallback" in kw:
                return kw["fallback"]
            raise
        v = self.content(path)
        if isinstance(v, SymFile):
            raise Unsupported("bcat of a line-structured file model")
        return v

    def open(self, it, path, *a, **k):
        self.outcome(path, "open:" + path_text(path))
        v = self.content(path)
        if not isinstance(v, SymFile):
            # whole-content model: a one-shot file object
            return WholeFile(v)
        return v

    def exists(self, it, path):
        g = self.advance()
        txt = path_text(path)
        it.ctx.log.append(("access", "exists:" + txt, "lifetime", "query"))
        import re as _re
        if _re.fullmatch(r".*/(\{\}|\d+)/?", txt):
            # the bare /proc/<pid> directory: the kernel may keep it (empty) for a while after the process is gone
            # (psutil issue #2418), so its presence proves nothing; its absence proves the process is gone
            linger = it.fresh("procdir_lingers", "Bool")
            return Or(Not(g), linger)
        return Not(g)

    def stat(self, it, path):
        self.outcome(path, "stat:" + path_text(path))
        return Opaque("stat_result")

    def listdir(self, it, path):
        self.outcome(path, "listdir:" + path_text(path))
        v = self.content(path)
        return v

    def readlink(self, it, path):
        self.outcome(path, "readlink:" + path_text(path), extra_errors=getattr(self, "readlink_errors", ()))
        return self.content(path)

    def install(self, modnames=("_pslinux", "_common")):
        it = self.it
        for m in modnames:
            it.env_over[f"{m}.bcat"] = EnvFunc("bcat", self.bcat)
            it.env_over[f"{m}.cat"] = EnvFunc("cat", self.bcat)
            it.env_over[f"{m}.open_binary"] = EnvFunc("open_binary", self.open)
            it.env_over[f"{m}.open_text"] = EnvFunc("open_text", self.open)
        it.env_over["os.path.exists"] = EnvFunc("os.path.exists", self.exists)
        it.env_over["os.path.lexists"] = EnvFunc("os.path.lexists", self.exists)
        it.env_over["os.stat"] = EnvFunc("os.stat", self.stat)
        it.env_over["os.listdir"] = EnvFunc("os.listdir", self.listdir)
        it.env_over["os.readlink"] = EnvFunc("os.readlink", self.readlink)
        return self


class WholeFile:
    """file object whose whole content is one symbolic string"""

    def __init__(self, data):
        self.data = data
        self.consumed = False

    def vc_enter(self, it):
        return self

    def vc_exit(self, it, exc):
        return None

    def vc_getattr(self, it, name):
        from vc.interp import Builtin
        if name == "read":
            def rd():
                if self.consumed:
                    return S(b"") if self.data.bk == "bytes" else S("")
                self.consumed = True
                return self.data
            return Builtin("read", rd)
        if name == "close":
            return Builtin("close", lambda: None)
        raise Unsupported(f"WholeFile.{name}")


def linux_process(it, pid=None, name=None):
    """the _pslinux.Process object under test: pid symbolic (>= 0), procfs path '/proc'"""
    from vc.interp import ModuleSrc
    mod = ModuleSrc.get("psutil/_pslinux.py")
    p = pid if pid is not None else it.fresh("pid", "Int")
    if pid is None:
        it.ctx.assume(smt.Cmp(">=", p, I(0)))
    o = Obj("Process", {"pid": p, "_name": name if name is not None else Opaque("cached_name"),
                        "_ppid": Opaque("cached_ppid"), "_procfs_path": "/proc"}, module=mod)
    return o


# exceptional postconditions shared by every Process method (property C03)
def c03_raises(extra=None):
    r = {
        "NoSuchProcess": ["exc.pid == self.pid", "ghost['gone']"],
        "ZombieProcess": ["exc.pid == self.pid"],
        "AccessDenied": ["exc.pid == self.pid"],
    }
    r.update(extra or {})
    return r


# ---------------------------------------------------------------------------
# kernel record grammars (ghost "what the kernel publishes")
# ---------------------------------------------------------------------------

STAT_KEYS = {"status": 0, "ppid": 1, "ttynr": 4, "utime": 11, "stime": 12, "children_utime": 13,
             "children_stime": 14, "create_time": 19, "cpu_num": 36, "blkio_ticks": 39}
DIGIT_FIELDS = (1, 4, 11, 12, 13, 14, 19, 36, 39)


def stat_record(it, prefix="st", min_fields=37):
    """/proc/<pid>/stat as the kernel formats it (fs/proc/array.c do_task_stat):
        pid " (" comm ") " state " " f1 " " ... fn "\\n"
    comm: ANY bytes, 0..15 of them (parentheses, spaces, newlines included);
    the text after ") " contains no ')' and splits on whitespace into the tokens F
    (>= min_fields of them: old kernels lack the trailing fields)."""
    key = f"__statrec_{prefix}"
    if key in it.ctx.ghost:
        return it.ctx.ghost[key]
    from vc import lib
    pid_s = it.fresh(f"{prefix}_pid_s", "String", "bytes")
    comm = it.fresh(f"{prefix}_comm", "String", "bytes")
    rest = it.fresh(f"{prefix}_rest", "String", "bytes")
    F = it.fresh(f"{prefix}_F", ("Seq", "String"))
    data = smt.Concat(smt.Concat(smt.Concat(smt.Concat(pid_s, S(b" (")), comm), S(b") ")), rest)
    data = T("String", data.sx, "bytes")
    it.ctx.uf("py_splitws", ["String"], ("Seq", "String"))
    it.ctx.uf("py_split", ["String", "String"], ("Seq", "String"))
    it.ctx.uf("py_intval", ["String"], "Int")
    a = it.ctx.assume
    a(lib.in_re(pid_s, lib.digits_re()))
    a(Not(smt.Contains(pid_s, S(b"("))))
    a(Not(smt.Contains(pid_s, S(b")"))))
    a(smt.Cmp("<=", smt.Len(comm), I(15)))
    a(Not(smt.Contains(rest, S(b")"))))
    a(Eq(smt.app("py_splitws", ("Seq", "String"), rest), F))
    a(smt.Cmp(">=", smt.Len(F), I(min_fields)))
    a(smt.Cmp("<=", smt.Len(F), I(60)))
    # the state is one letter; the numeric fields are decimal
    a(Eq(smt.Len(smt.Nth(F, I(0))), I(1)))
    for k in DIGIT_FIELDS:
        a(Implies(smt.Cmp(">", smt.Len(F), I(k)), lib.in_re(smt.Nth(F, I(k)), lib.digits_re())))
    # redundant consequences of the definition of `data` (nothing new is assumed): they name the position of the
    # closing parenthesis so that the solvers do not have to rediscover it inside every obligation
    k = smt.Add(smt.Add(smt.Len(pid_s), I(2)), smt.Len(comm))
    a(Eq(smt.Substr(data, k, I(1)), S(b")")))
    a(Eq(smt.Substr(data, smt.Add(k, I(2)), smt.Len(rest)), rest))
    a(Eq(smt.Len(data), smt.Add(smt.Add(k, I(2)), smt.Len(rest))))
    a(Not(smt.Contains(smt.Substr(data, smt.Add(k, I(1)), smt.Add(smt.Len(rest), I(1))), S(b")"))))
    rec = {"data": data, "pid_s": pid_s, "comm": comm, "rest": rest, "F": SymList(F, bk="bytes")}
    it.ctx.ghost[key] = rec
    for v in (pid_s, comm, rest, F):
        it.ctx.values.append(v)
    return rec


def parsed_stat(it, rec):
    """the dict a correct _parse_stat_file returns for the record"""
    F = rec["F"]
    d = {"name": rec["comm"]}
    for k, idx in STAT_KEYS.items():
        if k == "blkio_ticks":
            continue
        v = smt.Nth(F.seq, I(idx))
        d[k] = T("String", v.sx, "bytes")
    return d


def h_tok(it, rec, k):
    if isinstance(rec["F"], list):
        return rec["F"][k]
    v = smt.Nth(rec["F"].seq, I(k))
    return T("String", v.sx, "bytes")


def h_intval(it, s):
    if isinstance(s, (bytes, str)):
        return int(s)
    it.ctx.uf("py_intval", ["String"], "Int")
    return smt.app("py_intval", "Int", it.term(s))


def h_dec(it, s):
    """bytes -> str as psutil's decode() does (utf-8, surrogateescape)"""
    if isinstance(s, bytes):
        return s.decode("utf-8", "surrogateescape")
    return T("String", s.sx, "str")


def status_record(it, prefix="ss", vmax=60):
    """/proc/<pid>/status as the kernel formats it (fs/proc/array.c proc_pid_status): a sequence of
    lines 'Key:\\tvalue', each key once, stated through line.split('\\t') (tokens).  Line 0 is
    'Name:\\t' v where v is the (escaped) comm: ANY bytes except a raw newline, so its tokens
    after 'Name:' are arbitrary.  Only the lines psutil reads are named (ghost line indices iU, iG,
    iT, iV < iN); no other line (1..n-1) has one of their keys as first token, and no other line
    has a token ending in 'ctxt_switches:'."""
    key = f"__statusrec_{prefix}"
    if key in it.ctx.ghost:
        return it.ctx.ghost[key]
    from vc import lib
    L = it.fresh(f"{prefix}_lines", ("Seq", "String"))
    n = smt.Len(L)
    names = ["ur", "ue", "us", "ufs", "gr", "ge", "gs", "gfs", "nthr", "vol", "nonvol"]
    sym = {x: it.fresh(f"{prefix}_{x}", "String", "bytes") for x in names}
    idx = {x: it.fresh(f"{prefix}_{x}", "Int") for x in ("iU", "iG", "iT", "iV", "iN")}
    VT = it.fresh(f"{prefix}_vtokens", ("Seq", "String"))     # tokens of the Name value
    vlen = it.fresh(f"{prefix}_vlen", "Int")
    a = it.ctx.assume
    it.ctx.uf("py_split", ["String", "String"], ("Seq", "String"))
    TAB = S(b"\t")

    def toks(j):
        return smt.app("py_split", ("Seq", "String"), smt.Nth(L, j), TAB)

    def seq(*xs):
        acc = smt.SeqUnit(xs[0])
        for x in xs[1:]:
            acc = smt.Concat(acc, smt.SeqUnit(x))
        return acc

    a(smt.Cmp(">=", n, I(6)))
    a(Eq(toks(I(0)), smt.Concat(smt.SeqUnit(S(b"Name:")), VT)))
    a(And(smt.Cmp(">=", smt.Len(VT), I(1)), smt.Cmp("<=", I(0), vlen), smt.Cmp("<=", vlen, I(vmax))))
    it.forall_int(lambda t: Implies(And(smt.Cmp("<=", I(0), t), smt.Cmp("<", smt.Add(t, I(1)), smt.Len(VT))),
                                    smt.Cmp("<=", smt.Add(smt.Add(smt.Len(smt.Nth(VT, t)), I(1)),
                                                          smt.Len(smt.Nth(VT, smt.Add(t, I(1))))), vlen)))
    for x in names:
        a(lib.in_re(sym[x], lib.digits_re()))
    for x in idx.values():
        a(And(smt.Cmp("<=", I(1), x), smt.Cmp("<", x, n)))
    a(smt.Cmp("<", idx["iV"], idx["iN"]))
    a(Eq(toks(idx["iU"]), seq(S(b"Uid:"), sym["ur"], sym["ue"], sym["us"], sym["ufs"])))
    a(Eq(toks(idx["iG"]), seq(S(b"Gid:"), sym["gr"], sym["ge"], sym["gs"], sym["gfs"])))
    a(Eq(toks(idx["iT"]), seq(S(b"Threads:"), sym["nthr"])))
    a(Eq(toks(idx["iV"]), seq(S(b"voluntary_ctxt_switches:"), sym["vol"])))
    a(Eq(toks(idx["iN"]), seq(S(b"nonvoluntary_ctxt_switches:"), sym["nonvol"])))
    it.ctx.ghost.setdefault("line_indices", []).extend([I(0)] + list(idx.values()))

    def line_fact(j):
        tk = toks(j)
        first = smt.Nth(tk, I(0))
        rng = And(smt.Cmp("<=", I(1), j), smt.Cmp("<", j, n))
        it.ctx.counter["_q"] += 1
        tq = T("Int", f"q{it.ctx.counter['_q']}_t")
        return Implies(rng, And(
            Eq(Eq(first, S(b"Uid:")), Eq(j, idx["iU"])),
            Eq(Eq(first, S(b"Gid:")), Eq(j, idx["iG"])),
            Eq(Eq(first, S(b"Threads:")), Eq(j, idx["iT"])),
            Or(Eq(j, idx["iV"]), Eq(j, idx["iN"]),
               smt.Forall([tq], Implies(And(smt.Cmp("<=", I(0), tq), smt.Cmp("<", tq, smt.Len(tk))),
                                        Not(smt.app("str.suffixof", "Bool", S(b"ctxt_switches:"), smt.Nth(tk, tq))))))))

    it.forall_int(line_fact, instances=list(idx.values()))
    it.ctx.uf("py_joinlines", [("Seq", "String")], "String")
    data = smt.app("py_joinlines", "String", L, bk="bytes")
    rec = dict(sym, data=data, lines=L, vtokens=VT, **idx)
    it.ctx.ghost[key] = rec
    for x in names:
        it.ctx.values.append(sym[x])
    return rec
