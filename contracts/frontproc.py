"""Shared model for psutil.Process (psutil/__init__.py): the object under test, the
process-table oracle and the effectful primitives (DESIGN.md 3.3).

Process-table oracle.  The object was built for the process that started at
ghost 'born' (self._ident[1]).  Every later observation of the PID (a fresh
Process(pid) built inside is_running(), a signal, a setter) sees the owner *at
that instant*: nobody (NoSuchProcess), an owner whose start time is readable
(own_k) or an owner that cannot be identified (zombie / denied: ident (pid, None)).
The original process never comes back once it is gone ('orig_alive' is monotone),
and start times identify processes (same pid + same start time <=> same process;
the resolution caveat is the code's own documented assumption)."""
import signal as _signal

from vc import smt
from vc.smt import T, is_t, I, R, B, S, And, Or, Not, Implies, Ite, Eq, lift
from vc.contract import Contract
from vc.interp import Obj, SymSet, EnvFunc, Opaque, ExcVal, Unsupported, ModuleSrc, PS_EXC, PyRaise

INIT = "psutil/__init__.py"


class Lock:
    """threading.RLock(): `with lock:` and lock.acquire() / lock.release() leave the same trace"""

    def vc_enter(self, it):
        it.ctx.log.append(("lock", "acquire"))
        return self

    def vc_exit(self, it, exc):
        it.ctx.log.append(("lock", "release"))

    def vc_getattr(self, it, name):
        from vc.interp import EnvFunc
        if name == "acquire":
            return EnvFunc("acquire", lambda it2, *a, **k: (it2.ctx.log.append(("lock", "acquire")), True)[1])
        if name == "release":
            return EnvFunc("release", lambda it2: it2.ctx.log.append(("lock", "release")))
        if name in ("__enter__", "__exit__"):
            return EnvFunc(name, lambda it2, *a: (self.vc_enter(it2) if name == "__enter__" else self.vc_exit(it2, None)))
        it.raise_(AttributeError, name)


def make_process(it, gone=None, reused=None, born_known=True, pid=None):
    mod = ModuleSrc.get(INIT)
    p = pid if pid is not None else it.fresh("pid", "Int")
    if pid is None:
        it.ctx.assume(smt.Cmp(">=", p, I(0)))
    born = it.fresh("born", "Real")
    it.ctx.assume(smt.Cmp(">", born, R(0)))
    g = gone if gone is not None else it.fresh("gone_flag", "Bool")
    r = reused if reused is not None else it.fresh("reused_flag", "Bool")
    inner = Obj("Process", {"pid": p, "_name": Opaque("n"), "_ppid": None, "_procfs_path": "/proc"},
                module=ModuleSrc.get("psutil/_pslinux.py"))
    o = Obj("Process", {"_pid": p, "_name": Opaque("cached_name"), "_ppid": None, "_exe": None,
                        "_create_time": born if born_known else None, "_gone": g, "_pid_reused": r, "_hash": None,
                        "_ident": (p, born if born_known else None), "_proc": inner, "_exitcode": Opaque("sentinel"),
                        "_last_sys_cpu_times": None, "_last_proc_cpu_times": None, "_lock": Lock()}, module=mod)
    gh = it.ctx.ghost
    gh["born"] = born
    gh["orig_alive"] = it.fresh("orig_alive0", "Bool")      # is the original process still in the table?
    gh["verified"] = False                                   # identity confirmed during this invocation
    gh["obs"] = 0
    it.ctx.values.extend([p, born, g, r] if gone is None and reused is None else [p, born])
    # representation invariant of the two sticky flags: they are only ever set after the original
    # process was observed gone / replaced
    it.ctx.assume(Implies(Or(it.as_bool(g), it.as_bool(r)), Not(gh["orig_alive"])))
    return o


def observe(it):
    """one observation of the process table for self.pid -> 'none' | ('owner', ctime term or None)"""
    gh = it.ctx.ghost
    gh["obs"] += 1
    k = gh["obs"]
    alive = it.fresh(f"orig_alive{k}", "Bool")
    it.ctx.assume(Implies(alive, gh["orig_alive"]))          # never comes back
    gh["orig_alive"] = alive
    c = it.choose(3, "table:none/owner/unidentifiable")
    if c == 0:
        it.ctx.assume(Not(alive))
        return "none", None
    if c == 1:
        own = it.fresh(f"owner_start{k}", "Real")
        it.ctx.assume(smt.Cmp(">", own, R(0)))
        it.ctx.assume(Eq(alive, Eq(own, gh["born"])))        # start time identifies the process
        gh["last_owner"] = own
        return "owner", own
    return "owner", None


def ctor_effect(it, env, outcome):
    pass


def process_ctor_contract(prop):
    """Process(pid) as is_running() uses it: observes the table now"""

    def returns(it, env):
        return None

    def effect(it, env, exc):
        o = env["self"]
        kind, own = observe(it)
        if kind == "none":
            it.raise_(PS_EXC["NoSuchProcess"][0], pid=env["pid"])
        o.module = ModuleSrc.get(INIT)
        o.attrs.update({"_pid": env["pid"], "_ident": (env["pid"], own), "_gone": False, "_pid_reused": False,
                        "_name": None, "_create_time": own})
        it.ctx.ghost["last_obj_owner"] = own

    return Contract(prop, INIT, "Process.__init__", callee_only=True, effect=effect,
                    note="constructor oracle: observes who owns the PID at this instant")


def kill_env(it):
    """os.kill as called by psutil: effect log + precondition obligations"""
    def kill(it2, pid, sig):
        tp = it2.term(pid)
        it2.ctx.oblige("pre@os.kill:pid > 0", "pre", smt.Cmp(">", tp, I(0)), where="os.kill call site")
        v = it2.ctx.ghost.get("verified", False)
        it2.ctx.oblige("pre@os.kill:identity verified in this invocation", "pre", it2.as_bool(v),
                       where="os.kill call site")
        it2.ctx.log.append(("kill", pid, sig))
        c = it2.choose(3, "os.kill:ok/ESRCH/EPERM")
        if c == 1:
            it2.raise_(ProcessLookupError, errno=I(3))
        if c == 2:
            it2.raise_(PermissionError, errno=I(1))
        return None
    return EnvFunc("os.kill", kill)


def setter_env(name):
    def f(it, *args):
        v = it.ctx.ghost.get("verified", False)
        it.ctx.oblige(f"pre@{name}:identity verified in this invocation", "pre", it.as_bool(v), where=f"{name} call site")
        it.ctx.log.append((name,) + tuple(args))
        c = it.choose(3, f"{name}:ok/NSP/AD")
        if c == 1:
            it.raise_(PS_EXC["NoSuchProcess"][0], pid=it.ctx.ghost.get("pid"))
        if c == 2:
            it.raise_(PS_EXC["AccessDenied"][0], pid=it.ctx.ghost.get("pid"))
        return None
    return EnvFunc(name, f)
