"""C03 - a process vanishing or being denied mid-call yields only psutil errors."""
from .common import *  # noqa: F401,F403
from .common import Contract, Registry, LoopSpec, BASE_ENV, INIT, LINUX_PY, bounded_sweep
from . import procenv
from .procenv import ProcEnv, linux_process, stat_record, status_record, c03_raises
from . import C06 as _c06
from . import C12 as _c12
from . import C14 as _c14
from vc.interp import PS_EXC

REGISTRY = Registry()
TRUSTED = ["procfs fault model contracts/procenv.py: every OS access independently succeeds, fails with ENOENT/ESRCH "
           "(lifetime paths: exactly when the process is gone; 'gone' is monotone) or is denied (EACCES)",
           "record grammars for successful reads"]
ASSUMPTIONS = ["errnos outside {ENOENT, ESRCH, EACCES, EPERM} and records truncated mid-way are outside the quantifier",
               "a successful read returns a whole record in the kernel's grammar"]
NOT_COVERED = ["methods with per-entry loops (threads, open_files, memory_maps, memory_full_info, net_connections), "
               "as_dict/oneshot sequences and 'once gone, always NoSuchProcess' across calls are covered by a bounded "
               "fault-injection sweep (every access index k x {vanish, zombie, deny} and two-fault sequences), not proved"]
ENV = dict(BASE_ENV)

# exceptional postcondition of every Process method: only the three psutil errors, carrying the pid;
# NoSuchProcess only if the process was really observed gone
RAISES = c03_raises()
GONE_AT_ENTRY = "not ghost['gone0']"       # a normal return proves the process was there at the first access
INL = ["_is_zombie", "_raise_if_zombie", "_raise_if_not_alive", "decode", "_readlink"]


def stat_setup(it, cfg):
    rec, proc, clk = _c06.base_setup(it, cfg)
    bt = it.fresh("btime_now", "Real")
    it.ctx.ghost["btime_now"] = bt
    it.env_over["_pslinux.BOOT_TIME"] = None
    tmap = make_value(it, "tmap", ("Map", "Int", "Str"))
    it.ctx.ghost["tmap"] = tmap
    return {"args": {"self": proc}, "spec": {"rec": rec}}


REGISTRY.add(Contract("C03", LINUX_PY, "boot_time", callee_only=True,
                      returns=lambda it, env: it.ctx.ghost["btime_now"]))
REGISTRY.add(Contract("C03", "psutil/_psposix.py", "get_terminal_map", callee_only=True,
                      returns=lambda it, env: it.ctx.ghost["tmap"]))

def fault_effect(it, env, outcome):
    """ghost update of a callee that reads a lifetime file (summary of its own verified contract)"""
    gh = it.ctx.ghost
    prev = gh["gone"]
    gh["accesses"] += 1
    g = it.fresh(f"gone{gh['accesses']}", "Bool")
    it.ctx.assume(Implies(prev, g))
    gh["gone"] = g
    if outcome is None:
        it.ctx.assume(Not(g))
    elif outcome == "NoSuchProcess":
        it.ctx.assume(g)


CALLEE_RAISES = {"NoSuchProcess": "exc.pid == self.pid", "ZombieProcess": "exc.pid == self.pid",
                 "AccessDenied": "exc.pid == self.pid"}

# verified below (verify_only) and used by the accessors through these summaries
REGISTRY.add(Contract("C03", LINUX_PY, "Process._parse_stat_file", name="_parse_stat_file(summary)", callee_only=True,
                      returns=_c06.ret_parsed, raises=CALLEE_RAISES, effect=fault_effect))
REGISTRY.add(Contract("C03", LINUX_PY, "Process._read_status_file", name="_read_status_file(summary)", callee_only=True,
                      returns=lambda it, env: status_record(it)["data"], raises=CALLEE_RAISES, effect=fault_effect))

for meth in ("_parse_stat_file", "name", "ppid", "cpu_num", "status", "cpu_times", "create_time", "terminal"):
    REGISTRY.add(Contract(
        "C03", LINUX_PY, f"Process.{meth}", setup=stat_setup, env=ENV, decorated=True, inline=INL,
        verify_only=(meth == "_parse_stat_file"),
        ensures=[GONE_AT_ENTRY], raises=RAISES, canaries=["ghost['gone0']"], replay="c03:faults",
        note="stat-record accessor under the fault model"))


def status_setup(it, cfg):
    rec = status_record(it)
    proc = linux_process(it)
    srec = stat_record(it)
    ProcEnv(it, files={"/status": lambda it2, p: SymFile(rec["lines"], "bytes"),
                       "/stat": lambda it2, p: srec["data"]}).install()
    return {"args": {"self": proc}, "spec": {"rec": rec}}


for meth in ("_read_status_file", "uids", "gids", "num_threads"):
    REGISTRY.add(Contract(
        "C03", LINUX_PY, f"Process.{meth}", setup=status_setup, env=ENV, decorated=True, inline=INL,
        verify_only=(meth == "_read_status_file"),
        ensures=[GONE_AT_ENTRY], raises=RAISES, canaries=["ghost['gone0']"], replay="c03:faults",
        note="status-record accessor under the fault model"))


def cmdline_setup(it, cfg):
    su = _c12.setup_cmdline(it, cfg)
    srec = stat_record(it)
    return su


REGISTRY.add(_c12.IS_ZOMBIE)
REGISTRY.add(Contract(
    "C03", LINUX_PY, "Process.cmdline", setup=_c12.setup_cmdline, env=ENV, decorated=True,
    inline=["_raise_if_zombie", "decode"],
    ensures=[GONE_AT_ENTRY], raises=RAISES, canaries=["ghost['gone0']"], replay="c03:faults"))

for meth in ("exe", "cwd"):
    REGISTRY.add(Contract(
        "C03", LINUX_PY, f"Process.{meth}", setup=_c12.setup_link, env=ENV, decorated=True,
        inline=["_raise_if_zombie", "_readlink"],
        ensures=[], raises=RAISES, canaries=["result == 'x'"], replay="c03:faults",
        note="volatile link: ENOENT/ESRCH while the PID is still listed gives '' (not an error)"))

REGISTRY.add(Contract(
    "C03", LINUX_PY, "Process.io_counters", setup=_c14.setup_io, env=ENV, decorated=True, inline=INL,
    loops=_c14.REGISTRY.by_key[("_pslinux", "Process.io_counters")].loops,
    helpers={"has": _c14.h_has, "map_is": _c14.h_map_is},
    ensures=[GONE_AT_ENTRY],
    raises=dict(RAISES, RuntimeError="C(nlines) == 0", ValueError=None),
    canaries=["ghost['gone0']"], replay="c03:faults"))

REGISTRY.add(Contract(
    "C03", LINUX_PY, "Process.num_fds", setup=_c14.setup_numfds, env=ENV, decorated=True, inline=INL,
    ensures=[GONE_AT_ENTRY], raises=RAISES, canaries=["ghost['gone0']"], replay="c03:faults"))


# --- native calls: errno protocol through the wrapper ---------------------------------------------------

def native_setup(names):
    def setup(it, cfg):
        proc = linux_process(it)
        srec = stat_record(it)
        env = ProcEnv(it, files={"/stat": lambda it2, p: srec["data"]}).install()

        def native(it2, *a):
            env.outcome("/proc/pid", "native")
            return Opaque("native_value")

        stub = _c03_stub({n: EnvFunc(n, native) for n in names})
        it.env_over["_pslinux.cext"] = stub
        it.env_over["_pslinux.cext_posix"] = stub
        return {"args": {"self": proc}, "spec": {}}
    return setup


class _c03_stub:
    def __init__(self, attrs):
        self.attrs = attrs

    def vc_getattr(self, it, name):
        if name in self.attrs:
            return self.attrs[name]
        it.raise_(AttributeError, name)


REGISTRY.add(Contract(
    "C03", LINUX_PY, "Process.nice_get", setup=native_setup(["getpriority"]), env=ENV, decorated=True, inline=INL,
    ensures=[GONE_AT_ENTRY], raises=RAISES, canaries=["ghost['gone0']"], replay="c03:faults"))
REGISTRY.add(Contract(
    "C03", LINUX_PY, "Process.cpu_affinity_get", setup=native_setup(["proc_cpu_affinity_get"]), env=ENV,
    decorated=True, inline=INL, ensures=[GONE_AT_ENTRY], raises=RAISES, canaries=["ghost['gone0']"],
    replay="c03:faults"))


# --- the rest: bounded fault-injection sweep ---------------------------------------------------------------
FI = Contract("C03", LINUX_PY, "Process.*", name="_pslinux.Process.* under injected faults", env=ENV,
              ensures=["for every method (incl. as_dict, oneshot sequences, children, parent, is_running, "
                       "process_iter(attrs)): process removed / zombie / denied just before OS access k => a well-formed "
                       "value or NoSuchProcess/ZombieProcess/AccessDenied(pid); after the process is gone every later "
                       "query raises NoSuchProcess"],
              replay="c03:faults", note="bounded: fault enumeration on a fake procfs")
BOUNDED_CONTRACTS = [FI]
BOUNDED = [bounded_sweep(FI, "c03:faults", quick=1500, thorough=12000)]
