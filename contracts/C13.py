"""C13 - process memory figures are consistent with the kernel's per-mapping accounting."""
import collections

from .common import *  # noqa: F401,F403
from .common import Contract, Registry, LoopSpec, BASE_ENV, INIT, LINUX_PY, fold_fn, bounded_sweep
from .procenv import ProcEnv, linux_process, stat_record
from .frontproc import make_process
from vc import lib
from vc.interp import PS_EXC

REGISTRY = Registry()
TRUSTED = ["smaps_rollup line grammar: 'Key:   <decimal> kB'; a line starts with 'Private_' / 'Pss:' / 'Swap:' exactly "
           "when it is a private / the proportional / the swap figure (other keys, e.g. SwapPss:, Pss_Anon:, do not)",
           "statm grammar: >= 7 decimal tokens"]
ASSUMPTIONS = ["the kernel's roll-up equals the per-mapping sums (kernel contract); what is proved is that the roll-up "
               "parser computes the stated function of its file", "PAGESIZE symbolic > 0"]
NOT_COVERED = ["_parse_smaps (three regexes over the whole file), memory_maps' block splitter and the front-end grouping "
               "are covered by a bounded sweep over generated smaps files (<= 4 mappings, repeated paths, spaces/colons/"
               "' (deleted)', optional lines), not proved"]
ENV = dict(BASE_ENV)


# --- memory_info ---------------------------------------------------------------------------------------------

def setup_meminfo(it, cfg):
    proc = linux_process(it)
    srec = stat_record(it)
    line = it.fresh("statm_line", "String", "bytes")
    it.ctx.uf("py_splitws", ["String"], ("Seq", "String"))
    F = smt.app("py_splitws", ("Seq", "String"), line)     # the tokens, as the very term the code computes
    it.assume(smt.Cmp(">=", smt.Len(F), I(7)))
    for k in range(7):
        it.assume(lib.in_re(smt.Nth(F, I(k)), lib.digits_re()))
    page = it.fresh("PAGESIZE", "Int")
    it.assume(smt.Cmp(">", page, I(0)))
    it.env_over["_pslinux.PAGESIZE"] = page
    lines = smt.SeqUnit(line)
    ProcEnv(it, files={"/statm": lambda it2, p: SymFile(lines, "bytes"), "/stat": lambda it2, p: srec["data"]}).install()
    return {"args": {"self": proc}, "spec": {"F": SymList(F, bk="bytes"), "PAGE": page}, "values": [line, page]}


def h_intval(it, s):
    if isinstance(s, (bytes, str)):
        return int(s)
    it.ctx.uf("py_intval", ["String"], "Int")
    return smt.app("py_intval", "Int", it.term(s))


INL = ["_is_zombie", "_raise_if_zombie"]
PS_RAISES = {"NoSuchProcess": None, "ZombieProcess": None, "AccessDenied": None}

REGISTRY.add(Contract(
    "C13", LINUX_PY, "Process.memory_info", setup=setup_meminfo, env=ENV, decorated=True, inline=INL,
    helpers={"intval": h_intval},
    ensures=["result.vms == intval(F[0]) * PAGE", "result.rss == intval(F[1]) * PAGE", "result.shared == intval(F[2]) * PAGE",
             "result.text == intval(F[3]) * PAGE", "result.lib == intval(F[4]) * PAGE", "result.data == intval(F[5]) * PAGE",
             "result.dirty == intval(F[6]) * PAGE"],
    raises=PS_RAISES, canaries=["result.rss == intval(F[0]) * PAGE"], replay=None,
    returns=lambda it, env: basic_mem(it), callee_ensures=[],
    note="the kernel's per-process page counts times the page size"))

PMEM = collections.namedtuple("pmem", "rss vms shared text lib data dirty")


def basic_mem(it):
    if "basic_mem" not in it.ctx.ghost:
        it.ctx.ghost["basic_mem"] = PMEM(*[it.fresh(f"mem_{f}", "Int") for f in PMEM._fields])
    return it.ctx.ghost["basic_mem"]


# --- _parse_smaps_rollup -------------------------------------------------------------------------------------

def rollup_file(it):
    L = it.fresh("rollup_lines", ("Seq", "String"))
    n = smt.Len(L)
    it.ctx.uf("py_splitws", ["String"], ("Seq", "String"))
    it.ctx.uf("py_intval", ["String"], "Int")
    it.ctx.uf("rollup_kind", ["Int"], "Int")      # 1 private, 2 pss, 3 swap, 0 other

    def kind(j):
        return smt.app("rollup_kind", "Int", j)

    def val(j):
        return smt.app("py_intval", "Int", smt.Nth(smt.app("py_splitws", ("Seq", "String"), smt.Nth(L, j)), I(1)))

    def fact(j):
        ln = smt.Nth(L, j)
        toks = smt.app("py_splitws", ("Seq", "String"), ln)
        rng = And(smt.Cmp("<=", I(0), j), smt.Cmp("<", j, n))
        return Implies(rng, And(
            Eq(smt.app("str.prefixof", "Bool", S(b"Private_"), ln), Eq(kind(j), I(1))),
            Eq(smt.app("str.prefixof", "Bool", S(b"Pss:"), ln), Eq(kind(j), I(2))),
            Eq(smt.app("str.prefixof", "Bool", S(b"Swap:"), ln), Eq(kind(j), I(3))),
            Implies(Not(Eq(kind(j), I(0))), And(smt.Cmp(">=", smt.Len(toks), I(2)),
                                                lib.in_re(smt.Nth(toks, I(1)), lib.digits_re()),
                                                smt.Cmp(">=", val(j), I(0))))))

    it.forall_int(fact)
    USS = fold_fn(it, "rollup_uss", "Int", n, I(0), lambda j, p: Ite(Eq(kind(j), I(1)), smt.Add(p, smt.Mul(val(j), I(1024))), p))
    PSS = fold_fn(it, "rollup_pss", "Int", n, I(0), lambda j, p: Ite(Eq(kind(j), I(2)), smt.Mul(val(j), I(1024)), p))
    SWP = fold_fn(it, "rollup_swap", "Int", n, I(0), lambda j, p: Ite(Eq(kind(j), I(3)), smt.Mul(val(j), I(1024)), p))
    return L, n, USS, PSS, SWP


def setup_rollup(it, cfg):
    proc = linux_process(it)
    L, n, USS, PSS, SWP = rollup_file(it)
    ProcEnv(it, files={"/smaps_rollup": lambda it2, p: SymFile(L, "bytes")}).install()
    return {"args": {"self": proc},
            "spec": {"USS": EnvFunc("USS", lambda it2, x: USS(x)), "PSS": EnvFunc("PSS", lambda it2, x: PSS(x)),
                     "SWP": EnvFunc("SWP", lambda it2, x: SWP(x)), "n": n},
            "values": [L]}


REGISTRY.add(Contract(
    "C13", LINUX_PY, "Process._parse_smaps_rollup", setup=setup_rollup, env=ENV,
    loops={0: LoopSpec(inv=["uss == USS(_i)", "pss == PSS(_i)", "swap == SWP(_i)"])},
    ensures=["result == (USS(n), PSS(n), SWP(n))"],
    raises={"FileNotFoundError": None, "ProcessLookupError": None, "PermissionError": None},
    canaries=["result[0] == 0 - 1"], replay="c13:smaps",
    returns=lambda it, env: tuple(it.ctx.ghost.setdefault("rollup3", tuple(it.fresh(f"rollup_{k}", "Int") for k in ("uss", "pss", "swap")))),
    callee_ensures=[],
    note="uss = 1024 x sum of the Private_* figures, pss / swap = 1024 x the Pss: / Swap: figure"))


# --- memory_full_info: roll-up, falling back to the per-mapping listing -------------------------------------

def setup_full(it, cfg):
    proc = linux_process(it)
    srec = stat_record(it)
    ProcEnv(it, files={"/stat": lambda it2, p: srec["data"]}).install()
    it.env_over["_pslinux.HAS_PROC_SMAPS_ROLLUP"] = cfg["has_rollup"]
    smaps3 = tuple(it.fresh(f"smaps_{k}", "Int") for k in ("uss", "pss", "swap"))
    it.ctx.ghost["smaps3"] = smaps3
    return {"args": {"self": proc}, "spec": {"has_rollup": cfg["has_rollup"]}}


REGISTRY.add(Contract("C13", LINUX_PY, "Process._parse_smaps", callee_only=True,
                      returns=lambda it, env: it.ctx.ghost["smaps3"], raises=PS_RAISES,
                      note="assumed here (bounded sweep): the same three sums computed from the per-mapping listing"))

REGISTRY.add(Contract(
    "C13", LINUX_PY, "Process.memory_full_info", setup=setup_full, env=ENV, decorated=True, inline=INL,
    configs=[{"has_rollup": True}, {"has_rollup": False}],
    helpers={"roll": lambda it: it.ctx.ghost.get("rollup3"), "smaps": lambda it: it.ctx.ghost["smaps3"],
             "mem": lambda it: tuple(basic_mem(it)), "rolled": lambda it: "rollup3" in it.ctx.ghost},
    ensures=["tuple(result)[:7] == mem()",
             "tuple(result)[7:] == smaps() or (has_rollup and rolled() and tuple(result)[7:] == roll())"],
    raises=PS_RAISES, canaries=["result.uss == 0 - 1"], replay=None,
    note="memory_info() fields followed by (uss, pss, swap) from the roll-up, or from the listing when the roll-up "
         "is unavailable (ENOENT/ESRCH)"))


# --- memory_percent (front end) ----------------------------------------------------------------------------------

PFULL = collections.namedtuple("pfullmem", PMEM._fields + ("uss", "pss", "swap"))


def setup_percent(it, cfg):
    o = make_process(it)
    mem = PMEM(*[it.fresh(f"mi_{f}", "Int") for f in PMEM._fields])
    full = PFULL(*[it.fresh(f"mf_{f}", "Int") for f in PFULL._fields])
    total = it.fresh("total_phymem", "Int")
    o.attrs["memory_info"] = EnvFunc("memory_info", lambda it2: (it2.ctx.log.append(("memory_info",)), mem)[1])
    o.attrs["memory_full_info"] = EnvFunc("memory_full_info", lambda it2: (it2.ctx.log.append(("memory_full_info",)), full)[1])
    it.env_over["_pslinux.pfullmem"] = PFULL
    it.env_over["_pslinux.pmem"] = PMEM
    it.env_over["__init__._TOTAL_PHYMEM"] = total if cfg["cached_total"] else None
    vm = collections.namedtuple("svmem", "total")(total)
    it.env_over["__init__.virtual_memory"] = EnvFunc("virtual_memory", lambda it2: vm)
    return {"args": {"self": o, "memtype": cfg["memtype"]},
            "spec": {"mem": mem, "full": full, "total": total, "memtype": cfg["memtype"]}, "values": [total]}


REGISTRY.add(Contract(
    "C13", INIT, "Process.memory_percent", setup=setup_percent, env=ENV,
    configs=[{"memtype": m, "cached_total": c}
             for m in ("rss", "vms", "dirty", "uss", "pss", "swap", "bogus", "RSS", "count", "index", "_fields", "_asdict", "")
             for c in (True, False)],
    ensures=[
        "implies(memtype in ('rss', 'vms', 'dirty'), result * total == 100 * getattr(mem, memtype) and log == [('memory_info',)])",
        "implies(memtype in ('uss', 'pss', 'swap'), result * total == 100 * getattr(full, memtype) and log == [('memory_full_info',)])",
        "total > 0",
    ],
    # names that are attributes of the tuple class but not fields ('count', 'index', '_fields', ...) are unknown too
    raises={"ValueError": ["memtype in ('bogus', 'RSS', 'count', 'index', '_fields', '_asdict', '') or not (total > 0)",
                           "implies(memtype in ('bogus', 'RSS', 'count', 'index', '_fields', '_asdict', ''), len(log) == 0)"]},
    canaries=["result == 0 - 1"], replay=None,
    note="100 * field / total physical memory; unknown field names rejected with ValueError before querying"))


# --- bounded: smaps end to end ---------------------------------------------------------------------------------
SM = Contract("C13", LINUX_PY, "Process.memory_maps", name="_pslinux smaps parsers (end-to-end)", env=ENV,
              ensures=["_parse_smaps == sums over mappings == roll-up parser on the matching roll-up; memory_maps(grouped="
                       "False) lists every mapping; grouped=True has one row per path whose fields are the sums"],
              replay="c13:smaps", note="bounded: generated smaps files against an independent decoding")
BOUNDED_CONTRACTS = [SM]
BOUNDED = [bounded_sweep(SM, "c13:smaps", quick=250, thorough=4000)]
