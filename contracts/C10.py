"""C10 - nowrap=True counters never decrease while their device stays present."""
import ast

from .common import *  # noqa: F401,F403
from .common import Contract, Registry, LoopSpec, BASE_ENV, INIT, COMMON_PY, bounded_sweep

REGISTRY = Registry()
LEVEL = "proof"            # _WrapNumbers.run is under a deductive one-step contract (STEP below); its shape bound is reported
TRUSTED = ["threading.Lock gives mutual exclusion"]
ASSUMPTIONS = ["all tuples of one key have one arity; counters are non-negative ints",
               "SHAPE BOUND of the _WrapNumbers.run step contract: the symbolic execution enumerates which devices are "
               "cached / in the snapshot and which offsets are stored (replay/c10shape.py: up to 4 devices, tuple width up "
               "to 3, every reachable reminder layout for <= 2 devices); counter values, offsets and the length of the "
               "history are unbounded (inductive invariant).  More devices / wider tuples are covered only by the argument "
               "that run() treats each (device, position) independently - not machine-checked - and by the bounded "
               "history sweep"]
NOT_COVERED = ["_WrapNumbers.run for more devices or wider tuples than the shape table holds (see assumptions): the bounded "
               "enumeration of snapshot histories against a reference model (two names, three devices, wraps, devices "
               "appearing/disappearing/reappearing, cache_clear at any point) stays as a second, representation-independent check",
               "_WrapNumbers.cache_clear: three dict.pop/clear calls, checked by the history sweep and the lock table only",
               "the scheduler (two threads): only lock ownership of every access is checked (table obligation)"]
ENV = dict(BASE_ENV)


# --- lemma over the one-step contract: monotonicity and the closed form ------------------------------------------
# One step for a continuously present key (from the reference model the bounded sweep checks run() against):
#   off' = off + (last if raw < last else 0);  out = raw + off'.
# Lemma (pure arithmetic, discharged by the solver): out' >= out for consecutive steps, and out = raw + sum of the
# values the raw counter had just before each decrease.

def lemma_setup(it, cfg):
    raw0, raw1, off0 = it.fresh("raw0", "Int"), it.fresh("raw1", "Int"), it.fresh("off0", "Int")
    it.assume(And(smt.Cmp(">=", raw0, I(0)), smt.Cmp(">=", raw1, I(0)), smt.Cmp(">=", off0, I(0))))
    return {"args": {"raw0": raw0, "raw1": raw1, "off0": off0}, "spec": {}, "values": [raw0, raw1, off0]}


# --- front end: nowrap=False returns raw values; distinct cache names -----------------------------------------

def table_names():
    """the two call sites and the two cache_clear partials use distinct literal names"""
    import os
    src = open(os.path.join(os.environ.get("VERIF_REPO", "/repo"), "psutil/__init__.py")).read()
    tree = ast.parse(src)
    calls, partials = {}, {}
    for fn in ast.walk(tree):
        if isinstance(fn, ast.FunctionDef) and fn.name in ("disk_io_counters", "net_io_counters"):
            for n in ast.walk(fn):
                if isinstance(n, ast.Call) and ast.unparse(n.func) == "_wrap_numbers" and len(n.args) == 2 \
                        and isinstance(n.args[1], ast.Constant):
                    calls[fn.name] = n.args[1].value
    for st in tree.body:
        if isinstance(st, ast.Assign) and isinstance(st.targets[0], ast.Attribute) and st.targets[0].attr == "cache_clear" \
                and isinstance(st.value, ast.Call) and ast.unparse(st.value.func) == "functools.partial":
            partials[ast.unparse(st.targets[0].value)] = st.value.args[1].value if isinstance(st.value.args[1], ast.Constant) else None
    out = [("both functions pass a literal cache name to _wrap_numbers", len(calls) == 2, str(calls)),
           ("the two cache names differ", len(set(calls.values())) == 2, str(calls)),
           ("each cache_clear partial clears its own function's name",
            partials == calls, f"{partials} vs {calls}")]
    return out


def table_lock_ownership():
    """every access to cache/reminders/reminder_keys happens inside `with self.lock` / `with _wn.lock`, either in the
    method itself or in its only callers"""
    import os
    src = open(os.path.join(os.environ.get("VERIF_REPO", "/repo"), "psutil/_common.py")).read()
    tree = ast.parse(src)
    cls = [n for n in tree.body if isinstance(n, ast.ClassDef) and n.name == "_WrapNumbers"][0]
    locked_methods, touching = set(), set()
    # THE lock: the one attribute __init__ binds to a threading.Lock()/RLock(); a second lock object (per-name locks, a
    # lock created per call) does not exclude the holders of the first one
    lock_attrs = []
    for m in cls.body:
        if isinstance(m, ast.FunctionDef) and m.name == "__init__":
            for a in ast.walk(m):
                if isinstance(a, ast.Assign) and isinstance(a.value, ast.Call) and \
                        ast.unparse(a.value.func).split(".")[-1] in ("Lock", "RLock") and not a.value.args:
                    lock_attrs += [t.attr for t in a.targets if isinstance(t, ast.Attribute)]

    # the module-level singleton: `<name> = _WrapNumbers()` (whatever it is called)
    singletons = {t.id for st_ in tree.body if isinstance(st_, ast.Assign) and isinstance(st_.value, ast.Call)
                  and isinstance(st_.value.func, ast.Name) and st_.value.func.id == "_WrapNumbers"
                  for t in st_.targets if isinstance(t, ast.Name)}

    def is_the_lock(expr):
        return len(lock_attrs) == 1 and len(singletons) == 1 and isinstance(expr, ast.Attribute) and \
            expr.attr == lock_attrs[0] and isinstance(expr.value, ast.Name) and expr.value.id in ({"self"} | singletons)

    def holds_lock(body):
        """the whole body runs under THE lock: `with <lock>: ...`, or `[alias = <lock>;] X.acquire(); try: ... finally:
        X.release()` with X the lock or that alias"""
        body = [s_ for s_ in body if not (isinstance(s_, ast.Expr) and isinstance(s_.value, ast.Constant))]
        if len(body) == 1 and isinstance(body[0], ast.With) and len(body[0].items) == 1:
            return is_the_lock(body[0].items[0].context_expr)
        alias = None
        if body and isinstance(body[0], ast.Assign) and len(body[0].targets) == 1 and isinstance(body[0].targets[0], ast.Name) \
                and is_the_lock(body[0].value):
            alias, body = body[0].targets[0].id, body[1:]

        def same(e):
            return is_the_lock(e) or (alias is not None and isinstance(e, ast.Name) and e.id == alias)

        def call_on_lock(st, meth):
            return isinstance(st, ast.Expr) and isinstance(st.value, ast.Call) and isinstance(st.value.func, ast.Attribute) \
                and st.value.func.attr == meth and same(st.value.func.value) and not st.value.args and not st.value.keywords
        return len(body) == 2 and call_on_lock(body[0], "acquire") and isinstance(body[1], ast.Try) and \
            len(body[1].finalbody) == 1 and call_on_lock(body[1].finalbody[0], "release") and \
            not any(isinstance(n, ast.Name) and n.id == alias and isinstance(n.ctx, ast.Store)
                    for n in ast.walk(body[1])) if body else False
    for m in cls.body:
        if not isinstance(m, ast.FunctionDef):
            continue
        touches = any(isinstance(n, ast.Attribute) and n.attr in ("cache", "reminders", "reminder_keys") for n in ast.walk(m))
        if touches and m.name != "__init__":
            touching.add(m.name)
        if holds_lock(m.body):
            locked_methods.add(m.name)
    # unlocked methods must only be reachable through locked code
    callers = {}
    for n in ast.walk(tree):
        if isinstance(n, ast.FunctionDef):
            for c in ast.walk(n):
                if isinstance(c, ast.Call) and isinstance(c.func, ast.Attribute) and c.func.attr in touching:
                    callers.setdefault(c.func.attr, set()).add(n.name)
    wn = [n for n in tree.body if isinstance(n, ast.FunctionDef) and n.name == "wrap_numbers"][0]
    wn_locked = holds_lock(wn.body)
    out = [("_WrapNumbers.__init__ creates exactly one lock object", len(lock_attrs) == 1, str(lock_attrs))]
    for m in sorted(touching):
        if m in locked_methods:
            out.append((f"_WrapNumbers.{m} holds the lock for its whole body", True, ""))
            continue
        cs = callers.get(m, set())
        ok = bool(cs) and all(c in ("run", "wrap_numbers") or c in locked_methods for c in cs) and wn_locked
        out.append((f"_WrapNumbers.{m} is only reached under the lock (callers: {sorted(cs)})", ok,
                    "" if ok else "unlocked access path"))
    out.append(("wrap_numbers() calls run() inside `with _wn.lock`", wn_locked, ""))
    return out


TABLES = [table_names, table_lock_ownership]

# --- the algorithm: one call of _WrapNumbers.run from ANY well-formed state ---------------------------------------------
# The real method is executed symbolically on a state whose SHAPE is concrete (which keys are cached / in the new snapshot,
# which (key, i) offsets are stored and indexed: replay/c10shape.py) and whose VALUES are unconstrained non-negative
# integers.  The entry state is any state satisfying the representation invariant, not one reached by a particular history:
# the postcondition re-establishes the invariant, so the clauses hold after every call of every history (induction on the
# history length, unbounded), for all counter values (unbounded); the number of keys and the tuple width are bounded by
# the shape table and that bound is reported.
import os as _os
from replay import c10shape as _sh
from vc.interp import Unsupported as _Unsupported


def _t(v):
    return v if is_t(v) else I(int(v))


def _eq(a, b):
    if not is_t(a) and not is_t(b):
        return B(a == b)
    return Eq(_t(a), _t(b))


def setup_step(it, cfg):
    shape = cfg["shape"]
    vals = []

    def val(n):
        v = it.fresh(n, "Int")
        it.assume(smt.Cmp(">=", v, I(1 if n.startswith("m_") else 0)))     # an indexed offset is a sum of values that were
        vals.append(v)                                                       # above a non-negative successor: >= 1
        return v
    st = _sh.build(shape, val)
    mod = ModuleSrc.get(COMMON_PY)
    from .frontproc import Lock
    o = Obj("_WrapNumbers", {"lock": Lock(), "cache": st["cache"], "reminders": st["reminders"],
                             "reminder_keys": st["reminder_keys"]}, module=mod)
    # entry copies for the frame clauses (the interpreter mutates the containers in place)
    entry_other = {a: (dict(st[a][_sh.OTHER]) if a != "reminder_keys" else {k: set(v) for k, v in st[a][_sh.OTHER].items()})
                   for a in ("cache", "reminders", "reminder_keys")}
    return {"args": {"self": o, "input_dict": st["input"], "name": _sh.NAME},
            "spec": {"st": st, "entry_other": entry_other, "entry_input": dict(st["input"])}, "values": vals}


def _state(env):
    """the three maps of the post-state for NAME, or Unsupported when the representation is no longer the one the anchors
    describe (then the step contract cannot speak about it: undecided, never a violation)"""
    o = env["self"]
    try:
        c, r, k = o.attrs["cache"], o.attrs["reminders"], o.attrs["reminder_keys"]
        if not (isinstance(c, dict) and isinstance(r, dict) and isinstance(k, dict)):
            raise KeyError
    except KeyError:
        raise _Unsupported("_WrapNumbers no longer keeps cache/reminders/reminder_keys dicts")
    return c, r, k


def _off_post(env, key, i):
    c, r, k = _state(env)
    if _sh.NAME not in r:
        return 0
    d = r[_sh.NAME]
    return d[(key, i)] if (key, i) in d else 0


def p_keys(it, env):
    """the result has exactly the devices of the new snapshot"""
    res = env["result"]
    return B(isinstance(res, dict) and set(res) == set(env["entry_input"]))


def p_values(it, env):
    """out = raw + offset, the offset having grown by the previous raw value iff the counter went backwards; a device that
    was not in the previous snapshot (new, or back after disappearing) and the first call return the raw values"""
    st, res = env["st"], env["result"]
    cl = []
    for key, status, digits in st["keys"]:
        if status not in "bn":
            continue
        if key not in res or len(res[key]) != len(digits):
            return B(False)
        for i in range(len(digits)):
            raw = st["raw"][key][i]
            if status == "n" or st["first"]:
                cl.append(_eq(res[key][i], raw))
            else:
                old, off = st["old"][key][i], st["off"][(key, i)]
                cl.append(_eq(res[key][i], smt.Add(_t(raw), smt.Add(_t(off), Ite(smt.Cmp("<", raw, old), _t(old), I(0))))))
    return And(*cl) if cl else B(True)


def p_monotone(it, env):
    """never below what the previous call returned for this device (previous output = previous raw + offset at entry)"""
    st, res = env["st"], env["result"]
    cl = []
    for key, status, digits in st["keys"]:
        if status == "b" and not st["first"]:
            for i in range(len(digits)):
                cl.append(smt.Cmp(">=", _t(res[key][i]), smt.Add(_t(st["old"][key][i]), _t(st["off"][(key, i)]))))
    return And(*cl) if cl else B(True)


def p_offsets(it, env):
    """the stored offset of a device that stayed is the one the result used; every other device (gone, new, absent, first
    call) has offset 0 afterwards: it starts afresh"""
    st = env["st"]
    cl = []
    for key, status, digits in st["keys"]:
        for i in range(len(digits)):
            got = _off_post(env, key, i)
            if status == "b" and not st["first"]:
                raw, old, off = st["raw"][key][i], st["old"][key][i], st["off"][(key, i)]
                cl.append(_eq(got, smt.Add(_t(off), Ite(smt.Cmp("<", raw, old), _t(old), I(0)))))
            else:
                cl.append(_eq(got, 0))
    return And(*cl) if cl else B(True)


def p_cache(it, env):
    """the snapshot the next call compares against is this call's raw input"""
    c, r, k = _state(env)
    got = c.get(_sh.NAME)
    want = env["entry_input"]
    if not isinstance(got, dict) or set(got) != set(want):
        return B(False)
    cl = [_eq(a, b) for key in want for a, b in zip(got[key], want[key])]
    if any(len(got[key]) != len(want[key]) for key in want):
        return B(False)
    return And(*cl) if cl else B(True)


def p_invariant(it, env):
    """representation invariant re-established (the one the entry states are drawn from): every stored offset is either
    indexed under its device and >= 1, or 0; indexed devices are cached, their index entries exist and belong to them (what
    _remove_dead_reminders relies on), and a device with an indexed offset has an entry for every position"""
    c, r, k = _state(env)
    if not (_sh.NAME in c and _sh.NAME in r and _sh.NAME in k):
        return B(False)
    cn, rn, kn = c[_sh.NAME], r[_sh.NAME], k[_sh.NAME]
    cl = []
    for rk_, v in rn.items():
        if not (isinstance(rk_, tuple) and len(rk_) == 2):
            raise _Unsupported("reminders are no longer keyed by (key, i)")
        if rk_[0] in kn and rk_ in kn[rk_[0]]:
            cl.append(smt.Cmp(">=", _t(v), I(1)))
        else:
            cl.append(_eq(v, 0))
    for key, idx in kn.items():
        if key not in cn or not idx:
            return B(False)       # (the shape table has no empty index sets: none may be left behind either)
        for rk_ in idx:
            if rk_ not in rn or rk_[0] != key:
                return B(False)
        if idx and not all((key, i) in rn for i in range(len(cn[key]))):
            return B(False)       # an indexed offset only once every position of the device has its entry
    return And(*cl) if cl else B(True)


def p_frame(it, env):
    """the other function's history and the caller's input dict are untouched"""
    c, r, k = _state(env)
    eo = env["entry_other"]
    cl = []
    for a, m in (("cache", c), ("reminders", r), ("reminder_keys", k)):
        if _sh.OTHER not in m:
            return B(False)
        got, want = m[_sh.OTHER], eo[a]
        if set(got) != set(want):
            return B(False)
        for key in want:
            if a == "reminder_keys":
                if set(got[key]) != want[key]:
                    return B(False)
            elif a == "cache":
                cl += [_eq(x, y) for x, y in zip(got[key], want[key])]
            else:
                cl.append(_eq(got[key], want[key]))
    inp, want = env["input_dict"], env["entry_input"]
    if set(inp) != set(want):
        return B(False)
    for key in want:
        cl += [_eq(x, y) for x, y in zip(inp[key], want[key])]
    return And(*cl)


def c_never_wraps(it, env):
    """vacuity guard (must be REFUTED in every shape): 'the filter never adds anything' - for a shape with a device that
    stayed, its first counter comes back raw; otherwise an arbitrary input symbol is 0"""
    st, res = env["st"], env["result"]
    for key, status, digits in st["keys"]:
        if status == "b" and not st["first"] and digits and isinstance(res, dict) and key in res:
            return _eq(res[key][0], st["raw"][key][0])
    return _eq(env["entry_other"]["cache"]["k0"][0], 0)


STEP = Contract(
    "C10", COMMON_PY, "_WrapNumbers.run", name="_common._WrapNumbers.run (one step, any well-formed state)",
    setup=setup_step, env=ENV,
    configs=[{"shape": s_} for s_ in _sh.shapes(_os.environ.get("VERIF_TIER", "quick"))],
    ensures=[p_keys, p_values, p_monotone, p_offsets, p_cache, p_invariant, p_frame],
    raises={}, canaries=[c_never_wraps], replay="c10:step", max_paths=5000,
    note="inductive step: from every state satisfying the representation invariant (shape table: <= 3 devices x <= 3 "
         "fields, all reminder layouts), for all counter values, one call returns raw + offset, grows the offset by the "
         "previous raw value exactly at a decrease, forgets devices that are not in the snapshot, stores the snapshot, "
         "keeps the invariant and leaves the other name alone")
REGISTRY.add(STEP)

# --- cache_clear: forgets all history of the name (or of every name), nothing else ------------------------------------------

def setup_clear(it, cfg):
    su = setup_step(it, {"shape": cfg["shape"]})
    which = {"none": None, "own": _sh.NAME, "other": _sh.OTHER, "unknown": "psutil.never_called"}[cfg["which"]]
    return {"args": {"self": su["args"]["self"], "name": which},
            "spec": dict(su["spec"], which=which, had_name=not su["spec"]["st"]["first"]), "values": su["values"]}


def p_clear(it, env):
    """cache_clear() leaves no state at all; cache_clear(name) removes that name from all three maps and keeps the other
    names' entries as they were; an unknown name is not an error"""
    c, r, k = _state(env)
    which, st, eo = env["which"], env["st"], env["entry_other"]
    if which is None:
        return B(len(c) == 0 and len(r) == 0 and len(k) == 0)
    cl = []
    for a, m in (("cache", c), ("reminders", r), ("reminder_keys", k)):
        if which in m:
            return B(False)
        for nm in (_sh.NAME, _sh.OTHER):
            if nm == which or (nm == _sh.NAME and not env["had_name"]):
                continue
            if nm not in m:
                return B(False)
        if which != _sh.OTHER:
            got, want = m[_sh.OTHER], eo[a]
            if set(got) != set(want):
                return B(False)
            for key in want:
                if a == "reminder_keys":
                    if set(got[key]) != want[key]:
                        return B(False)
                elif a == "cache":
                    cl += [_eq(x, y) for x, y in zip(got[key], want[key])]
                else:
                    cl.append(_eq(got[key], want[key]))
        if which != _sh.NAME and env["had_name"] and m[_sh.NAME] is not st[a][_sh.NAME]:
            return B(False)       # the very same (untouched) per-name container
    return And(*cl) if cl else B(True)


CLEAR = Contract(
    "C10", COMMON_PY, "_WrapNumbers.cache_clear", setup=setup_clear, env=ENV,
    configs=[{"shape": s_, "which": w_} for s_ in ("b22-g21-n00", "first-2-1", "b1") for w_ in ("none", "own", "other", "unknown")],
    ensures=[p_clear, "result is None", "log == [('lock', 'acquire'), ('lock', 'release')]"], raises={}, canaries=[], replay="c10:clear",
    note="cache_clear() forgets every name, cache_clear(name) exactly that name (all three maps), unknown names are ignored")
REGISTRY.add(CLEAR)

# --- wrap_numbers(): the module-level entry the front ends call ------------------------------------------------------------

def setup_entry(it, cfg):
    from .frontproc import Lock
    token = Opaque("what run() returned")
    inp, nm = Opaque("input_dict"), it.fresh("name", "String")

    def run_stub(it2, input_dict, name):
        it2.ctx.log.append(("run", input_dict, name))
        return token
    wn = Obj("_WrapNumbers", {"lock": Lock(), "run": EnvFunc("run", run_stub)}, module=ModuleSrc.get(COMMON_PY))
    it.env_over["_wn"] = wn
    return {"args": {"input_dict": inp, "name": nm}, "spec": {"token": token, "inp": inp, "nm": nm}, "values": [nm]}


def p_entry(it, env):
    """exactly one run(input_dict, name) on the singleton, inside acquire/release of its lock, its result returned"""
    log = env["log"]
    ok = len(log) == 3 and log[0] == ("lock", "acquire") and log[2] == ("lock", "release") and log[1][0] == "run" \
        and log[1][1] is env["inp"] and log[1][2] is env["nm"] and env["result"] is env["token"]
    return B(bool(ok))


ENTRY = Contract("C10", COMMON_PY, "wrap_numbers", setup=setup_entry, env=ENV, ensures=[p_entry], raises={}, canaries=[],
                 replay="c10:entry", note="wrap_numbers(d, name) is _wn.run(d, name) under _wn.lock: the link between the front-end "
                                   "contracts (which log the call of the filter) and the step contract of run()")
REGISTRY.add(ENTRY)

WN = Contract("C10", COMMON_PY, "_WrapNumbers.run", env=ENV,
              ensures=["per name and key: out = raw + offset, offset grows by the previous raw value at each decrease; a key "
                       "that disappears loses its offsets; first call and new keys return raw; other names untouched"],
              replay="c10:history", note="bounded: snapshot histories against a reference model")
BOUNDED_CONTRACTS = [WN]
BOUNDED = [bounded_sweep(WN, "c10:history", quick=3000, thorough=100000)]


# --- front end: when the filter is consulted and with what (same contracts as C09, registered here too) ---------------------
from . import C09 as _c09   # noqa: E402

for _kind, _qual in (("disk", "disk_io_counters"), ("net", "net_io_counters")):
    REGISTRY.add(Contract(
        "C10", INIT, _qual, setup=_c09.setup_front(_kind), env=ENV, configs=_c09.FRONT_CFGS,
        ensures=[
            # once, own cache name, raw per-device dict - an empty one too ("a device that disappears and later reappears
            # starts afresh": the history has to see the snapshot in which it was gone)
            "implies(nowrap, log == [('wrap', cache_name, True)])",
            "implies(not nowrap, len(log) == 0)",                                    # nowrap=False: raw values, filter not consulted
            "implies(k > 0 and not per, forall(range(width), lambda i: result[i] == sum([raw[d][i] for d in raw])))",
            "implies(k > 0 and per, set(result) == set(raw) and "
            "forall(list(raw), lambda d: forall(range(width), lambda i: result[d][i] == raw[d][i])))",
        ],
        raises={}, canaries=["result == 5"], replay=None,
        note="nowrap=True returns the filter's figures (consulted exactly once under this function's cache name), "
             "nowrap=False the raw ones, per device and in total"))
