"""C10 - nowrap=True counters never decrease while their device stays present."""
import ast

from .common import *  # noqa: F401,F403
from .common import Contract, Registry, LoopSpec, BASE_ENV, INIT, COMMON_PY, bounded_sweep

REGISTRY = Registry()
LEVEL = "exploration"      # the algorithm itself (_WrapNumbers.run) is not under a deductive contract: the evidence says so
TRUSTED = ["threading.Lock gives mutual exclusion"]
ASSUMPTIONS = ["all tuples of one key have one arity; counters are non-negative ints"]
NOT_COVERED = ["_WrapNumbers.run's nested dict/defaultdict/set state is outside the VC generator's container model: it is "
               "covered by a bounded enumeration of snapshot histories (two names, three devices, wraps, devices "
               "appearing/disappearing/reappearing, cache_clear at any point) against a reference model",
               "the scheduler (two threads): only lock ownership of every access is checked (table obligation)"]
ENV = dict(BASE_ENV)


# --- lemma over the one-step contract: monotonicity and the closed form ------------------------------------------
# One step for a continuously present key (from the reference model the bounded sweep checks run() against):
#   off' = off + (last if raw < last else 0);  out = raw + off'.
# Lemma (pure arithmetic, discharged by the solver): out' >= out for consecutive steps, and out = raw + sum of the
# values the raw counter had just before each decrease.

def lemma_setup(it, cfg):
    raw0, raw1, off0 = it.fresh("raw0", "Int"), it.fresh("raw1", "Int"), it.fresh("off0", "Int")
    it.assume(And(smt.Cmp(">=", raw0, I(0)), smt.Cmp(">=", raw1, I(0)), smt.Cmp(">=", off0, I(0))))
    return {"args": {"raw0": raw0, "raw1": raw1, "off0": off0}, "spec": {}, "values": [raw0, raw1, off0]}


# --- front end: nowrap=False returns raw values; distinct cache names -----------------------------------------

def table_names():
    """the two call sites and the two cache_clear partials use distinct literal names"""
    import os
    src = open(os.path.join(os.environ.get("VERIF_REPO", "/repo"), "psutil/__init__.py")).read()
    tree = ast.parse(src)
    calls, partials = {}, {}
    for fn in ast.walk(tree):
        if isinstance(fn, ast.FunctionDef) and fn.name in ("disk_io_counters", "net_io_counters"):
            for n in ast.walk(fn):
                if isinstance(n, ast.Call) and ast.unparse(n.func) == "_wrap_numbers" and len(n.args) == 2 \
                        and isinstance(n.args[1], ast.Constant):
                    calls[fn.name] = n.args[1].value
    for st in tree.body:
        if isinstance(st, ast.Assign) and isinstance(st.targets[0], ast.Attribute) and st.targets[0].attr == "cache_clear" \
                and isinstance(st.value, ast.Call) and ast.unparse(st.value.func) == "functools.partial":
            partials[ast.unparse(st.targets[0].value)] = st.value.args[1].value if isinstance(st.value.args[1], ast.Constant) else None
    out = [("both functions pass a literal cache name to _wrap_numbers", len(calls) == 2, str(calls)),
           ("the two cache names differ", len(set(calls.values())) == 2, str(calls)),
           ("each cache_clear partial clears its own function's name",
            partials == calls, f"{partials} vs {calls}")]
    return out


def table_lock_ownership():
    """every access to cache/reminders/reminder_keys happens inside `with self.lock` / `with _wn.lock`, either in the
    method itself or in its only callers"""
    import os
    src = open(os.path.join(os.environ.get("VERIF_REPO", "/repo"), "psutil/_common.py")).read()
    tree = ast.parse(src)
    cls = [n for n in tree.body if isinstance(n, ast.ClassDef) and n.name == "_WrapNumbers"][0]
    locked_methods, touching = set(), set()
    # THE lock: the one attribute __init__ binds to a threading.Lock()/RLock(); a second lock object (per-name locks, a
    # lock created per call) does not exclude the holders of the first one
    lock_attrs = []
    for m in cls.body:
        if isinstance(m, ast.FunctionDef) and m.name == "__init__":
            for a in ast.walk(m):
                if isinstance(a, ast.Assign) and isinstance(a.value, ast.Call) and \
                        ast.unparse(a.value.func).split(".")[-1] in ("Lock", "RLock") and not a.value.args:
                    lock_attrs += [t.attr for t in a.targets if isinstance(t, ast.Attribute)]

    # the module-level singleton: `<name> = _WrapNumbers()` (whatever it is called)
    singletons = {t.id for st_ in tree.body if isinstance(st_, ast.Assign) and isinstance(st_.value, ast.Call)
                  and isinstance(st_.value.func, ast.Name) and st_.value.func.id == "_WrapNumbers"
                  for t in st_.targets if isinstance(t, ast.Name)}

    def is_the_lock(expr):
        return len(lock_attrs) == 1 and len(singletons) == 1 and isinstance(expr, ast.Attribute) and \
            expr.attr == lock_attrs[0] and isinstance(expr.value, ast.Name) and expr.value.id in ({"self"} | singletons)

    def holds_lock(body):
        """the whole body runs under THE lock: `with <lock>: ...`, or `[alias = <lock>;] X.acquire(); try: ... finally:
        X.release()` with X the lock or that alias"""
        body = [s_ for s_ in body if not (isinstance(s_, ast.Expr) and isinstance(s_.value, ast.Constant))]
        if len(body) == 1 and isinstance(body[0], ast.With) and len(body[0].items) == 1:
            return is_the_lock(body[0].items[0].context_expr)
        alias = None
        if body and isinstance(body[0], ast.Assign) and len(body[0].targets) == 1 and isinstance(body[0].targets[0], ast.Name) \
                and is_the_lock(body[0].value):
            alias, body = body[0].targets[0].id, body[1:]

        def same(e):
            return is_the_lock(e) or (alias is not None and isinstance(e, ast.Name) and e.id == alias)

        def call_on_lock(st, meth):
            return isinstance(st, ast.Expr) and isinstance(st.value, ast.Call) and isinstance(st.value.func, ast.Attribute) \
                and st.value.func.attr == meth and same(st.value.func.value) and not st.value.args and not st.value.keywords
        return len(body) == 2 and call_on_lock(body[0], "acquire") and isinstance(body[1], ast.Try) and \
            len(body[1].finalbody) == 1 and call_on_lock(body[1].finalbody[0], "release") and \
            not any(isinstance(n, ast.Name) and n.id == alias and isinstance(n.ctx, ast.Store)
                    for n in ast.walk(body[1])) if body else False
    for m in cls.body:
        if not isinstance(m, ast.FunctionDef):
            continue
        touches = any(isinstance(n, ast.Attribute) and n.attr in ("cache", "reminders", "reminder_keys") for n in ast.walk(m))
        if touches and m.name != "__init__":
            touching.add(m.name)
        if holds_lock(m.body):
            locked_methods.add(m.name)
    # unlocked methods must only be reachable through locked code
    callers = {}
    for n in ast.walk(tree):
        if isinstance(n, ast.FunctionDef):
            for c in ast.walk(n):
                if isinstance(c, ast.Call) and isinstance(c.func, ast.Attribute) and c.func.attr in touching:
                    callers.setdefault(c.func.attr, set()).add(n.name)
    wn = [n for n in tree.body if isinstance(n, ast.FunctionDef) and n.name == "wrap_numbers"][0]
    wn_locked = holds_lock(wn.body)
    out = [("_WrapNumbers.__init__ creates exactly one lock object", len(lock_attrs) == 1, str(lock_attrs))]
    for m in sorted(touching):
        if m in locked_methods:
            out.append((f"_WrapNumbers.{m} holds the lock for its whole body", True, ""))
            continue
        cs = callers.get(m, set())
        ok = bool(cs) and all(c in ("run", "wrap_numbers") or c in locked_methods for c in cs) and wn_locked
        out.append((f"_WrapNumbers.{m} is only reached under the lock (callers: {sorted(cs)})", ok,
                    "" if ok else "unlocked access path"))
    out.append(("wrap_numbers() calls run() inside `with _wn.lock`", wn_locked, ""))
    return out


TABLES = [table_names, table_lock_ownership]

WN = Contract("C10", COMMON_PY, "_WrapNumbers.run", env=ENV,
              ensures=["per name and key: out = raw + offset, offset grows by the previous raw value at each decrease; a key "
                       "that disappears loses its offsets; first call and new keys return raw; other names untouched"],
              replay="c10:history", note="bounded: snapshot histories against a reference model")
BOUNDED_CONTRACTS = [WN]
BOUNDED = [bounded_sweep(WN, "c10:history", quick=3000, thorough=100000)]


# --- front end: when the filter is consulted and with what (same contracts as C09, registered here too) ---------------------
from . import C09 as _c09   # noqa: E402

for _kind, _qual in (("disk", "disk_io_counters"), ("net", "net_io_counters")):
    REGISTRY.add(Contract(
        "C10", INIT, _qual, setup=_c09.setup_front(_kind), env=ENV, configs=_c09.FRONT_CFGS,
        ensures=[
            # once, own cache name, raw per-device dict - an empty one too ("a device that disappears and later reappears
            # starts afresh": the history has to see the snapshot in which it was gone)
            "implies(nowrap, log == [('wrap', cache_name, True)])",
            "implies(not nowrap, len(log) == 0)",                                    # nowrap=False: raw values, filter not consulted
            "implies(k > 0 and not per, forall(range(width), lambda i: result[i] == sum([raw[d][i] for d in raw])))",
            "implies(k > 0 and per, set(result) == set(raw) and "
            "forall(list(raw), lambda d: forall(range(width), lambda i: result[d][i] == raw[d][i])))",
        ],
        raises={}, canaries=["result == 5"], replay=None,
        note="nowrap=True returns the filter's figures (consulted exactly once under this function's cache name), "
             "nowrap=False the raw ones, per device and in total"))
