"""C06 - per-process kernel facts are exact, whatever bytes the process name contains."""
from .common import *  # noqa: F401,F403
from .common import Contract, Registry, LoopSpec, BASE_ENV, LINUX_PY, POSIX_PY, named, bounded_sweep
from . import procenv
from .procenv import ProcEnv, linux_process, stat_record, parsed_stat, h_tok, h_intval, h_dec
from vc import lib

REGISTRY = Registry()
TRUSTED = ["library models: bytes.find/rfind (characterised), slicing, split() as an uninterpreted function that the "
           "record grammar is stated with, int()/float() of digit strings, dict.get",
           "environment model contracts/procenv.py (procfs oracle)"]
ASSUMPTIONS = [
    "stat record grammar (fs/proc/array.c): pid ' (' comm ') ' state ' ' fields...; comm is ANY 0..15 bytes; the "
    "text after ') ' holds no ')' and splits on whitespace into >= 37 tokens; numeric fields are decimal",
    "counters are proved over mathematical integers/reals (no float rounding)",
    "bytes.decode(ENCODING, surrogateescape) is an injective byte -> code point map (identity in the model)",
]
NOT_COVERED = ["float rounding of tick counts above 2^53"]

ENV = dict(BASE_ENV)

STATUS_DOC = {"R": "running", "S": "sleeping", "D": "disk-sleep", "T": "stopped", "t": "tracing-stop",
              "Z": "zombie", "X": "dead", "x": "dead", "K": "wake-kill", "W": "waking", "I": "idle", "P": "parked"}


def base_setup(it, cfg, min_fields=37):
    rec = stat_record(it, min_fields=min_fields)
    proc = linux_process(it)
    env = ProcEnv(it, files={"/stat": lambda it2, p: rec["data"]}).install()
    clk = it.fresh("CLOCK_TICKS", "Int")
    it.assume(smt.Cmp(">", clk, I(0)))
    it.env_over["_pslinux.CLOCK_TICKS"] = clk
    return rec, proc, clk


HELPERS = {"tok": h_tok, "intval": h_intval, "dec": h_dec}


# --- _parse_stat_file -----------------------------------------------------------

def setup_parse(it, cfg):
    rec, proc, clk = base_setup(it, cfg)
    return {"args": {"self": proc}, "spec": {"rec": rec, "F": rec["F"], "comm": rec["comm"]}}


def ret_parsed(it, env):
    rec = stat_record(it)
    d = parsed_stat(it, rec)
    F = rec["F"]
    if it.truth(smt.Cmp(">", smt.Len(F.seq), I(39)), "has-blkio"):
        v = smt.Nth(F.seq, I(39))
        d["blkio_ticks"] = T("String", v.sx, "bytes")
    else:
        d["blkio_ticks"] = 0
    return d


PARSE_ENSURES = ["result['name'] == comm"] + [
    f"result['{k}'] == F[{i}]" for k, i in procenv.STAT_KEYS.items() if k != "blkio_ticks"] + [
    "implies(len(F) > 39, result['blkio_ticks'] == F[39])",
    "implies(len(F) <= 39, result['blkio_ticks'] == 0)",
]

PSP = REGISTRY.add(Contract(
    "C06", LINUX_PY, "Process._parse_stat_file", setup=setup_parse, env=ENV, helpers=HELPERS, decorated=True,
    raises_any=True, ensures=PARSE_ENSURES, inline=["_is_zombie", "_raise_if_zombie"],
    canaries=["result['ppid'] == F[0]"],
    returns=ret_parsed, callee_ensures=[],
    raises={"NoSuchProcess": None, "ZombieProcess": None, "AccessDenied": None},
    replay="c06:stat", role="top",
    note="name = bytes between the first '(' and the LAST ')'; every field is the token at its documented index"))


# --- accessors built on the stat record ----------------------------------------------

def setup_acc(it, cfg):
    rec, proc, clk = base_setup(it, cfg)
    return {"args": {"self": proc}, "spec": {"rec": rec, "F": rec["F"], "comm": rec["comm"], "CLK": clk},
            "values": [clk]}


def acc(qual, ensures, canary, **kw):
    return REGISTRY.add(Contract(
        "C06", LINUX_PY, qual, setup=kw.pop("setup", setup_acc), env=ENV, helpers=dict(HELPERS, **kw.pop("helpers", {})),
        decorated=True, raises_any=True, ensures=ensures, canaries=[canary], replay=kw.pop("replay", "c06:stat"),
        inline=list(kw.pop("inline", [])) + ["_is_zombie", "_raise_if_zombie"], **kw))


# the zombie test every error translation relies on ("ZombieProcess for a zombie's empty one", C12; C03): the state letter is
# the character after the LAST ')' - for every comm, spaces and parentheses included
def setup_is_zombie(it, cfg):
    su = setup_acc(it, cfg)
    # kernel grammar (fs/proc/array.c): the state field is exactly one character
    rec = su["spec"]["rec"]
    it.assume(Eq(smt.Len(smt.Nth(rec["F"].seq, I(0))), I(1)))
    # ... printed right after ") " and followed by a space (do_task_stat: ") %c %d ..."): the first token of the text after
    # the closing parenthesis IS its first character
    it.assume(Eq(smt.Substr(rec["rest"], I(0), I(1)), smt.Nth(rec["F"].seq, I(0))))
    it.assume(Eq(smt.Substr(rec["rest"], I(1), I(1)), S(b" ")))
    return su


IS_Z = REGISTRY.add(Contract(
    "C06", LINUX_PY, "Process._is_zombie", setup=setup_is_zombie, env=ENV,
    helpers=dict(HELPERS, read_failed=lambda it: smt.Or(it.ctx.ghost.get("saw_gone", B(False)),
                                                    B(bool(it.ctx.ghost.get("saw_denied", False))))),
    ensures=["implies(result, F[0] == b'Z')",                     # never True for a process that is not a zombie
             "implies(F[0] == b'Z' and not read_failed(), result)"],  # (an unreadable stat file answers False)
    raises={}, canaries=["result == True"], replay="c06:stat",
    name="_pslinux.Process._is_zombie[stat]",
    note="True exactly when the state field of /proc/<pid>/stat is Z, whatever the command name contains"))

acc("Process.name", ["result == dec(comm)"], "result == dec(F[0])",
    inline=["decode"], note="the kernel's comm, byte for byte")
acc("Process.ppid", ["result == intval(F[1])"], "result == intval(F[4])")
acc("Process.cpu_num", ["result == intval(F[36])"], "result == intval(F[1])")
acc("Process.cpu_times", [
    "result.user * CLK == intval(F[11])",
    "result.system * CLK == intval(F[12])",
    "result.children_user * CLK == intval(F[13])",
    "result.children_system * CLK == intval(F[14])",
    "implies(len(F) > 39, result.iowait * CLK == intval(F[39]))",
    "implies(len(F) <= 39, result.iowait == 0)",
], "result.user * CLK == intval(F[12])", note="clock ticks divided by the system tick rate")

STATUS_ENS = [f"implies(F[0] == b'{k}', result == '{v}')" for k, v in STATUS_DOC.items()]
acc("Process.status", STATUS_ENS, "result == 'running'",
    note="state letter mapped to the documented STATUS_* constant")


# create_time: start time offset by boot time
def setup_ctime(it, cfg):
    rec, proc, clk = base_setup(it, cfg)
    bt_now = it.fresh("btime_now", "Real")
    it.assume(smt.Cmp(">", bt_now, R(0)))
    if cfg["cached"]:
        cached = it.fresh("BOOT_TIME", "Real")
        it.assume(smt.Cmp(">", cached, R(0)))
        it.env_over["_pslinux.BOOT_TIME"] = cached
        bt = cached
    else:
        it.env_over["_pslinux.BOOT_TIME"] = None
        bt = bt_now
    it.ctx.ghost["btime_now"] = bt_now
    return {"args": {"self": proc}, "spec": {"rec": rec, "F": rec["F"], "CLK": clk, "bt": bt}, "values": [clk, bt_now]}


BOOT = REGISTRY.add(Contract(
    "C06", LINUX_PY, "boot_time", callee_only=True,
    returns=lambda it, env: it.ctx.ghost["btime_now"], modifies=[],
    note="assumed here (verified under C19/C02): returns the kernel's btime"))

acc("Process.create_time", ["(result - bt) * CLK == intval(F[19])"], "result == bt", setup=setup_ctime,
    configs=[{"cached": True}, {"cached": False}], note="start ticks / tick rate + boot time")


# terminal: tty number mapped to its device path
def setup_term(it, cfg):
    rec, proc, clk = base_setup(it, cfg)
    tmap = make_value(it, "tmap", ("Map", "Int", "Str"))
    it.ctx.ghost["tmap"] = tmap
    # device-number arithmetic is opaque here: the tty_nr field IS the key of the map (recomposing it through
    # os.major/os.minor/os.makedev is not known to give the same number: the kernel keeps minor bits above bit 19)
    for fn, ar in (("makedev", 2), ("major", 1), ("minor", 1)):
        it.ctx.uf(f"py_{fn}", ["Int"] * ar, "Int")
        it.env_over[f"os.{fn}"] = EnvFunc(fn, (lambda name: lambda it2, *a: smt.app(f"py_{name}", "Int", *[it2.term(x) for x in a]))(fn))
    return {"args": {"self": proc}, "spec": {"rec": rec, "F": rec["F"], "tmap": tmap}}


REGISTRY.add(Contract("C06", POSIX_PY, "get_terminal_map", callee_only=True,
                      returns=lambda it, env: it.ctx.ghost["tmap"],
                      note="assumed: device number -> path of every /dev/tty*, /dev/pts/* (environment bound)"))

acc("Process.terminal", [
    "implies(intval(F[4]) in tmap, result == tmap[intval(F[4])])",
    "implies(not (intval(F[4]) in tmap), result is None)",
], "result is None", setup=setup_term, note="tty number mapped to its device path, None when there is none")


# --- accessors built on the status record --------------------------------------------------
from .procenv import status_record  # noqa: E402


def setup_status(it, cfg):
    rec = status_record(it, vmax=cfg.get("vmax", 60))
    proc = linux_process(it)
    ProcEnv(it, files={"/status": lambda it2, p: rec["data"]}).install()
    return {"args": {"self": proc}, "spec": {"rec": rec}}


REGISTRY.add(Contract(
    "C06", LINUX_PY, "Process._read_status_file", callee_only=True,
    returns=lambda it, env: status_record(it, vmax=it.cfg.get("vmax", 60))["data"],
    raises={"NoSuchProcess": None, "ZombieProcess": None, "AccessDenied": None},
    note="assumed for the accessors below: returns the status file content (a plain read through wrap_exceptions)"))


def sacc(qual, ensures, canary, **kw):
    return REGISTRY.add(Contract(
        "C06", LINUX_PY, qual, setup=setup_status, env=ENV, helpers=HELPERS, decorated=True, raises_any=True,
        ensures=ensures, canaries=[canary], replay="c06:status",
        inline=["_is_zombie", "_raise_if_zombie"], **kw))


sacc("Process.uids", ["result.real == intval(rec['ur'])", "result.effective == intval(rec['ue'])",
                      "result.saved == intval(rec['us'])"], "result.real == intval(rec['ue'])",
     note="the Uid: line, whatever the Name: line contains")
sacc("Process.gids", ["result.real == intval(rec['gr'])", "result.effective == intval(rec['ge'])",
                      "result.saved == intval(rec['gs'])"], "result.real == intval(rec['ge'])")
sacc("Process.num_threads", ["result == intval(rec['nthr'])"], "result == intval(rec['vol'])")
# --- threads(): proof for arbitrary record content, thread lists of length <= 1 (the body carries no state but the
#     hit_enoent flag between iterations); longer lists: bounded sweep below ------------------------------------------
TIDS = ["101", "205"]


def setup_threads(it, cfg):
    n = cfg["n"]
    proc = linux_process(it)
    tids = TIDS[:n]
    files = {}
    recs = []
    it.ctx.uf("py_strip", ["String"], "String")
    it.ctx.uf("py_split", ["String", "String"], ("Seq", "String"))
    for k, tid in enumerate(tids):
        rec = stat_record(it, prefix=f"t{k}")
        # the record as threads() reads it: no surrounding whitespace once stripped, single spaces between fields
        if not hasattr(it.ctx, "known_stripped"):
            it.ctx.known_stripped = set()
        it.ctx.known_stripped.add(rec["data"].sx)
        it.assume(Eq(smt.app("py_split", ("Seq", "String"), rec["rest"], S(b" ")), rec["F"].seq))
        files[f"/task/{tid}/stat"] = (lambda it2, p, rec=rec: rec["data"])
        recs.append(rec)
    main = stat_record(it, prefix="st")
    files["/task"] = lambda it2, p: list(tids)
    files["/stat"] = lambda it2, p: main["data"]
    ProcEnv(it, files=files).install()
    # CLOCK_TICKS = 100 here (the usual USER_HZ): with a symbolic tick rate these string-heavy obligations also become
    # nonlinear and the solvers' answers start to depend on machine load; division by an arbitrary tick rate is proved
    # in Process.cpu_times above
    clk = 100
    it.env_over["_pslinux.CLOCK_TICKS"] = clk
    return {"args": {"self": proc}, "spec": {"recs": recs, "CLK": clk, "n": n, "TID": [int(t) for t in tids]}}


def h_oks(it, log):
    """indices of the threads whose stat file was read successfully, in order"""
    out = []
    for e in log:
        if e[0] == "access" and e[1].startswith("open:") and "/task/" in e[1] and e[3] == "ok":
            tid = e[1].split("/task/")[1].split("/")[0]
            out.append(TIDS.index(tid))
    return out


REGISTRY.add(Contract(
    "C06", LINUX_PY, "Process.threads", name="_pslinux.Process.threads(<=1 thread, any content)", setup=setup_threads,
    env=ENV, configs=[{"n": 0}, {"n": 1}], helpers=dict(HELPERS, oks=h_oks), decorated=True, raises_any=True,
    inline=["_is_zombie", "_raise_if_zombie", "_raise_if_not_alive"],
    ensures=[
        "len(result) == len(oks(log))",                                  # one entry per thread that could be read
        "forall(range(len(result)), lambda j: result[j].id == TID[oks(log)[j]])",
        "forall(range(len(result)), lambda j: result[j].user_time * CLK == intval(tok(recs[oks(log)[j]], 11)))",
        "forall(range(len(result)), lambda j: result[j].system_time * CLK == intval(tok(recs[oks(log)[j]], 12)))",
    ],
    canaries=["len(result) == 7"], replay="c06:threads",
    note="per thread: (tid, utime/CLK, stime/CLK) of its own record, fields counted after the LAST ')' whatever the "
         "thread name contains; a thread that vanished is skipped"))

# num_ctx_switches: the un-anchored pattern 'ctxt_switches:\\t(\\d+)' (two matches, anywhere in a line) needs
# nested quantifiers that neither solver decides; bounded stand-in instead (labelled bounded).
NCS = Contract(
    "C06", LINUX_PY, "Process.num_ctx_switches", setup=setup_status, env=ENV, helpers=HELPERS, decorated=True,
    raises_any=True, ensures=["result.voluntary == intval(rec['vol'])", "result.involuntary == intval(rec['nonvol'])"],
    replay="c06:status", note="bounded: un-anchored two-match regex")
THR = Contract(
    "C06", LINUX_PY, "Process.threads", env=ENV, decorated=True, raises_any=True,
    ensures=["result == [(tid, utime/CLK, stime/CLK) of each thread's own record, fields taken after the LAST ')']"],
    replay="c06:threads", note="bounded: per-thread loop with volatile opens; differential oracle")
BOUNDED_CONTRACTS = [NCS, THR]
BOUNDED = [bounded_sweep(NCS, "c06:status", quick=200, thorough=3000),
           bounded_sweep(THR, "c06:threads", quick=150, thorough=3000)]
NOT_COVERED.append("num_ctx_switches() is checked by a bounded sweep only; threads() is proved for <= 1 thread of "
                   "arbitrary content and swept (bounded) for longer lists")
