"""C01 - signals and setters never reach a recycled PID or a process group."""
import ast
import signal as _signal

from .common import *  # noqa: F401,F403
from .common import reused_set_name
from .common import Contract, Registry, LoopSpec, BASE_ENV, INIT, LINUX_PY, POSIX_PY
from .frontproc import make_process, process_ctor_contract, kill_env, setter_env, observe
from vc.interp import ModuleSrc, PS_EXC

REGISTRY = Registry()
TRUSTED = ["process-table oracle of contracts/frontproc.py (start time identifies a process; the original "
           "process never comes back once gone)",
           "os.kill / native setters act on whoever owns the PID at the instant of the call"]
ASSUMPTIONS = ["no PID recycling between the identity check and the system call of the same method invocation "
               "(inherent check-then-act window)",
               "Linux/POSIX branch of the front end (WINDOWS=False, OPENBSD=False)"]
NOT_COVERED = ["the check-then-act window inside one invocation", "Windows branches (# pragma: no cover)"]

ENV = dict(BASE_ENV)
INLINE = ["is_running", "_raise_if_pid_reused", "__eq__", "__ne__", "pid", "_send_signal"]
CTOR = REGISTRY.add(process_ctor_contract("C01"))


def h_verified(it):
    gh = it.ctx.ghost
    last = gh.get("last_obj_owner")
    if last is None or not is_t(last):
        return B(False)
    return Eq(last, gh["born"])


def h_kills(it, log):
    return [e for e in log if e[0] == "kill"]


def h_calls(it, log, name):
    return [e for e in log if e[0] == name]


HELPERS = {"verified": h_verified, "kills": h_kills, "calls": h_calls, "SIG": _signal}


def base(it, cfg, **kw):
    o = make_process(it, **kw)
    it.env_over["__init__." + reused_set_name()] = SymSet("Int", it.fresh("pids_reused", ("Array", "Int", "Bool")))
    it.env_over["os.kill"] = kill_env(it)
    it.ctx.ghost["pid"] = o.attrs["_pid"]
    it.ctx.ghost["last_obj_owner"] = None

    # os.kill precondition uses the observation made in *this* invocation
    real_kill = it.env_over["os.kill"].fn

    def kill(it2, pid, sig):
        it2.ctx.ghost["verified"] = h_verified(it2)
        return real_kill(it2, pid, sig)

    it.env_over["os.kill"] = EnvFunc("os.kill", kill)
    return o


# --- is_running ---------------------------------------------------------------------------------

def setup_is_running(it, cfg):
    o = base(it, cfg)
    return {"args": {"self": o}, "spec": {}}


REGISTRY.add(Contract(
    "C01", INIT, "Process.is_running", setup=setup_is_running, env=ENV, inline=["__eq__", "__ne__", "pid"],
    helpers=HELPERS,
    ensures=[
        "implies(result, verified())",                                   # True only for the very same process
        "implies(old(self._gone) or old(self._pid_reused), not result)",
        "implies(old(self._gone), self._gone)", "implies(old(self._pid_reused), self._pid_reused)",
        "implies(not result, self._gone or self._pid_reused)",          # a False answer is latched
    ],
    raises={}, canaries=["result"],
    replay=None, note="re-reads the identity of whoever owns the PID now; verdicts are sticky"))


# --- signals ---------------------------------------------------------------------------------------

def setup_sig(it, cfg):
    o = base(it, cfg)
    sig = it.fresh("sig", "Int")
    return {"args": {"self": o, "sig": sig}, "spec": {"sig": sig}, "values": [sig]}


RAISES = {"NoSuchProcess": ["exc.pid == self._pid"], "AccessDenied": ["exc.pid == self._pid"],
          "ValueError": ["self._pid == 0", "len(kills(log)) == 0"]}

REGISTRY.add(Contract(
    "C01", INIT, "Process._send_signal", setup=setup_sig, env=ENV, inline=INLINE, helpers=HELPERS,
    ensures=["len(kills(log)) == 1", "kills(log)[0][1] == self._pid", "kills(log)[0][2] == sig"],
    raises=dict(RAISES, AssertionError=None),
    canaries=["len(kills(log)) == 0"], replay="c01:history",
    note="delivered => identity verified in this invocation, exact pid (> 0), exact signal"))

for meth, signame in (("suspend", "SIGSTOP"), ("resume", "SIGCONT"), ("terminate", "SIGTERM"), ("kill", "SIGKILL")):
    REGISTRY.add(Contract(
        "C01", INIT, f"Process.{meth}", setup=lambda it, cfg: {"args": {"self": base(it, cfg)}, "spec": {}},
        env=ENV, inline=INLINE, helpers=HELPERS,
        ensures=["len(kills(log)) == 1", "kills(log)[0][1] == self._pid", f"kills(log)[0][2] == SIG.{signame}"],
        raises=dict(RAISES, AssertionError=None), canaries=["len(kills(log)) == 0"], replay="c01:history",
        note=f"{meth}() sends exactly {signame} to exactly the object's pid"))

REGISTRY.add(Contract(
    "C01", INIT, "Process.send_signal", setup=setup_sig, env=ENV, inline=INLINE, helpers=HELPERS,
    ensures=["len(kills(log)) == 1", "kills(log)[0][1] == self._pid", "kills(log)[0][2] == sig"],
    raises=dict(RAISES, AssertionError=None), canaries=["len(kills(log)) == 0"], replay="c01:history"))


# --- setters -------------------------------------------------------------------------------------------

def setup_setter(which):
    def setup(it, cfg):
        o = base(it, cfg)
        inner = o.attrs["_proc"]
        for nm in ("nice_set", "ionice_set", "rlimit", "cpu_affinity_set", "nice_get", "ionice_get"):
            def mk(nm=nm):
                def f(it2, *args):
                    if nm.endswith("_set") or (nm == "rlimit" and len(args) > 1 and args[1] is not None):
                        it2.ctx.oblige(f"pre@{nm}:identity verified in this invocation", "pre", h_verified(it2),
                                       where=f"{nm} call site")
                    it2.ctx.log.append((nm,) + tuple(args))
                    c = it2.choose(3, f"{nm}:ok/NSP/AD")
                    if c == 1:
                        it2.raise_(PS_EXC["NoSuchProcess"][0], pid=o.attrs["_pid"])
                    if c == 2:
                        it2.raise_(PS_EXC["AccessDenied"][0], pid=o.attrs["_pid"])
                    return Opaque("native")
                return EnvFunc(nm, f)
            inner.attrs[nm] = mk()
        inner.attrs["_get_eligible_cpus"] = EnvFunc("elig", lambda it2: [0, 1])
        args = {"self": o}
        spec = {}
        if which == "nice":
            v = it.fresh("value", "Int")
            args["value"] = v
            spec["value"] = v
        elif which == "ionice":
            c, v = it.fresh("ioclass", "Int"), it.fresh("value", "Int")
            args.update(ioclass=c, value=v)
            spec.update(ioclass=c, value=v)
        elif which == "rlimit":
            r, s, h = it.fresh("resource", "Int"), it.fresh("soft", "Int"), it.fresh("hard", "Int")
            args.update(resource=r, limits=(s, h))
            spec.update(resource=r, limits=(s, h))
        elif which == "cpu_affinity":
            a, b = it.fresh("cpu_a", "Int"), it.fresh("cpu_b", "Int")
            it.assume(Not(Eq(a, b)))
            args["cpus"] = [a, b]
            spec.update(a=a, b=b)
        elif which == "cpu_affinity_empty":       # [] = "all eligible CPUs": a setting like any other
            args["cpus"] = []
        return {"args": args, "spec": spec}
    return setup


SET_RAISES = {"NoSuchProcess": ["exc.pid == self._pid"], "AccessDenied": ["exc.pid == self._pid"]}
REGISTRY.add(Contract("C01", INIT, "Process.nice", setup=setup_setter("nice"), env=ENV, inline=INLINE, helpers=HELPERS,
                      ensures=["calls(log, 'nice_set') == [('nice_set', value)]"], raises=SET_RAISES,
                      canaries=["len(calls(log, 'nice_set')) == 0"], replay="c01:history"))
REGISTRY.add(Contract("C01", INIT, "Process.ionice", setup=setup_setter("ionice"), env=ENV, inline=INLINE,
                      helpers=HELPERS, which=0,
                      ensures=["calls(log, 'ionice_set') == [('ionice_set', ioclass, value)]"], raises=SET_RAISES,
                      canaries=["len(calls(log, 'ionice_set')) == 0"], replay="c01:history"))
REGISTRY.add(Contract("C01", INIT, "Process.rlimit", setup=setup_setter("rlimit"), env=ENV, inline=INLINE,
                      helpers=HELPERS,
                      ensures=["calls(log, 'rlimit') == [('rlimit', resource, limits)]"], raises=SET_RAISES,
                      canaries=["len(calls(log, 'rlimit')) == 0"], replay="c01:history"))
REGISTRY.add(Contract("C01", INIT, "Process.cpu_affinity", name="__init__.Process.cpu_affinity([])",
                      setup=setup_setter("cpu_affinity_empty"), env=ENV, inline=INLINE, helpers=HELPERS,
                      ensures=["len(calls(log, 'cpu_affinity_set')) == 1"], raises=SET_RAISES,
                      canaries=["len(calls(log, 'cpu_affinity_set')) == 0"], replay="c01:history",
                      note="the empty list (all eligible CPUs) is delivered only after the identity check, like any setting"))
REGISTRY.add(Contract("C01", INIT, "Process.cpu_affinity", setup=setup_setter("cpu_affinity"), env=ENV, inline=INLINE,
                      helpers=HELPERS,
                      ensures=["len(calls(log, 'cpu_affinity_set')) == 1",
                               "len(calls(log, 'cpu_affinity_set')[0][1]) == 2",
                               "a in calls(log, 'cpu_affinity_set')[0][1] and b in calls(log, 'cpu_affinity_set')[0][1]"],
                      raises=SET_RAISES, canaries=["len(calls(log, 'cpu_affinity_set')) == 0"], replay="c01:history"))


# --- _psposix.pid_exists / wait_pid argument guards --------------------------------------------------

def setup_pid_exists(it, cfg):
    pid = it.fresh("pid", "Int")
    it.env_over["os.kill"] = EnvFunc("os.kill", lambda it2, p, s: _posix_kill(it2, p, s))
    return {"args": {"pid": pid}, "spec": {}, "values": [pid]}


def _posix_kill(it, pid, sig):
    it.ctx.oblige("pre@os.kill:pid > 0 (never a process group)", "pre", smt.Cmp(">", it.term(pid), I(0)),
                  where="os.kill call site")
    it.ctx.oblige("pre@os.kill:signal 0 only", "pre", it.as_bool(it.lib.equal(it, sig, 0)), where="os.kill call site")
    it.ctx.log.append(("kill", pid, sig))
    c = it.choose(3, "os.kill:ok/ESRCH/EPERM")
    if c == 1:
        it.raise_(ProcessLookupError, errno=I(3))
    if c == 2:
        it.raise_(PermissionError, errno=I(1))


REGISTRY.add(Contract(
    "C01", POSIX_PY, "pid_exists", setup=setup_pid_exists, env=ENV,
    requires=["pid >= 0"],      # the front end (psutil.pid_exists) filters negative numbers: see C04
    ensures=["implies(pid == 0, result == True and len(log) == 0)"], raises={}, canaries=["result == True"],
    note="never signals PID 0 or a negative PID; probes with signal 0 only"))


# --- completeness scan (table): every os.kill / killpg / waitpid call site is under contract -----------

COVERED_SITES = {("psutil/__init__.py", "Process._send_signal"), ("psutil/_psposix.py", "pid_exists"),
                 ("psutil/_psposix.py", "wait_pid"),
                 # Windows: os.kill(pid, CTRL_*_EVENT) is GenerateConsoleCtrlEvent, not POSIX kill(2): there are
                 # no process-group semantics for pid <= 0; reached only through Process.send_signal (checked)
                 ("psutil/_pswindows.py", "Process.send_signal")}


def reached_only_from_covered(tree, rel, qual, depth=0):
    """a private helper that holds the call and is called only from functions under contract (the engine executes an
    uncontracted callee, so the contracts of its callers cover it)"""
    short = qual.split(".")[-1]
    if not short.startswith("_") or depth > 3:
        return False
    callers = set()

    def walk(n, q):
        for ch in ast.iter_child_nodes(n):
            qq = q
            if isinstance(ch, (ast.FunctionDef, ast.ClassDef)):
                qq = (q + "." if q else "") + ch.name
            if isinstance(ch, ast.Call) and ((isinstance(ch.func, ast.Attribute) and ch.func.attr == short) or
                                             (isinstance(ch.func, ast.Name) and ch.func.id == short)) and q != qual:
                callers.add(q)
            if isinstance(ch, (ast.Attribute, ast.Name)) and not isinstance(getattr(ch, "ctx", None), ast.Store):
                pass
            walk(ch, qq)
    walk(tree, "")
    return bool(callers) and all((rel, c) in COVERED_SITES or reached_only_from_covered(tree, rel, c, depth + 1) for c in callers)


def table_call_sites():
    import os
    out = []
    repo = os.environ.get("VERIF_REPO", "/repo")
    for fn in sorted(os.listdir(os.path.join(repo, "psutil"))):
        if not fn.endswith(".py"):
            continue
        rel = f"psutil/{fn}"
        tree = ast.parse(open(os.path.join(repo, rel)).read())
        stack = []

        def walk(n, qual):
            for ch in ast.iter_child_nodes(n):
                q = qual
                if isinstance(ch, (ast.FunctionDef, ast.ClassDef)):
                    q = (qual + "." if qual else "") + ch.name
                if isinstance(ch, ast.Call):
                    f = ast.unparse(ch.func)
                    if f in ("os.kill", "os.killpg", "os.waitpid", "signal.pthread_kill", "_waitpid"):
                        site = (rel, qual)
                        ok = site in COVERED_SITES or (f in ("os.waitpid", "_waitpid") and qual.startswith("wait_pid")) \
                            or reached_only_from_covered(tree, rel, qual)
                        out.append((f"call site {f} in {rel}:{qual} (line {ch.lineno}) is under contract", ok,
                                    "" if ok else "signal-delivering call site outside every contract", "coverage"))
                walk(ch, q)

        walk(tree, "")
    if not out:
        out.append(("at least one os.kill call site exists", False, "scan found none"))
    return out


TABLES = [table_call_sites]



def table_no_caching():
    """is_running(), the identity check, the signal senders and the setters must run their body on every call: a caching
    decorator (memoize_when_activated freezes the answer inside oneshot()) would let a recycled PID go unnoticed"""
    import ast as _ast
    import os as _os
    repo = _os.environ.get("VERIF_REPO", "/repo")
    tree = _ast.parse(open(_os.path.join(repo, INIT)).read())
    names = {"is_running", "_raise_if_pid_reused", "_send_signal", "send_signal", "suspend", "resume", "terminate", "kill",
             "nice", "ionice", "rlimit", "cpu_affinity", "_get_ident", "__eq__", "__hash__"}
    out = []
    for cls in [n for n in tree.body if isinstance(n, _ast.ClassDef) and n.name == "Process"]:
        for node in _ast.walk(cls):
            if isinstance(node, _ast.FunctionDef) and node.name in names:
                decs = [_ast.unparse(d) for d in node.decorator_list]
                caching = [d for d in decs if any(w in d.lower() for w in ("memo", "cache", "lru"))]
                out.append((f"Process.{node.name} is not wrapped by a caching decorator", not caching, f"decorators: {decs}"))
    return out


TABLES = list(globals().get("TABLES", [])) + [table_no_caching]


# --- the identity itself: (pid, start time since boot) at full kernel resolution ----------------------------------------
# "any number of recyclings": two owners of a PID are told apart by their start time, so that start time must be the
# kernel's value (clock ticks / tick rate), not a coarsened one.  Same contracts as C02, registered here as well.
from . import C02 as _c02   # noqa: E402
from . import C06 as _c06   # noqa: E402

REGISTRY.add(_c06.PSP)
REGISTRY.add(Contract("C01", LINUX_PY, "boot_time", callee_only=True,
                      returns=lambda it, env: it.ctx.ghost["btime_now"]))
REGISTRY.add(Contract(
    "C01", LINUX_PY, "Process.create_time", name="_pslinux.Process.create_time(identity)", setup=_c02.setup_ct, env=ENV,
    decorated=True, raises_any=True, helpers={"intval": _c02.h_intval}, inline=["_is_zombie", "_raise_if_zombie"],
    configs=[{"monotonic": True, "cached": c} for c in (True, False)],
    ensures=["result * CLK == intval(F[19])"], canaries=["result == bt"], replay=None,
    returns=lambda it, env: it.fresh("ct", "Real"),
    note="the identity's start time is exactly start ticks / tick rate (no rounding: PIDs recycled within the same "
         "second are still told apart)"))
REGISTRY.add(Contract(
    "C01", INIT, "Process._get_ident", setup=_c02.setup_ident, env=ENV, inline=["pid", "create_time"],
    ensures=["result == (self._pid, mono)"], raises={}, canaries=["result == (self._pid, epoch)"], replay=None,
    note="identity = (pid, start time since boot)"))
