"""C07 - CPU times and CPU percentages are exact shares of elapsed time."""
from .common import *  # noqa: F401,F403
from .common import (Contract, Registry, LoopSpec, BASE_ENV, INIT, LINUX_PY, scputimes_cls, fresh_nt, values_of,
                     SCPU_FIELDS)

REGISTRY = Registry()
ARITIES = [{"n": n} for n in (7, 8, 9, 10)]

TRUSTED = ["float arithmetic treated as real arithmetic; round(x, 1) = fresh r with |r-x| <= 0.05, r a multiple "
           "of 0.1, monotone at the anchors 0 and 100"]
ASSUMPTIONS = ["IEEE-754 rounding is not modelled (statements proved over the reals)",
               "the kernel's cpu counter arity is one of 7, 8, 9, 10 (each verified separately)"]
NOT_COVERED = ["interleavings of several threads (no thread model): only the per-thread frame (writes touch the "
               "calling thread's key alone) is proved"]


def env_for(n):
    e = dict(BASE_ENV)
    e["_pslinux.scputimes"] = scputimes_cls(n)
    return e


# ---- spec functions (pure, over namedtuples of reals) ------------------------

def h_delta(it, t1, t2, k):
    return it.lib.py_max(it, 0, it.binop("Sub", t2[k], t1[k]))


def nonguest(n):
    return [k for k in range(n) if SCPU_FIELDS[k] not in ("guest", "guest_nice")]


def h_tot(it, t):
    """sum of all fields minus the guest fields (which are already in user/nice)"""
    acc = 0
    for k in nonguest(len(t)):
        acc = it.binop("Add", acc, t[k])
    return acc


def h_busy(it, t):
    acc = 0
    for k in nonguest(len(t)):
        if SCPU_FIELDS[k] not in ("idle", "iowait"):
            acc = it.binop("Add", acc, t[k])
    return acc


def h_deltas(it, t1, t2):
    return type(t1)(*[h_delta(it, t1, t2, k) for k in range(len(t1))])


HELPERS = {"delta": h_delta, "tot": h_tot, "busy": h_busy, "deltas": h_deltas, "nonguest": lambda it, n: nonguest(n)}


def setup_two(it, cfg):
    cls = scputimes_cls(cfg["n"])
    it.env_over["_pslinux.scputimes"] = cls
    t1 = fresh_nt(it, cls, "t1", nonneg=True)
    t2 = fresh_nt(it, cls, "t2", nonneg=True)
    return {"args": {"t1": t1, "t2": t2}, "spec": {"n": cfg["n"]}, "values": values_of(t1, t2)}


def setup_one(it, cfg):
    cls = scputimes_cls(cfg["n"])
    it.env_over["_pslinux.scputimes"] = cls
    t = fresh_nt(it, cls, "times", nonneg=True)
    return {"args": {"times": t}, "spec": {"n": cfg["n"]}, "values": values_of(t)}


def ret_real(it, env):
    return it.fresh("ret", "Real")


def ret_scpu(it, env):
    cls = it.env_over["_pslinux.scputimes"]
    return fresh_nt(it, cls, "ret")


REGISTRY.add(Contract(
    "C07", INIT, "_cpu_times_deltas", setup=setup_two, configs=ARITIES, env=BASE_ENV, helpers=HELPERS,
    ensures=["forall(range(len(t1)), lambda k: result[k] == max(0, t2[k] - t1[k]))",
             "len(result) == len(t1)"],
    canaries=["result[0] == t2[0] - t1[0]"],
    returns=ret_scpu, replay="c07:deltas", role="helper",
    note="a counter that went backwards contributes zero"))

REGISTRY.add(Contract(
    "C07", INIT, "_cpu_tot_time", setup=setup_one, configs=ARITIES, env=BASE_ENV, helpers=HELPERS,
    ensures=["result == tot(times)"],
    canaries=["result == sum(times)" if False else "result == tot(times) + times[0]"],
    returns=ret_real, role="helper",
    note="guest and guest_nice are not counted twice"))

REGISTRY.add(Contract(
    "C07", INIT, "_cpu_busy_time", setup=setup_one, configs=ARITIES, env=BASE_ENV, helpers=HELPERS,
    ensures=["result == busy(times)"],
    canaries=["result == tot(times)"],
    returns=ret_real, role="helper",
    note="idle and iowait are not busy"))


def setup_calc(it, cfg):
    su = setup_two(it, cfg)
    su["closure"] = {}
    return su


def calc_pct(it, t1, t2):
    """ghost: the value calculate(t1, t2) of cpu_percent() - a pure function of its two arguments (its own contract pins it
    down); callers are verified against this name, not against its body"""
    name = f"calc_pct_{len(t1)}"
    it.ctx.uf(name, ["Real"] * (2 * len(t1)), "Real")
    return smt.app(name, "Real", *[lift(x, "Real") for x in list(t1) + list(t2)])


def calc_shares(it, t1, t2):
    cls = it.env_over["_pslinux.scputimes"]
    out = []
    for k in range(len(t1)):
        name = f"calc_share_{len(t1)}_{k}"
        it.ctx.uf(name, ["Real"] * (2 * len(t1)), "Real")
        out.append(smt.app(name, "Real", *[lift(x, "Real") for x in list(t1) + list(t2)]))
    return cls(*out)


HELPERS = dict(HELPERS, calc_pct=calc_pct, calc_shares=calc_shares)


REGISTRY.add(Contract(
    "C07", INIT, "cpu_percent.<locals>.calculate", setup=setup_calc, configs=ARITIES, env=BASE_ENV, helpers=HELPERS,
    returns=lambda it, env: calc_pct(it, env["t1"], env["t2"]), callee_ensures=[],
    ensures=[
        "implies(tot(deltas(t1, t2)) == 0, result == 0.0)",
        # result = round1(100*busy/all): |result*all - 100*busy| <= 0.05*all
        "implies(tot(deltas(t1, t2)) > 0, abs(result * tot(deltas(t1, t2)) - 100 * busy(deltas(t1, t2))) <= 0.05 * tot(deltas(t1, t2)))",
        "0 <= result",
        "result <= 100",
    ],
    canaries=["result == 0.0"],
    replay="c07:cpu_percent_calculate",
    note="cpu_percent = 100*busy/total over the clamped deltas, within [0,100]"))


REGISTRY.add(Contract(
    "C07", INIT, "cpu_times_percent.<locals>.calculate", setup=setup_calc, configs=ARITIES, env=BASE_ENV,
    helpers=HELPERS, returns=lambda it, env: calc_shares(it, env["t1"], env["t2"]), callee_ensures=[],
    ensures=[
        "implies(tot(deltas(t1, t2)) == 0, forall(nonguest(n), lambda k: result[k] == 0.0))",
        "forall(range(n), lambda k: 0 <= result[k] and result[k] <= 100)",
        # per-field share: |result_k * all - 100 * delta_k| <= 0.05 * all  (delta_k <= all for non-guest fields)
        "implies(tot(deltas(t1, t2)) > 0, forall(nonguest(n), lambda k: "
        "abs(result[k] * tot(deltas(t1, t2)) - 100 * delta(t1, t2, k)) <= 0.05 * tot(deltas(t1, t2))))",
        # the non-guest shares add up to 100 (each rounded to one decimal)
        "implies(tot(deltas(t1, t2)) > 0, abs(sum([result[k] for k in nonguest(n)]) - 100) <= 0.05 * len(nonguest(n)))",
    ],
    canaries=["result[0] == 0.0"],
    replay="c07:cpu_times_percent_calculate",
    note="per-field shares within [0,100] adding up to 100 whenever any time elapsed, however short"))


# --- known-finding regions (predicates over the contract's input symbols) ----------------------------

def region_subsecond_total(cfg):
    n = int(cfg.split("=")[1])
    terms = []
    for k in nonguest(n):
        f = SCPU_FIELDS[k]
        d = f"(- t2_{f} t1_{f})"
        terms.append(f"(ite (> {d} 0.0) {d} 0.0)")
    total = "(+ " + " ".join(terms) + ")"
    return f"(and (> {total} 0.0) (< {total} 1.0))"


REGIONS = {"subsecond_total": region_subsecond_total}


# --- Process.cpu_percent ------------------------------------------------------------------------------
import collections as _collections  # noqa: E402
from .frontproc import make_process  # noqa: E402

pcputimes = _collections.namedtuple("pcputimes", ["user", "system", "children_user", "children_system", "iowait"])


def setup_pcpu(it, cfg):
    o = make_process(it)
    n = cfg["ncpu"]
    T1 = it.fresh("T1", "Real")
    T2a = it.fresh("T2a", "Real")       # timer readings of this call (non-decreasing)
    T2b = it.fresh("T2b", "Real")
    it.assume(And(smt.Cmp("<=", T1, T2a), smt.Cmp("<=", T2a, T2b), smt.Cmp(">=", T1, R(0))))
    pt_old = fresh_nt(it, pcputimes, "pt_old", nonneg=True)
    samples = [fresh_nt(it, pcputimes, "pt_a", nonneg=True), fresh_nt(it, pcputimes, "pt_b", nonneg=True)]
    reads = {"timer": 0, "cpu": 0}

    def timer(it2):
        reads["timer"] += 1
        return T2a if reads["timer"] == 1 else T2b

    def cpu_times(it2):
        reads["cpu"] += 1
        return samples[0] if reads["cpu"] == 1 else samples[1]

    it.env_over["__init__._timer"] = EnvFunc("_timer", timer)
    it.env_over["__init__.cpu_count"] = EnvFunc("cpu_count", lambda it2, *a, **k: (n if n else None))
    it.env_over["time.sleep"] = EnvFunc("sleep", lambda it2, d: it2.ctx.log.append(("sleep", d)))
    o.attrs["_proc"].attrs["cpu_times"] = EnvFunc("cpu_times", cpu_times)
    first = cfg["first"]
    if not first:
        o.attrs["_last_sys_cpu_times"] = smt.Mul(T1, R(n or 1))
        o.attrs["_last_proc_cpu_times"] = pt_old
    mode = cfg["mode"]
    if mode == "none":
        interval = None
    elif mode == "zero":
        interval = 0.0
    elif mode == "neg":
        interval = it.fresh("interval", "Real")
        it.assume(smt.Cmp("<", interval, R(0)))
    else:
        interval = it.fresh("interval", "Real")
        it.assume(smt.Cmp(">", interval, R(0)))
    return {"args": {"self": o, "interval": interval},
            "spec": {"T1": T1, "T2a": T2a, "T2b": T2b, "pt_old": pt_old, "pa": samples[0], "pb": samples[1],
                     "n": n or 1, "first": first, "mode": mode},
            "values": [T1, T2a, T2b]}


PCPU_CFGS = [{"ncpu": n, "first": f, "mode": m} for n in (1, 4, 0) for f in (True, False)
             for m in ("none", "zero", "block", "neg")]

REGISTRY.add(Contract(
    "C07", INIT, "Process.cpu_percent", setup=setup_pcpu, env=BASE_ENV, configs=PCPU_CFGS, inline=["timer"],
    ensures=[
        # first non-blocking call: 0.0
        "implies(mode in ('none', 'zero') and first, result == 0.0)",
        # non-blocking with a previous sample: 100 * cpu seconds used / wall seconds elapsed since the previous call
        "implies(mode in ('none', 'zero') and not first and T2a > T1, "
        "abs(result * (T2a - T1) - 100 * ((pa.user - pt_old.user) + (pa.system - pt_old.system))) <= 0.05 * (T2a - T1))",
        "implies(mode in ('none', 'zero') and not first and T2a == T1, result == 0.0)",
        # blocking: between the two samples taken around the sleep
        "implies(mode == 'block' and T2b > T2a, "
        "abs(result * (T2b - T2a) - 100 * ((pb.user - pa.user) + (pb.system - pa.system))) <= 0.05 * (T2b - T2a))",
        # every call leaves its last sample behind for the next non-blocking call
        "implies(mode in ('none', 'zero'), self._last_sys_cpu_times == T2a * n and self._last_proc_cpu_times == pa)",
        "implies(mode == 'block', self._last_sys_cpu_times == T2b * n and self._last_proc_cpu_times == pb)",
    ],
    raises={"ValueError": "mode == 'neg'"},
    canaries=["result == 7.25"], replay="c07:proc_cpu_percent",
    note="100*(CPU seconds used)/(wall seconds elapsed) since that object's previous call; 0.0 on the first call; "
         "negative interval -> ValueError"))


# --- /proc/stat decoding: bounded (labelled bounded, never counted as proved) ------------------------------------------------
from .common import bounded_sweep, LINUX_PY   # noqa: E402

PST = Contract("C07", LINUX_PY, "cpu_times", name="_pslinux.cpu_times / per_cpu_times (generated /proc/stat)", env=BASE_ENV,
               ensures=["every kernel CPU counter in seconds under its documented name, per CPU in kernel order, for 7-, 8-, "
                        "9-, 10-column (and wider) /proc/stat layouts"],
               replay="c07:proc_stat", note="bounded: generated /proc/stat files against an independent decoding")
BOUNDED_CONTRACTS = [PST]
BOUNDED = [bounded_sweep(PST, "c07:proc_stat", quick=150, thorough=3000)]
NOT_COVERED.append("the /proc/stat text decoding (cpu_times, per_cpu_times) is a bounded sweep over generated files, not proved")


# --- the system-wide front ends: "each calling thread is measured against its own previous sample" ---------------------------
# cpu_percent() / cpu_times_percent() keep one previous sample per calling thread in four module-level dicts.  Contract: a
# non-blocking call is measured from *this thread's* previous sample when it has one (else from a fresh one), a blocking
# call between the two samples around the sleep; the call leaves this thread's newest sample behind and does not touch any
# other thread's entry (frame).  The nested calculate() keeps its own contract above; here its result is tied to the pair of
# samples it must be given.
from vc.interp import Obj as _Obj  # noqa: E402

TID, OTHER_TIDS = 111, (222, 333)


def setup_front(fn_name, cache_names):
    def setup(it, cfg):
        n, percpu = cfg["n"], cfg["percpu"]
        cls = scputimes_cls(n)
        it.env_over["_pslinux.scputimes"] = cls
        ncpu = 2

        def sample(tag):
            if percpu:
                return [fresh_nt(it, cls, f"{tag}{c}", nonneg=True) for c in range(ncpu)]
            return fresh_nt(it, cls, tag, nonneg=True)

        prev, a, b = sample("prev"), sample("sa"), sample("sb")
        others = {t: sample(f"o{t}") for t in (OTHER_TIDS if cfg["others"] else ())}
        cache = dict(others)
        if cfg["has_prev"]:
            cache[TID] = prev
        idle = {t: sample(f"x{t}") for t in OTHER_TIDS}           # the dict of the other form (percpu or not): untouched
        mine, other = (cache_names[1], cache_names[0]) if percpu else cache_names
        it.env_over[f"__init__.{mine}"] = cache
        it.env_over[f"__init__.{other}"] = idle
        reads = {"n": 0}

        def cpu_times(it2, percpu=False):
            reads["n"] += 1
            return a if reads["n"] == 1 else b

        it.env_over["__init__.cpu_times"] = EnvFunc("cpu_times", cpu_times)
        it.env_over["time.sleep"] = EnvFunc("sleep", lambda it2, d: it2.ctx.log.append(("sleep", d)))
        it.env_over["threading.current_thread"] = EnvFunc(
            "current_thread", lambda it2: _Obj("Thread", {"ident": TID}))
        nthreads = it.fresh("nthreads", "Int")                      # whatever else the process is running
        it.assume(smt.Cmp(">=", nthreads, I(1)))
        it.env_over["threading.active_count"] = EnvFunc("active_count", lambda it2: nthreads)
        it.env_over["threading.get_ident"] = EnvFunc("get_ident", lambda it2: TID)
        mode = cfg["mode"]
        if mode == "none":
            interval = None
        elif mode == "zero":
            interval = 0.0
        elif mode == "neg":
            interval = it.fresh("interval", "Real")
            it.assume(smt.Cmp("<", interval, R(0)))
        else:
            interval = it.fresh("interval", "Real")
            it.assume(smt.Cmp(">", interval, R(0)))
        block = mode == "block"
        t1 = a if (block or not cfg["has_prev"]) else prev
        t2 = b if (block or not cfg["has_prev"]) else a
        return {"args": {"interval": interval, "percpu": percpu},
                "spec": {"cache": cache, "idle": idle, "idle0": dict(idle), "others": others, "t1": t1, "t2": t2,
                         "n": n, "mode": mode, "percpu": percpu, "TID": TID, "interval": interval,
                         "pairs": list(zip(t1, t2)) if percpu else [(t1, t2)]},
                "values": values_of(*(list(prev) + list(a) + list(b)) if not percpu else ())}
    return setup


FRONT_CFGS = [{"n": n, "percpu": pc, "has_prev": hp, "others": ot, "mode": m}
              for n in (8, 10) for pc in (False, True) for hp in (True, False) for ot in (True, False)
              for m in ("none", "zero", "block")] + \
             [{"n": 10, "percpu": False, "has_prev": True, "others": True, "mode": "neg"}]

FRAME = [
    # this thread's newest sample is left behind, nobody else's entry is touched, the other form's dict is not touched
    "implies(mode != 'neg', cache[TID] == t2)",
    "implies(mode != 'neg', set(cache) == set(others) | {TID} and forall(list(others), lambda t: cache[t] == others[t]))",
    "implies(mode != 'neg', idle == idle0)",
    "implies(mode == 'block', log == [('sleep', interval)])",
    "implies(mode in ('none', 'zero'), log == [])",
]

REGISTRY.add(Contract(
    "C07", INIT, "cpu_percent", name="cpu_percent (front end, per-thread samples)",
    setup=setup_front("cpu_percent", ("_last_cpu_times", "_last_per_cpu_times")), env=BASE_ENV, configs=FRONT_CFGS,
    helpers=HELPERS,
    ensures=[
        "implies(mode != 'neg' and not percpu, result == calc_pct(t1, t2))",
        "implies(mode != 'neg' and percpu, len(result) == len(pairs) and "
        "forall(range(len(pairs)), lambda i: result[i] == calc_pct(pairs[i][0], pairs[i][1])))",
    ] + FRAME,
    raises={"ValueError": "mode == 'neg'"}, canaries=["result == 7.25"], replay="c07:front",
    note="the value is calculate(own previous sample | fresh sample | pre-sleep sample, newest sample) - calculate() has its "
         "own contract; other threads' samples untouched"))

REGISTRY.add(Contract(
    "C07", INIT, "cpu_times_percent", name="cpu_times_percent (front end, per-thread samples)",
    setup=setup_front("cpu_times_percent", ("_last_cpu_times_2", "_last_per_cpu_times_2")), env=BASE_ENV,
    configs=FRONT_CFGS, helpers=HELPERS,
    ensures=[
        "implies(mode != 'neg' and not percpu, result == calc_shares(t1, t2))",
        "implies(mode != 'neg' and percpu, len(result) == len(pairs) and "
        "forall(range(len(pairs)), lambda i: result[i] == calc_shares(pairs[i][0], pairs[i][1])))",
    ] + FRAME,
    raises={"ValueError": "mode == 'neg'"}, canaries=["result == 7.25"], replay="c07:front",
    note="per-field shares = calculate(own previous sample | fresh | pre-sleep, newest); other threads' samples untouched"))
