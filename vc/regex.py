"""Model of re.findall for the pattern family psutil uses on procfs text:

    [(?m)^] literal (\\d+) literal (\\d+) ... [literal]

i.e. an optional line anchor, a non-empty leading literal, then capture groups of
decimal digits separated by literals.  findall(data)[k] is characterised as the
k-th leftmost non-overlapping match (greedy digit groups).  Any other pattern is
Unsupported (the function using it then stays undecided / bounded)."""
import re as _re

from . import smt
from .smt import T, is_t, I, B, S, And, Or, Not, Implies, Ite, Eq
from .interp import Unsupported, Builtin

try:
    import re._parser as sre_parse
    import re._constants as sre_c
except ImportError:  # pragma: no cover
    import sre_parse
    import sre_constants as sre_c


def parse(pattern, flags=0):
    """-> (anchored, [('lit', bytes) | ('digits',)]) or raises Unsupported"""
    is_bytes = isinstance(pattern, bytes)
    p = sre_parse.parse(pattern, flags)
    items = []
    anchored = False
    multiline = bool(p.state.flags & _re.MULTILINE)

    def add_lit(ch):
        if items and items[-1][0] == "lit":
            items[-1] = ("lit", items[-1][1] + chr(ch))
        else:
            items.append(("lit", chr(ch)))

    for k, (op, av) in enumerate(p):
        if op == sre_c.LITERAL:
            add_lit(av)
        elif op == sre_c.AT and av in (sre_c.AT_BEGINNING, getattr(sre_c, "AT_BEGINNING_LINE", None)) and k == 0:
            if not multiline and av == sre_c.AT_BEGINNING:
                anchored = "string"
            else:
                anchored = "line"
        elif op == sre_c.SUBPATTERN:
            sub = av[-1]
            if len(sub) == 1 and sub[0][0] == sre_c.MAX_REPEAT:
                lo, hi, body = sub[0][1]
                # \d+  or, the same thing for a bytes pattern (and for ASCII text), [0-9]+
                if lo == 1 and hi == sre_c.MAXREPEAT and len(body) == 1 and body[0][0] == sre_c.IN \
                        and (body[0][1] == [(sre_c.CATEGORY, sre_c.CATEGORY_DIGIT)]
                             or (is_bytes and body[0][1] == [(sre_c.RANGE, (48, 57))])):
                    items.append(("digits",))
                    continue
            raise Unsupported(f"regex group in {pattern!r} is not (\\d+)")
        else:
            raise Unsupported(f"regex construct {op} in {pattern!r}")
    if not items or items[0][0] != "lit":
        raise Unsupported(f"regex {pattern!r} does not start with a literal")
    return anchored, items, is_bytes


DIG = '(re.+ (re.range "0" "9"))'


def regex_term(items):
    parts = []
    for itx in items:
        if itx[0] == "lit":
            parts.append(f"(str.to_re {smt.esc(itx[1])})")
        else:
            parts.append(DIG)
    return parts[0] if len(parts) == 1 else "(re.++ " + " ".join(parts) + ")"


class FindAll:
    """result of pattern.findall(data) (lazy: matches are characterised on demand).

    Two exact characterisations are used:
    * data is py_joinlines(L) (a file read as a whole, L its lines): a match never spans
      lines (neither \\d nor the literals contain a newline), so the k-th match is found by
      (line index, offset) order: first line holding a match, leftmost inside that line;
    * otherwise: flat string, leftmost match."""

    def __init__(self, it, robj, data):
        self.it, self.robj, self.data = it, robj, data
        self.anchored, self.items, self.is_bytes = parse(robj.pattern, getattr(robj, "flags", 0))
        self.bk = "bytes" if self.is_bytes else "str"
        self.matches = []       # [(groups, state)]
        self.rx = regex_term(self.items)
        self.ngroups = sum(1 for x in self.items if x[0] == "digits")
        self.lines = None
        m = _re.fullmatch(r"\(py_joinlines (.*)\)", data.sx, _re.S)
        if m and not any("\n" in x[1] for x in self.items if x[0] == "lit"):
            self.lines = T(("Seq", "String"), m.group(1))

    # -- flat strings ---------------------------------------------------------
    def _anywhere(self, s, at_start=True):
        """s contains a match (at_start: offset 0 of s is a line start)"""
        if self.anchored == "line":
            nl = smt.esc("\n")
            inner = f"(str.in_re {s.sx} (re.++ re.all (str.to_re {nl}) {self.rx} re.all))"
            if not at_start:
                return T("Bool", inner)
            return T("Bool", f"(or (str.in_re {s.sx} (re.++ {self.rx} re.all)) {inner})")
        if self.anchored == "string":
            return T("Bool", f"(str.in_re {s.sx} (re.++ {self.rx} re.all))")
        return T("Bool", f"(str.in_re {s.sx} (re.++ re.all {self.rx} re.all))")

    def _inline(self, s, at_start=True):
        """the single line (or line remainder) s holds a match"""
        if self.anchored in ("line", "string"):
            if not at_start:
                return B(False)
            return T("Bool", f"(str.in_re {s.sx} (re.++ {self.rx} re.all))")
        return T("Bool", f"(str.in_re {s.sx} (re.++ re.all {self.rx} re.all))")

    def nonempty(self):
        if self.lines is None:
            return self._anywhere(self.data)
        return None

    def vc_truth(self, it):
        if self.lines is None:
            return self._anywhere(self.data)
        # line mode: truthiness == there is a first match
        try:
            self.match(0)
            return True
        except Exception as e:
            from .interp import PyRaise
            if isinstance(e, PyRaise) and e.exc.cls is IndexError:
                return False
            raise

    def _split_match(self, s, n, at_start):
        """s = pre ++ match ++ post with the leftmost match; returns (groups, post)"""
        it = self.it
        pre = it.fresh(f"re_pre{n}", "String", self.bk)
        post = it.fresh(f"re_post{n}", "String", self.bk)
        groups = []
        pieces = [pre]
        for itx in self.items:
            if itx[0] == "lit":
                pieces.append(S(itx[1], self.bk))
            else:
                g = it.fresh(f"re_g{n}_{len(groups)}", "String", self.bk)
                it.ctx.assume(T("Bool", f"(str.in_re {g.sx} {DIG})"))
                groups.append(g)
                pieces.append(g)
        pieces.append(post)
        acc = pieces[0]
        for p in pieces[1:]:
            acc = smt.Concat(acc, p)
        it.ctx.assume(Eq(s, acc))
        if self.items[-1][0] == "digits":   # greedy last group
            it.ctx.assume(Not(T("Bool", f"(str.in_re {post.sx} (re.++ (re.range \"0\" \"9\") re.all))")))
        return pre, groups, T("String", post.sx, self.bk)

    def match(self, k):
        """k-th match (0-based); forks: IndexError when there are fewer matches"""
        if self.lines is not None:
            return self.match_lines(k)
        it = self.it
        while len(self.matches) <= k:
            n = len(self.matches)
            rest = self.data if n == 0 else self.matches[-1][1]
            if n > 0 and self.anchored == "string":
                it.raise_(IndexError, "list index out of range")
            has = self._anywhere(rest, at_start=(n == 0))
            if not it.truth(has, f"findall-has-{n}"):
                it.raise_(IndexError, "list index out of range")
            pre, groups, post = self._split_match(rest, n, n == 0)
            if self.anchored == "line":
                it.ctx.assume(Or(Eq(smt.Len(pre), I(0)) if n == 0 else B(False),
                                 smt.app("str.suffixof", "Bool", S("\n", self.bk), pre)))
            elif self.anchored == "string":
                it.ctx.assume(Eq(smt.Len(pre), I(0)))
            lead = self.items[0][1]
            before = smt.Concat(pre, S(lead[:-1], self.bk)) if len(lead) > 1 else pre
            it.ctx.assume(Not(self._anywhere(before, at_start=(n == 0))))
            self.matches.append((groups, post))
        return self._result(k)

    def _result(self, k):
        groups = self.matches[k][0]
        if self.ngroups == 0:
            raise Unsupported("findall without groups")
        if self.ngroups == 1:
            return groups[0]
        return tuple(groups)

    # -- files read as a whole: line by line, fields by the separator character ----------
    #
    # For  lit0 (\\d+) c (\\d+) c ... (\\d+)  where lit0 ends with the single character c (not a
    # digit) a match is described exactly through line.split(c) (the same uninterpreted
    # py_split the record grammars are stated with - no word equations for the solvers):
    #   token t ends with lit0[:-1] (equals it for a line-anchored pattern, t = 0),
    #   tokens t+1 .. t+ng-1 are digit strings, token t+ng starts with a digit;
    #   groups = those tokens, the last one cut to its leading digit run.
    def _sep(self):
        lits = [x[1] for x in self.items if x[0] == "lit"]
        if self.items[-1][0] != "digits" or not lits:
            raise Unsupported("regex shape (trailing literal)")
        c = lits[0][-1]
        if c.isdigit() or any(l != c for l in lits[1:]) or len(lits) != self.ngroups:
            raise Unsupported("regex shape (separators differ)")
        return c, lits[0][:-1]

    def digitrun(self, s):
        it = self.it
        it.ctx.uf("py_digitrun", ["String"], "String")
        r = smt.app("py_digitrun", "String", s, bk=self.bk)
        a = it.ctx.assume
        a(smt.app("str.prefixof", "Bool", r, s))
        a(T("Bool", f"(str.in_re {r.sx} (re.* (re.range \"0\" \"9\")))"))
        a(Not(T("Bool", f"(str.in_re (str.substr {s.sx} (str.len {r.sx}) 1) (re.range \"0\" \"9\"))")))
        a(Implies(T("Bool", f"(str.in_re {s.sx} (re.* (re.range \"0\" \"9\")))"), Eq(r, s)))
        a(Implies(T("Bool", f"(str.in_re {s.sx} {DIG})"), Eq(r, s)))
        return r

    def _line_cond(self, j, t):
        """line j holds a match whose literal ends token t"""
        L = self.lines
        c, head = self._sep()
        self.it.ctx.uf("py_split", ["String", "String"], ("Seq", "String"))
        toks = smt.app("py_split", ("Seq", "String"), smt.Nth(L, j), S(c, self.bk))
        ng = self.ngroups
        parts = [smt.Cmp("<=", I(0), t), smt.Cmp("<", smt.Add(t, I(ng)), smt.Len(toks))]
        tk = smt.Nth(toks, t)
        if self.anchored in ("line", "string"):
            parts.append(Eq(t, I(0)))
            parts.append(Eq(tk, S(head, self.bk)))
        else:
            parts.append(smt.app("str.suffixof", "Bool", S(head, self.bk), tk))
        for g in range(1, ng):
            parts.append(T("Bool", f"(str.in_re {smt.Nth(toks, smt.Add(t, I(g))).sx} {DIG})"))
        last = smt.Nth(toks, smt.Add(t, I(ng)))
        parts.append(T("Bool", f"(str.in_re {last.sx} (re.++ (re.range \"0\" \"9\") re.all))"))
        return And(*parts), toks

    def match_lines(self, k):
        it = self.it
        L = self.lines
        nL = smt.Len(L)
        ng = self.ngroups
        if self.anchored == "string":
            raise Unsupported("string-anchored findall on a whole file")
        while len(self.matches) <= k:
            n = len(self.matches)
            prev_i, prev_t = (I(-1), I(-1)) if n == 0 else self.matches[-1][1]
            c0 = it.ctx.counter
            c0["_q"] += 1
            tq = T("Int", f"q{c0['_q']}_t")
            # (a) a further match on the same line (only for unanchored patterns)
            same = False
            if n > 0 and not self.anchored:
                hs = it.fresh(f"re_same{n}", "Bool")
                same = it.truth(hs, f"findall-sameline-{n}")
                if same:
                    t1 = it.fresh(f"re_tok{n}", "Int")
                    cond, toks = self._line_cond(prev_i, t1)
                    it.ctx.assume(And(smt.Cmp(">=", t1, smt.Add(prev_t, I(ng))), cond))
                    i0 = prev_i
                else:
                    cnd, _ = self._line_cond(prev_i, tq)
                    it.ctx.assume(smt.Forall([tq], Implies(smt.Cmp(">=", tq, smt.Add(prev_t, I(ng))), Not(cnd))))
            if not same:
                h = it.fresh(f"re_has{n}", "Bool")
                found = it.truth(h, f"findall-has-{n}")

                def none_before(hi):
                    def fn(j):
                        cnd, _ = self._line_cond(j, tq)
                        return Implies(And(smt.Cmp("<", prev_i, j), smt.Cmp("<", j, hi)),
                                       smt.Forall([tq], Not(cnd)) if not self.anchored else Not(self._line_cond(j, I(0))[0]))
                    return fn

                if not found:
                    it.forall_int(none_before(nL), instances=list(it.ctx.ghost.get("line_indices", [])))
                    it.raise_(IndexError, "list index out of range")
                i0 = it.fresh(f"re_line{n}", "Int")
                t1 = it.fresh(f"re_tok{n}", "Int")
                it.ctx.assume(And(smt.Cmp("<", prev_i, i0), smt.Cmp("<", i0, nL)))
                cond, toks = self._line_cond(i0, t1)
                it.ctx.assume(cond)
                for fn in list(it.ctx.univ):
                    it.ctx.assume(fn(i0))      # grammar facts about every line, at this line
                it.forall_int(none_before(i0), instances=list(it.ctx.ghost.get("line_indices", [])))
                it.ctx.ghost.setdefault("line_indices", []).append(i0)
                if not self.anchored:
                    # leftmost inside the line: no earlier token ends the literal
                    cnd, _ = self._line_cond(i0, tq)
                    it.ctx.assume(smt.Forall([tq], Implies(smt.Cmp("<", tq, t1), Not(cnd))))
                    it.ctx.assume(Implies(smt.Cmp(">", t1, I(0)), Not(self._line_cond(i0, I(0))[0])))
            groups = []
            for g in range(1, ng):
                v = smt.Nth(toks, smt.Add(t1, I(g)))
                groups.append(T("String", v.sx, self.bk))
            last = smt.Nth(toks, smt.Add(t1, I(ng)))
            groups.append(self.digitrun(T("String", last.sx, self.bk)))
            self.matches.append((groups, (i0, t1)))
        return self._result(k)

    def __getitem__(self, k):
        if is_t(k) or not isinstance(k, int) or k < 0:
            raise Unsupported("findall()[k] with symbolic or negative k")
        return self.match(k)


def method(it, robj, name):
    if name == "findall":
        def f(data):
            if not is_t(data):
                try:
                    return _re.compile(robj.pattern, getattr(robj, "flags", 0)).findall(data)
                except TypeError as e:
                    it.raise_(TypeError, str(e))
            return FindAll(it, robj, data)
        return Builtin("findall", f)
    if name == "search":
        # search(data) is the first element of findall(data) (same leftmost-first order), or None
        def g(data):
            if not is_t(data):
                try:
                    return _re.compile(robj.pattern, getattr(robj, "flags", 0)).search(data)
                except TypeError as e:
                    it.raise_(TypeError, str(e))
            fa = FindAll(it, robj, data)
            if not it.truth(fa.vc_truth(it) if fa.lines is None else fa.vc_truth(it), "search-found"):
                return None
            return Match(it, fa)
        return Builtin("search", g)
    raise Unsupported(f"regex method {name}")


class Match:
    """match object of search(): group(k) of the first match"""

    def __init__(self, it, fa):
        self.it, self.fa = it, fa
        self.first = fa.match(0)

    def vc_getattr(self, it, name):
        if name == "group":
            def grp(*ks):
                if not ks:
                    raise Unsupported("match.group() without a group number")
                vals = []
                for k in ks:
                    if not isinstance(k, int) or k < 1 or k > self.fa.ngroups:
                        raise Unsupported("match.group(k) outside the pattern's groups")
                    vals.append(self.first if self.fa.ngroups == 1 else self.first[k - 1])
                return vals[0] if len(vals) == 1 else tuple(vals)
            return Builtin("group", grp)
        if name == "groups":
            return Builtin("groups", lambda: (self.first,) if self.fa.ngroups == 1 else tuple(self.first))
        raise Unsupported(f"match.{name}")
