"""Library models: python operators, builtins and container/string methods on
symbolic values.  Every model is either exact for the stated domain or an
over-approximation (fresh value + characterising facts); the list is reported
in evidence as an assumption and cross-checked against CPython by
selftest/libcheck.py."""
import ast
import collections
import fractions
import operator
import re as _re

from . import smt
from .smt import T, is_t, I, R, B, S, And, Or, Not, Implies, Ite, Eq, lift
from .interp import (Unsupported, PyRaise, ExcVal, Opaque, FStr, Obj, SymMap, SymSet, SymList, SymFile,
                     SymRange, RegexObj, RepoFunc, BoundMethod, Builtin, EnvFunc, PyModule, RepoClass,
                     GenObj, ModuleSrc, PS_EXC_BY_CLS, Frame, _MISSING, WS_CHARS, PathEnd)

PY_BINOPS = {
    "Add": operator.add, "Sub": operator.sub, "Mult": operator.mul, "Div": operator.truediv,
    "FloorDiv": operator.floordiv, "Mod": operator.mod, "Pow": operator.pow,
    "BitAnd": operator.and_, "BitOr": operator.or_, "BitXor": operator.xor,
    "LShift": operator.lshift, "RShift": operator.rshift,
}


def is_num(v):
    return (is_t(v) and v.sort in ("Int", "Real", "Bool")) or (isinstance(v, (int, float, fractions.Fraction)))


def is_strlike(v):
    return (is_t(v) and v.sort == "String") or isinstance(v, (str, bytes, FStr))


def bk_of(v):
    if is_t(v):
        return v.bk
    if isinstance(v, bytes):
        return "bytes"
    return "str"


def sterm(it, v):
    """string-like python value -> String term"""
    if is_t(v):
        return v
    if isinstance(v, FStr):
        return it.fstr_term(v)
    return S(v)


# ---------------------------------------------------------------------------
# binary operators
# ---------------------------------------------------------------------------

def sym_binop(it, op, a, b, node=None):
    if isinstance(a, FStr) or isinstance(b, FStr):
        if op == "Add":
            pa = a.parts if isinstance(a, FStr) else [a]
            pb = b.parts if isinstance(b, FStr) else [b]
            return FStr(list(pa) + list(pb))
        raise Unsupported(f"op {op} on f-string")
    if is_strlike(a) and is_strlike(b):
        if op == "Add":
            return smt.Concat(sterm(it, a), sterm(it, b))
        raise Unsupported(f"string op {op}")
    if isinstance(a, SymList) or isinstance(b, SymList):
        if op == "Add":
            return SymList(smt.Concat(seq_of(it, a), seq_of(it, b)), bk=getattr(a, "bk", None) or getattr(b, "bk", None))
        raise Unsupported(f"list op {op}")
    if isinstance(a, (list, tuple)) and isinstance(b, (list, tuple)) and op == "Add":
        return a + b
    if isinstance(a, (list, tuple)) and op == "Mult" and isinstance(b, int):
        return a * b
    if isinstance(a, SymSet) or isinstance(b, SymSet):
        return set_binop(it, op, a, b)
    if not (is_num(a) and is_num(b)):
        raise Unsupported(f"binary op {op} on {type(a).__name__}/{type(b).__name__}")
    ta, tb = it.term(a), it.term(b)
    if op == "Add":
        return smt.Add(ta, tb)
    if op == "Sub":
        return smt.Sub(ta, tb)
    if op == "Mult":
        return smt.Mul(ta, tb)
    if op == "Div":
        ta, tb = lift(ta, "Real") if ta.sort != "Bool" else lift(Ite(ta, I(1), I(0)), "Real"), \
            lift(tb, "Real") if tb.sort != "Bool" else lift(Ite(tb, I(1), I(0)), "Real")
        z = Eq(tb, R(0))
        if z.sx == "true":
            it.raise_(ZeroDivisionError, "division by zero")
        if z.sx != "false":
            if it.spec_mode:
                pass
            elif it.truth(z, "div0"):
                it.raise_(ZeroDivisionError, "division by zero")
        if smt._const_int(tb) is not None or _is_const_real(tb):
            return smt.app("/", "Real", ta, tb)
        # x / y with symbolic y: fresh q with q*y == x  (y != 0 on this path;
        # in a specification the defining fact is guarded so that it can never
        # make the path condition inconsistent)
        q = it.fresh("quot", "Real")
        if it.spec_mode:
            it.ctx.assume(Implies(Not(z), Eq(smt.Mul(q, tb), ta)))
        else:
            it.ctx.assume(Eq(smt.Mul(q, tb), ta))
        return q
    if op in ("FloorDiv", "Mod"):
        if ta.sort != "Int" or tb.sort != "Int":
            if op != "FloorDiv":
                raise Unsupported(f"{op} on reals")
            # float // float: floor of the real quotient (a float in Python; exact over the reals here)
            ra, rb = lift(ta, "Real"), lift(tb, "Real")
            z = Eq(rb, R(0))
            if not it.spec_mode and it.truth(z, "div0"):
                it.raise_(ZeroDivisionError, "float floor division by zero")
            q = it.fresh("quot", "Real")
            fl = it.fresh("floor", "Int")
            it.ctx.assume(Implies(Not(z), Eq(smt.Mul(q, rb), ra)))
            it.ctx.assume(And(smt.Cmp("<=", lift(fl, "Real"), q), smt.Cmp("<", q, smt.Add(lift(fl, "Real"), R(1)))))
            return lift(fl, "Real")
        cb = smt._const_int(tb)
        if cb is None:
            z = Eq(tb, I(0))
            if not it.spec_mode and it.truth(z, "div0"):
                it.raise_(ZeroDivisionError, "integer division or modulo by zero")
            # python floor semantics for either sign of divisor
            d = smt.app("div", "Int", ta, tb)
            m = smt.app("mod", "Int", ta, tb)
            pos = smt.Cmp(">", tb, I(0))
            fl = Ite(pos, d, Ite(Eq(m, I(0)), d, smt.Sub(d, I(1))))
            if op == "FloorDiv":
                return fl
            return smt.Sub(ta, smt.Mul(fl, tb))
        if cb == 0:
            it.raise_(ZeroDivisionError, "integer division or modulo by zero")
        if cb > 0:
            return smt.app("div" if op == "FloorDiv" else "mod", "Int", ta, tb)
        raise Unsupported("floordiv/mod by negative constant")
    if op in ("BitAnd", "BitOr", "BitXor", "LShift", "RShift"):
        return bitop(it, op, ta, tb, a, b)
    if op == "Pow":
        cb = smt._const_int(tb)
        if cb is not None and 0 <= cb <= 4:
            r = lift(1, ta.sort)
            for _ in range(cb):
                r = smt.Mul(r, ta)
            return r
    raise Unsupported(f"binary op {op}")


def _is_const_real(t):
    return bool(_re.fullmatch(r"(\(- )?(\d+\.0|\(/ \d+\.0 \d+\.0\))\)?", t.sx))


def bit_of(x, k):
    """bit k of an unbounded two's complement python int"""
    return smt.app("mod", "Int", smt.app("div", "Int", x, I(1 << k)), I(2))


def bitop(it, op, ta, tb, a, b):
    if ta.sort != "Int" or tb.sort != "Int":
        raise Unsupported("bit op on non-int")
    ca, cb = smt._const_int(ta), smt._const_int(tb)
    if op in ("LShift", "RShift"):
        if cb is None or cb < 0:
            raise Unsupported("shift by symbolic amount")
        return smt.Mul(ta, I(1 << cb)) if op == "LShift" else smt.app("div", "Int", ta, I(1 << cb))
    if ca is not None and cb is None:
        ta, tb, ca, cb = tb, ta, cb, ca
    if cb is None or cb < 0:
        raise Unsupported("bit op needs one non-negative constant operand")
    if op == "BitAnd":
        if cb == 0:
            return I(0)
        if (cb + 1) & cb == 0:  # low mask 2^k-1
            return smt.app("mod", "Int", ta, I(cb + 1))
        acc = None
        for k in range(cb.bit_length()):
            if cb >> k & 1:
                t = smt.Mul(I(1 << k), bit_of(ta, k))
                acc = t if acc is None else smt.Add(acc, t)
        return acc
    if op == "BitOr":
        # x | c = x + sum of bits of c not set in x
        acc = ta
        for k in range(cb.bit_length()):
            if cb >> k & 1:
                acc = smt.Add(acc, smt.Mul(I(1 << k), smt.Sub(I(1), bit_of(ta, k))))
        return acc
    raise Unsupported(op)


def set_binop(it, op, a, b):
    raise Unsupported(f"set op {op} on symbolic set")


# ---------------------------------------------------------------------------
# comparisons
# ---------------------------------------------------------------------------

def seq_of(it, v):
    """list-like value -> Seq term"""
    if isinstance(v, SymList):
        return v.seq
    if is_t(v) and not isinstance(v.sort, str) and v.sort[0] == "Seq":
        return v
    if isinstance(v, (list, tuple)):
        ts = [it.term(x) for x in v]
        if not ts:
            raise Unsupported("empty python list where element sort is needed")
        acc = smt.SeqUnit(ts[0])
        for t in ts[1:]:
            acc = smt.Concat(acc, smt.SeqUnit(t))
        return acc
    raise Unsupported(f"not a sequence: {type(v).__name__}")


def seq_like(it, v, like):
    if isinstance(v, (list, tuple)) and len(v) == 0:
        return smt.SeqEmpty(like.sort[1])
    return seq_of(it, v)


def equal(it, a, b):
    """python == as a Bool term or python bool"""
    if a is None or b is None:
        return a is None and b is None
    if isinstance(a, Obj) and a.module is not None and not getattr(it, "_in_eq", False):
        # user-defined __eq__ of a repo class (real source, or its contract)
        try:
            m = getattr_(it, a, "__eq__")
        except PyRaise:
            m = None
        if isinstance(m, BoundMethod):
            it._in_eq = True
            try:
                r = it.call(m, [b], {})
            finally:
                it._in_eq = False
            if r is NotImplemented:
                return a is b
            return r
    if isinstance(a, FStr):
        a = it.fstr_term(a)
    if isinstance(b, FStr):
        b = it.fstr_term(b)
    if isinstance(a, SymList) or isinstance(b, SymList):
        if isinstance(a, SymList) and isinstance(b, SymList):
            return Eq(a.seq, b.seq)
        sl, other = (a, b) if isinstance(a, SymList) else (b, a)
        if isinstance(other, (list, tuple)):
            n = len(other)
            parts = [Eq(smt.Len(sl.seq), I(n))]
            for i, x in enumerate(other):
                e = elem_value(it, sl, smt.Nth(sl.seq, I(i)))
                parts.append(it.as_bool(equal(it, e, x)))
            return And(*parts)
        if is_t(other) and other.sort == sl.seq.sort:
            return Eq(sl.seq, other)
        return False
    if is_t(a) or is_t(b):
        if is_t(a) and not isinstance(a.sort, str) and a.sort[0] == "Tup" and isinstance(b, tuple):
            if len(b) != len(a.sort[1]):
                return False
            return And(*[it.as_bool(equal(it, smt.TupGet(a, i), x)) for i, x in enumerate(b)])
        if is_t(b) and not isinstance(b.sort, str) and b.sort[0] == "Tup" and isinstance(a, tuple):
            return equal(it, b, a)
        if isinstance(a, (Obj, Opaque, SymMap, SymSet, list, tuple, dict, set, ExcVal)) or \
                isinstance(b, (Obj, Opaque, SymMap, SymSet, list, tuple, dict, set, ExcVal)):
            return False
        try:
            ta, tb = it.term(a), it.term(b)
        except Unsupported:
            return False
        if ta.sort == "String" and tb.sort == "String" and ta.bk and tb.bk and ta.bk != tb.bk:
            return False  # bytes never equal str
        return Eq(ta, tb)
    if isinstance(a, (list, tuple)) and isinstance(b, (list, tuple)) and type(a) is type(b) or \
            (isinstance(a, tuple) and isinstance(b, tuple)):
        if len(a) != len(b):
            return False
        parts = [equal(it, x, y) for x, y in zip(a, b)]
        if all(not is_t(p) for p in parts):
            return all(parts)
        return And(*[it.as_bool(p) for p in parts])
    if isinstance(a, (int, float, fractions.Fraction)) and isinstance(b, (int, float, fractions.Fraction)):
        from .interp import _frac
        return _frac(a) == _frac(b)
    try:
        return a == b
    except TypeError:
        raise Unsupported("== on containers with symbolic leaves")


def compare(it, op, a, b, node=None):
    if op == "Is":
        return a is b
    if op == "IsNot":
        return a is not b
    if op == "Eq":
        return equal(it, a, b)
    if op == "NotEq":
        r = equal(it, a, b)
        return Not(r) if is_t(r) else (not r)
    if op in ("In", "NotIn"):
        r = contains(it, b, a, node)
        if op == "NotIn":
            return Not(r) if is_t(r) else (not r)
        return r
    sop = {"Lt": "<", "LtE": "<=", "Gt": ">", "GtE": ">="}[op]
    if type(a) in (tuple, list) and type(a) is type(b) and any(is_t(x) for x in list(a) + list(b)):
        # python-side sequences holding terms: lexicographic order, element by element
        if sop in (">", ">="):
            a, b, sop = b, a, {">": "<", ">=": "<="}[sop]
        n = min(len(a), len(b))
        cases, prefix = [], []
        for k in range(n):
            lt = compare(it, "Lt", a[k], b[k], node)
            cases.append(And(*(prefix + [lift(lt)])))
            prefix.append(lift(equal(it, a[k], b[k])))
        if len(a) < len(b) or (sop == "<=" and len(a) == len(b)):
            cases.append(And(*prefix) if prefix else B(True))
        return Or(*cases) if cases else B(False)
    if is_t(a) or is_t(b):
        if is_num(a) and is_num(b):
            return smt.Cmp(sop, it.term(a), it.term(b))
        if a is None or b is None:
            it.raise_(TypeError, "ordering comparison with None")
        raise Unsupported(f"ordering comparison on {type(a).__name__}/{type(b).__name__}")
    if a is None or b is None:
        it.raise_(TypeError, "ordering comparison with None")
    from .interp import _frac
    try:
        return {"<": operator.lt, "<=": operator.le, ">": operator.gt, ">=": operator.ge}[sop](_frac(a), _frac(b))
    except TypeError as e:
        it.raise_(TypeError, str(e))


def contains(it, cont, x, node=None):
    if hasattr(cont, "vc_contains"):
        return cont.vc_contains(it, x)
    if isinstance(cont, SymMap):
        return smt.Select(cont.pres, it.term(x))
    if isinstance(cont, SymSet):
        return smt.Select(cont.mem, it.term(x))
    if isinstance(cont, SymList):
        return smt.app("seq.contains", "Bool", cont.seq, smt.SeqUnit(it.term(x)))
    if is_t(cont) and cont.sort == "String":
        return smt.Contains(cont, sterm(it, x))
    if is_t(cont) and not isinstance(cont.sort, str) and cont.sort[0] == "Seq":
        return smt.app("seq.contains", "Bool", cont, smt.SeqUnit(it.term(x)))
    if isinstance(cont, (str, bytes)):
        if is_t(x):
            return smt.Contains(S(cont), x)
        return x in cont
    if isinstance(cont, (list, tuple, set, frozenset, dict, range)) or isinstance(cont, collections.abc.KeysView):
        if is_t(x) or any(is_t(e) for e in cont):
            parts = [equal(it, x, e) for e in cont]
            if any(p is True for p in parts):
                return True
            ts = [p for p in parts if is_t(p)]
            return Or(*ts) if ts else False
        try:
            return x in cont
        except TypeError:
            if isinstance(x, (Obj, SymList, SymMap)):
                return any(x is e for e in cont)
            raise Unsupported("membership test with unhashable symbolic value")
    raise Unsupported(f"'in' on {type(cont).__name__}")


# ---------------------------------------------------------------------------
# attributes
# ---------------------------------------------------------------------------

def getattr_(it, obj, name, node=None, default=None, has_default=False):
    def missing():
        if has_default:
            return default
        it.raise_(AttributeError, name)

    if isinstance(obj, Obj):
        if name in obj.attrs:
            v = obj.attrs[name]
            if hasattr(v, "vc_read"):
                return v.vc_read(it, obj, name)      # volatile attribute (another thread may change it)
            return v
        if obj.module is not None:
            try:
                fn = obj.module.find(f"{obj.cls}.{name}")
            except Unsupported:
                fn = None
            if fn is not None and isinstance(fn, ast.FunctionDef):
                rf = RepoFunc(obj.module, f"{obj.cls}.{name}", fn, cls=obj.cls)
                decos = [ast.unparse(d) for d in fn.decorator_list]
                if "property" in decos:
                    return it.run_function(rf, [obj], {})
                if "staticmethod" in decos:
                    return rf
                return BoundMethod(obj, rf)
        return missing()
    if isinstance(obj, ModuleSrc):
        v = it.module_name(obj, name)
        if v is _MISSING:
            return missing()
        return v
    if isinstance(obj, PyModule):
        dotted = f"{obj.name}.{name}"
        if dotted in it.env_over:
            return it.env_over[dotted]
        if not hasattr(obj.mod, name):
            return missing()
        return it.wrap_py(getattr(obj.mod, name), dotted)
    if isinstance(obj, RepoClass):
        key = f"{obj.module.name}.{obj.name}.{name}"
        if key in it.env_over:
            return it.env_over[key]
        try:
            fn = obj.module.find(f"{obj.name}.{name}")
        except Unsupported:
            return missing()
        if isinstance(fn, ast.FunctionDef):
            return RepoFunc(obj.module, f"{obj.name}.{name}", fn, cls=obj.name)
        return missing()
    if isinstance(obj, ExcVal):
        if name in obj.fields:
            return obj.fields[name]
        if name == "args":
            return obj.args
        if name == "errno" and issubclass(obj.cls, OSError):
            return obj.fields.get("errno")
        return missing()
    if isinstance(obj, BoundMethod) or isinstance(obj, RepoFunc):
        rf = obj.func if isinstance(obj, BoundMethod) else obj
        key = f"{rf.qualname}.{name}"
        if key in it.env_over:
            return it.env_over[key]
        helper = decorator_helper(it, rf, name)
        if helper is not None:
            return helper
        if name in it.env_over.get("__funcattrs__", {}):
            return it.env_over["__funcattrs__"][name](it, obj)
        raise Unsupported(f"attribute {name} of function {rf.qualname}")
    if is_t(obj):
        if obj.sort == "String":
            return str_method(it, obj, name)
        if not isinstance(obj.sort, str) and obj.sort[0] == "Tup":
            names = it.ctx.ghost.get("__tupfields__", {}).get(smt.sort_name(obj.sort))
            if names and name in names:
                return smt.TupGet(obj, names.index(name))
        raise Unsupported(f"attribute {name} on term of sort {obj.sort}")
    if isinstance(obj, SymList):
        return list_method(it, obj, name)
    if isinstance(obj, SymMap):
        return map_method(it, obj, name)
    if isinstance(obj, SymSet):
        return set_method(it, obj, name)
    if isinstance(obj, SymFile):
        return file_method(it, obj, name)
    if isinstance(obj, RegexObj):
        from . import regex
        return regex.method(it, obj, name)
    if isinstance(obj, FStr):
        return str_method(it, it.fstr_term(obj), name)
    if isinstance(obj, (str, bytes)):
        return Builtin(f"str.{name}", lambda *a, **k: concrete_str_method(it, obj, name, a, k))
    if isinstance(obj, (list, dict, set, collections.OrderedDict, collections.defaultdict, collections.deque)):
        return Builtin(f"{type(obj).__name__}.{name}", lambda *a, **k: concrete_container_method(it, obj, name, a, k))
    if isinstance(obj, tuple) and hasattr(obj, "_fields"):
        if name in obj._fields:
            return getattr(obj, name)
        if name == "_fields":
            return obj._fields
        if name == "_replace":
            return Builtin("_replace", lambda **kw: obj._replace(**kw))
        if name == "_asdict":
            return Builtin("_asdict", lambda: obj._asdict())
        return missing()
    if isinstance(obj, (tuple, frozenset)):
        return Builtin(f"{type(obj).__name__}.{name}", lambda *a, **k: concrete_container_method(it, obj, name, a, k))
    if isinstance(obj, type):
        if hasattr(obj, name):
            return getattr(obj, name)
        return missing()
    if isinstance(obj, (int, float)):
        if hasattr(obj, name):
            return getattr(obj, name)
        return missing()
    if isinstance(obj, Opaque):
        raise Unsupported(f"attribute {name} of opaque value")
    # arbitrary python objects supplied by contracts (locks, sentinels ...)
    if hasattr(obj, "vc_getattr"):
        return obj.vc_getattr(it, name)
    if hasattr(obj, name):
        return getattr(obj, name)
    return missing()


def decorator_helper(it, rf, name):
    """attributes a decorator attaches to its wrapper (wrapper.cache_activate = cache_activate):
    resolved to the real nested def of the decorator function"""
    node = getattr(rf, "node", None)
    if node is None or not getattr(node, "decorator_list", None):
        return None
    for d in node.decorator_list:
        dn = ast.unparse(d)
        for m in (rf.module, it.repo_module("_common")):
            st = m.toplevel(dn)
            if isinstance(st, ast.FunctionDef):
                # wrapper.<name> = <helper>
                for s_ in st.body:
                    if isinstance(s_, ast.Assign) and isinstance(s_.targets[0], ast.Attribute) and \
                            s_.targets[0].attr == name and isinstance(s_.value, ast.Name):
                        for h in st.body:
                            if isinstance(h, ast.FunctionDef) and h.name == s_.value.id:
                                clo = Frame(RepoFunc(m, dn, st), {}, None)
                                return RepoFunc(m, f"{dn}.<locals>.{h.name}", h, closure=clo)
                break
    return None


def setattr_(it, obj, name, v, node=None):
    if isinstance(obj, Obj) and hasattr(obj.attrs.get(name), "vc_write"):
        return obj.attrs[name].vc_write(it, obj, name, v)
    if isinstance(obj, Obj):
        fz = it.ctx.ghost.get("__frozen_attrs__", {}).get(id(obj))
        if fz is not None and name in fz:
            it.ctx.oblige(f"frame:{obj.cls}.{name}@{getattr(node, 'lineno', '?')}", "frame", B(False),
                          where=f"write to {obj.cls}.{name} outside the modifies clause")
        obj.attrs[name] = v
        it.ctx.ghost.setdefault("__attr_writes__", []).append((obj, name))
        return
    if isinstance(obj, (RepoFunc, BoundMethod)):
        return  # function attributes (returncode etc. are on Obj); ignore doc strings
    if hasattr(obj, "vc_setattr"):
        return obj.vc_setattr(it, name, v)
    raise Unsupported(f"attribute store on {type(obj).__name__}")


def delattr_(it, obj, name, node=None):
    if isinstance(obj, Obj) and hasattr(obj.attrs.get(name), "vc_delete"):
        return obj.attrs[name].vc_delete(it, obj, name)
    if isinstance(obj, Obj):
        if name not in obj.attrs:
            it.raise_(AttributeError, name)
        del obj.attrs[name]
        return
    raise Unsupported("del attribute")


# ---------------------------------------------------------------------------
# subscripts and slices
# ---------------------------------------------------------------------------

def elem_value(it, sl, t):
    if getattr(sl, "unwrap", None) is not None:
        return sl.unwrap(t)
    if t.sort == "String":
        return T(t.sort, t.sx, sl.bk)
    return t


def norm_index(n_len, i):
    """python index normalisation for slicing: clamp to [0, len]"""
    return Ite(smt.Cmp("<", i, I(0)),
               Ite(smt.Cmp("<", smt.Add(i, n_len), I(0)), I(0), smt.Add(i, n_len)),
               Ite(smt.Cmp(">", i, n_len), n_len, i))


def index(it, obj, idx, node=None):
    if isinstance(obj, SymList):
        if isinstance(idx, slice):
            raise Unsupported("slice object")
        ti = it.term(idx)
        n = smt.Len(obj.seq)
        if it.spec_mode:
            ci = smt._const_int(ti)
            if ci is not None and ci < 0:
                ti = smt.Add(n, ti)
            return elem_value(it, obj, smt.Nth(obj.seq, ti))
        ci = smt._const_int(ti)
        if ci is not None and ci >= 0:
            ok = smt.Cmp("<", ti, n)
            pos = ti
        elif ci is not None:
            ok = smt.Cmp("<=", I(-ci), n)
            pos = smt.Add(n, ti)
        else:
            ok = And(smt.Cmp("<=", smt.Neg(n), ti), smt.Cmp("<", ti, n))
            pos = Ite(smt.Cmp("<", ti, I(0)), smt.Add(n, ti), ti)
        if it.truth(ok, "index-in-range"):
            return elem_value(it, obj, smt.Nth(obj.seq, pos))
        it.raise_(IndexError, "list index out of range")
    if isinstance(obj, SymMap):
        tk = it.term(idx)
        if it.spec_mode:
            return map_value(it, obj, smt.Select(obj.vals, tk))
        if it.truth(smt.Select(obj.pres, tk), "key-present"):
            return map_value(it, obj, smt.Select(obj.vals, tk))
        if getattr(obj, "default", None) is not None:
            dv = obj.default()
            setitem(it, obj, idx, dv)
            return dv
        it.raise_(KeyError, idx)
    if is_t(obj):
        if obj.sort == "String":
            if obj.bk == "bytes":
                raise Unsupported("indexing bytes yields int")
            ti = it.term(idx)
            n = smt.Len(obj)
            if it.spec_mode:
                return smt.Nth(obj, ti)
            ok = And(smt.Cmp("<=", smt.Neg(n), ti), smt.Cmp("<", ti, n))
            if it.truth(ok, "str-index"):
                return smt.Nth(obj, Ite(smt.Cmp("<", ti, I(0)), smt.Add(n, ti), ti))
            it.raise_(IndexError, "string index out of range")
        if not isinstance(obj.sort, str) and obj.sort[0] == "Tup":
            if is_t(idx):
                raise Unsupported("symbolic index into tuple term")
            k = len(obj.sort[1])
            if not -k <= idx < k:
                it.raise_(IndexError, "tuple index out of range")
            return smt.TupGet(obj, idx % k)
        if not isinstance(obj.sort, str) and obj.sort[0] == "Seq":
            return index(it, SymList(obj), idx, node)
        if not isinstance(obj.sort, str) and obj.sort[0] == "Array":
            return smt.Select(obj, it.term(idx))
        raise Unsupported(f"subscript of term of sort {obj.sort}")
    if isinstance(obj, ExcVal):
        raise Unsupported("subscript of exception")
    if is_t(idx):
        if isinstance(obj, (list, tuple)):
            # concrete spine, symbolic index: ite chain, IndexError fork
            n = len(obj)
            ok = And(smt.Cmp("<=", I(-n), idx), smt.Cmp("<", idx, I(n)))
            if it.spec_mode or it.truth(ok, "index-in-range"):
                acc = it.term(obj[0]) if n else None
                if acc is None:
                    raise Unsupported("index into empty list")
                for k in range(1, n):
                    acc = Ite(Or(Eq(idx, I(k)), Eq(idx, I(k - n))), it.term(obj[k]), acc)
                return acc
            it.raise_(IndexError, "index out of range")
        if isinstance(obj, dict):
            for k, v in obj.items():
                c = equal(it, idx, k)
                if c is True or (is_t(c) and it.truth(c, "dict-key")):
                    return v
            it.raise_(KeyError, idx)
        raise Unsupported("symbolic subscript")
    try:
        return obj[idx]
    except IndexError:
        it.raise_(IndexError, "index out of range")
    except KeyError:
        it.raise_(KeyError, idx)
    except TypeError as e:
        if isinstance(obj, (list, tuple, dict, str, bytes)):
            it.raise_(TypeError, str(e))
        raise Unsupported(f"subscript of {type(obj).__name__}")


def map_value(it, m, t):
    if getattr(m, "vunwrap", None) is not None:
        return m.vunwrap(t)
    if t.sort == "String":
        return T(t.sort, t.sx, getattr(m, "vbk", None))
    return t


def slice_(it, obj, lo, hi, st, node=None):
    if st is not None and st != 1:
        if not is_t(obj) and not isinstance(obj, SymList) and not is_t(lo) and not is_t(hi):
            return obj[lo:hi:st]
        raise Unsupported("slice step on symbolic value")
    if isinstance(obj, FStr):
        obj = it.fstr_term(obj)
    if is_t(obj) and not isinstance(obj.sort, str) and obj.sort[0] == "Seq":
        obj = SymList(obj)
    if isinstance(obj, SymList) or (is_t(obj) and obj.sort == "String"):
        seq = obj.seq if isinstance(obj, SymList) else obj
        n = smt.Len(seq)
        tlo = it.term(lo) if lo is not None else I(0)
        thi = it.term(hi) if hi is not None else n
        clo, chi = smt._const_int(tlo), smt._const_int(thi)
        if isinstance(obj, SymList) and clo is not None and chi is not None and 0 <= clo <= chi and not it.spec_mode:
            # concrete window: if the list is long enough the result has a concrete spine
            if it.truth(smt.Cmp(">=", n, I(chi)), "slice-long-enough"):
                return [elem_value(it, obj, smt.Nth(seq, I(i))) for i in range(clo, chi)]
        nlo = tlo if (clo is not None and clo >= 0 and False) else norm_index(n, tlo)
        if clo is not None and clo >= 0:
            nlo = Ite(smt.Cmp(">", tlo, n), n, tlo)
        nhi = n if hi is None else norm_index(n, thi)
        ln = Ite(smt.Cmp(">", nhi, nlo), smt.Sub(nhi, nlo), I(0))
        if clo == 0 and hi is None:
            return obj
        if hi is None:
            # s[lo:] : substr(s, lo, len - lo) (empty if lo >= len)
            r = smt.Substr(seq, nlo, smt.Sub(n, nlo))
        else:
            r = smt.Substr(seq, nlo, ln)
        if isinstance(obj, SymList):
            return SymList(r, bk=obj.bk)
        return r
    if is_t(lo) or is_t(hi):
        if isinstance(obj, (str, bytes)):
            return slice_(it, S(obj), lo, hi, st, node)
        raise Unsupported("symbolic slice bounds on concrete container")
    try:
        return obj[lo:hi]
    except TypeError:
        raise Unsupported(f"slice of {type(obj).__name__}")


def tup_term(it, v):
    """python tuple of terms -> Tup term"""
    ts = [it.term(x) for x in v]
    return smt.MkTup(("Tup", tuple(t.sort for t in ts)), *ts)


def to_sort(it, v, sort):
    """python-side value -> term of the given sort (for storing in arrays/seqs)"""
    if is_t(v):
        if v.sort == sort:
            return v
        if v.sort == "Int" and sort == "Real":
            return lift(v, "Real")
        raise Unsupported(f"sort mismatch: have {v.sort}, need {sort}")
    if isinstance(sort, str):
        return lift(v, sort if sort in ("Real", "Int") else None)
    if sort[0] == "Tup" and isinstance(v, tuple):
        if len(v) != len(sort[1]):
            raise Unsupported("tuple arity mismatch for sort")
        return smt.MkTup(sort, *[to_sort(it, x, s) for x, s in zip(v, sort[1])])
    if sort[0] == "Seq":
        if isinstance(v, SymList):
            return v.seq
        if isinstance(v, (list, tuple)):
            if not v:
                return smt.SeqEmpty(sort[1])
            acc = None
            for x in v:
                u = smt.SeqUnit(to_sort(it, x, sort[1]))
                acc = u if acc is None else smt.Concat(acc, u)
            return acc
    raise Unsupported(f"cannot convert {type(v).__name__} to sort {smt.sort_name(sort)}")


def setitem(it, obj, idx, v, node=None):
    if isinstance(obj, SymMap):
        tk = it.term(idx)
        obj.vals = smt.Store(obj.vals, tk, to_sort(it, v, obj.vsort))
        if obj.keys is not None:
            was = smt.Select(obj.pres, tk)
            obj.keys = Ite(was, obj.keys, smt.Concat(obj.keys, smt.SeqUnit(tk)))
        obj.pres = smt.Store(obj.pres, tk, B(True))
        return
    if isinstance(obj, dict):
        if is_t(idx):
            # promote: concrete dict receives a symbolic key
            sm = promote_dict(it, obj, idx, v)
            if sm is None:
                raise Unsupported("store with symbolic key into a concrete dict (needs a loop contract promoting it)")
            return
        obj[idx] = v
        return
    if isinstance(obj, list):
        if is_t(idx):
            raise Unsupported("list store with symbolic index")
        try:
            obj[idx] = v
        except IndexError:
            it.raise_(IndexError, "list assignment index out of range")
        return
    if isinstance(obj, SymList):
        ti = it.term(idx)
        n = smt.Len(obj.seq)
        ok = And(smt.Cmp("<=", I(0), ti), smt.Cmp("<", ti, n))
        if it.truth(ok, "store-in-range"):
            tv = to_sort(it, v, obj.esort)
            obj.seq = smt.Concat(smt.Concat(smt.Substr(obj.seq, I(0), ti), smt.SeqUnit(tv)),
                                 smt.Substr(obj.seq, smt.Add(ti, I(1)), smt.Sub(n, smt.Add(ti, I(1)))))
            return
        raise Unsupported("list store out of range / negative")
    raise Unsupported(f"item store on {type(obj).__name__}")


def promote_dict(it, d, idx, v):
    return None


def empty_symmap(it, ksort, vsort, kbk=None, vbk=None, keys=False):
    """the empty dict as a symbolic map (absent keys read as the sort's zero; never observed)"""
    zero = {"Int": I(0), "Real": R(0), "Bool": B(False), "String": S("")}.get(vsort)
    if zero is None:
        raise Unsupported("empty_symmap value sort")
    m = SymMap(ksort, vsort, smt.ConstArray(ksort, B(False)), smt.ConstArray(ksort, zero),
               keys=smt.SeqEmpty(ksort) if keys else None, kbk=kbk)
    m.vbk = vbk
    return m


def delitem(it, obj, idx, node=None):
    if isinstance(obj, SymMap):
        tk = it.term(idx)
        if not it.spec_mode and not it.truth(smt.Select(obj.pres, tk), "del-key-present"):
            it.raise_(KeyError, idx)
        obj.pres = smt.Store(obj.pres, tk, B(False))
        if obj.keys is not None:
            obj.keys = None  # order no longer tracked
        return
    if isinstance(obj, dict) and not is_t(idx):
        try:
            del obj[idx]
        except KeyError:
            it.raise_(KeyError, idx)
        return
    raise Unsupported("del item")


# ---------------------------------------------------------------------------
# string methods (symbolic receiver or symbolic argument)
# ---------------------------------------------------------------------------

def ws_re():
    return "(re.union " + " ".join(f"(str.to_re {smt.esc(c)})" for c in WS_CHARS) + ")"


def digits_re():
    return '(re.+ (re.range "0" "9"))'


def in_re(s, rx):
    return T("Bool", f"(str.in_re {s.sx} {rx})")


def no_ws(s):
    return Not(in_re(s, f"(re.++ re.all {ws_re()} re.all)"))


def str_method(it, s, name):
    bk = s.bk

    def mk(fn):
        return Builtin(f"str.{name}", fn)

    def tstr(x):
        return sterm(it, x)

    if name in ("decode", "encode"):
        def conv(*a, **k):
            return T("String", s.sx, "str" if name == "decode" else "bytes")
        return mk(conv)
    if name == "startswith":
        def f(p, *a):
            if len(a) > 1:
                raise Unsupported("startswith with start and end")
            if a:
                # s.startswith(p, start), 0 <= start: p is a prefix of s[start:]; beyond the end only the empty prefix matches
                st = it.term(a[0]) if not isinstance(a[0], int) else I(a[0])
                if not (isinstance(a[0], int) and a[0] >= 0):
                    if it.truth(smt.Cmp("<", st, I(0)), "startswith:negative-start"):
                        raise Unsupported("startswith with a negative start")
                tail = smt.Substr(s, st, smt.Sub(smt.Len(s), st))
                ps = list(p) if isinstance(p, tuple) else [p]
                return Or(*[And(smt.Cmp("<=", st, smt.Len(s)), smt.app("str.prefixof", "Bool", tstr(x), tail)) for x in ps])
            if isinstance(p, tuple):
                return Or(*[smt.app("str.prefixof", "Bool", tstr(x), s) for x in p])
            return smt.app("str.prefixof", "Bool", tstr(p), s)
        return mk(f)
    if name == "endswith":
        def f(p, *a):
            if isinstance(p, tuple):
                return Or(*[smt.app("str.suffixof", "Bool", tstr(x), s) for x in p])
            return smt.app("str.suffixof", "Bool", tstr(p), s)
        return mk(f)
    if name == "find":
        def f(sub, start=None, end=None):
            sub_t = tstr(sub)
            n = smt.Len(s)
            if start is None and end is None:
                return smt.app("str.indexof", "Int", s, sub_t, I(0))
            ts = norm_index(n, it.term(start)) if start is not None else I(0)
            te = norm_index(n, it.term(end)) if end is not None else n
            k = smt.app("str.indexof", "Int", s, sub_t, ts)
            ok = And(smt.Cmp(">=", k, I(0)), smt.Cmp("<=", smt.Add(k, smt.Len(sub_t)), te), smt.Cmp("<=", ts, n))
            return Ite(ok, k, I(-1))
        return mk(f)
    if name == "rfind":
        def f(sub, *a):
            if a:
                raise Unsupported("rfind with bounds")
            sub_t = tstr(sub)
            r = it.fresh("rfind", "Int")
            n = smt.Len(s)
            m = smt.Len(sub_t)
            found = And(smt.Cmp("<=", I(0), r), smt.Cmp("<=", smt.Add(r, m), n),
                        Eq(smt.Substr(s, r, m), sub_t),
                        Not(smt.Contains(smt.Substr(s, smt.Add(r, I(1)), n), sub_t)))
            it.ctx.assume(Or(And(Eq(r, I(-1)), Not(smt.Contains(s, sub_t))), found))
            return r
        return mk(f)
    if name in ("index",):
        def f(sub):
            k = smt.app("str.indexof", "Int", s, tstr(sub), I(0))
            if it.truth(smt.Cmp("<", k, I(0)), "index-notfound"):
                it.raise_(ValueError, "substring not found")
            return k
        return mk(f)
    if name == "count":
        def f(sub):
            it.ctx.uf("py_count", ["String", "String"], "Int")
            c = smt.app("py_count", "Int", s, tstr(sub))
            it.ctx.assume(smt.Cmp(">=", c, I(0)))
            it.ctx.assume(Eq(Eq(c, I(0)), Not(smt.Contains(s, tstr(sub)))))
            return c
        return mk(f)
    if name == "replace":
        def f(a, b, cnt=None):
            if cnt is None:
                return smt.app("str.replace_all", "String", s, tstr(a), tstr(b), bk=bk)
            if cnt == 1:
                return smt.app("str.replace", "String", s, tstr(a), tstr(b), bk=bk)
            raise Unsupported("replace with count > 1")
        return mk(f)
    if name in ("strip", "lstrip", "rstrip"):
        def f(chars=None):
            if chars is not None:
                raise Unsupported("strip(chars)")
            if s.sx in getattr(it.ctx, "known_stripped", ()):
                return s          # the input grammar says this value has no leading/trailing whitespace
            fn = "py_" + name
            it.ctx.uf(fn, ["String"], "String")
            r = smt.app(fn, "String", s, bk=bk)
            ws = ws_re()
            facts = [smt.Contains(s, r)]
            if name in ("strip", "lstrip"):
                facts.append(Not(in_re(r, f"(re.++ {ws} re.all)")))
            if name in ("strip", "rstrip"):
                facts.append(Not(in_re(r, f"(re.++ re.all {ws})")))
            # shape: s = ws* ++ r ++ ws*
            pre = f"(re.* {ws})" if name in ("strip", "lstrip") else '(str.to_re "")'
            post = f"(re.* {ws})" if name in ("strip", "rstrip") else '(str.to_re "")'
            p = it.fresh("strip_pre", "String")
            q = it.fresh("strip_post", "String")
            facts.append(Eq(s, smt.Concat(smt.Concat(p, r), q)))
            facts.append(in_re(p, pre))
            facts.append(in_re(q, post))
            for fct in facts:
                it.ctx.assume(fct)
            return r
        return mk(f)
    if name == "split":
        def f(sep=None, maxsplit=-1):
            return split_model(it, s, sep, maxsplit)
        return mk(f)
    if name in ("rpartition", "partition"):
        def f(sep):
            sp = tstr(sep)
            if name == "partition":
                k = smt.app("str.indexof", "Int", s, sp, I(0))
            else:
                k = str_method(it, s, "rfind").fn(sep)
            n = smt.Len(s)
            has = smt.Cmp(">=", k, I(0))
            before = smt.Substr(s, I(0), k)
            after = smt.Substr(s, smt.Add(k, smt.Len(sp)), n)
            e = S("", bk) if bk != "bytes" else S(b"")
            if name == "partition":
                return (Ite(has, before, s), Ite(has, sp, e), Ite(has, after, e))
            return (Ite(has, before, e), Ite(has, sp, e), Ite(has, after, s))
        return mk(f)
    if name in ("lower", "upper"):
        def f():
            if s.sx in getattr(it.ctx, "known_stripped", ()):
                return s          # the input grammar says this value has no leading/trailing whitespace
            fn = "py_" + name
            it.ctx.uf(fn, ["String"], "String")
            r = smt.app(fn, "String", s, bk=bk)
            it.ctx.assume(Eq(smt.Len(r), smt.Len(s)))
            return r
        return mk(f)
    if name == "isdigit":
        return mk(lambda: in_re(s, digits_re()))
    if name == "join":
        def f(seq):
            it.ctx.uf("py_join", ["String", ("Seq", "String")], "String")
            return smt.app("py_join", "String", s, seq_of(it, seq), bk=bk)
        return mk(f)
    if name == "format":
        return mk(lambda *a, **k: Opaque("format"))
    raise Unsupported(f"string method {name}")


def concrete_str_method(it, s, name, a, k):
    if any(is_t(x) or isinstance(x, (SymList, FStr)) for x in a) or any(is_t(x) for x in k.values()):
        if name == "join":
            if isinstance(a[0], (list, tuple)):
                parts = []
                for i, x in enumerate(a[0]):
                    if i:
                        parts.append(s)
                    parts.append(x)
                return FStr(parts) if isinstance(s, str) else str_method(it, S(s), "join").fn(a[0])
            return str_method(it, S(s), "join").fn(a[0])
        return str_method(it, S(s), name).fn(*a, **k)
    if name == "format" and (any(isinstance(x, Opaque) for x in a) or any(isinstance(x, Opaque) for x in k.values())):
        return Opaque("format")
    if name == "join" and a and isinstance(a[0], (list, tuple)) and any(isinstance(x, Opaque) for x in a[0]):
        return Opaque("join")
    try:
        return getattr(s, name)(*a, **k)
    except ValueError as e:
        it.raise_(ValueError, str(e))
    except TypeError as e:
        it.raise_(TypeError, str(e))
    except UnicodeError as e:
        it.raise_(UnicodeDecodeError, str(e))


def split_model(it, s, sep, maxsplit):
    bk = s.bk
    ctx = it.ctx
    if sep is None and maxsplit == -1:
        ctx.uf("py_splitws", ["String"], ("Seq", "String"))
        r = smt.app("py_splitws", ("Seq", "String"), s)
        # facts true of every str.split(): tokens non-empty, free of whitespace,
        # each a substring; no tokens iff the string is all whitespace
        ctx.counter["_q"] += 1
        bv = T("Int", f"q{ctx.counter['_q']}_k")
        el = smt.Nth(r, bv)
        rng = And(smt.Cmp("<=", I(0), bv), smt.Cmp("<", bv, smt.Len(r)))
        ctx.assume(smt.Forall([bv], Implies(rng, And(smt.Cmp(">", smt.Len(el), I(0)), no_ws(el), smt.Contains(s, el)))))
        ctx.assume(Eq(Eq(smt.Len(r), I(0)), in_re(s, f"(re.* {ws_re()})")))
        return SymList(r, bk=bk)
    if sep is None:
        fn = f"py_splitws_{maxsplit}"
        ctx.uf(fn, ["String"], ("Seq", "String"))
        r = smt.app(fn, ("Seq", "String"), s)
        ctx.assume(smt.Cmp("<=", smt.Len(r), I(maxsplit + 1)))
        return SymList(r, bk=bk)
    sp = sterm(it, sep)
    if maxsplit == 1:
        k = smt.app("str.indexof", "Int", s, sp, I(0))
        n = smt.Len(s)
        if it.truth(smt.Cmp(">=", k, I(0)), "split1-found"):
            return [smt.Substr(s, I(0), k), smt.Substr(s, smt.Add(k, smt.Len(sp)), n)]
        return [s]
    if maxsplit != -1:
        raise Unsupported("split with maxsplit > 1")
    ctx.uf("py_split", ["String", "String"], ("Seq", "String"))
    r = smt.app("py_split", ("Seq", "String"), s, sp)
    ctx.assume(smt.Cmp(">=", smt.Len(r), I(1)))
    k = smt.app("str.indexof", "Int", s, sp, I(0))
    first = smt.Nth(r, I(0))
    ctx.assume(Eq(first, Ite(smt.Cmp(">=", k, I(0)), smt.Substr(s, I(0), k), s)))
    ctx.assume(Eq(Eq(smt.Len(r), I(1)), Not(smt.Contains(s, sp))))
    return SymList(r, bk=bk)


# ---------------------------------------------------------------------------
# list / dict / set / file methods on symbolic containers
# ---------------------------------------------------------------------------

def list_method(it, sl, name):
    def mk(fn):
        return Builtin(f"list.{name}", fn)

    if name == "append":
        def f(x):
            sl.seq = smt.Concat(sl.seq, smt.SeqUnit(to_sort(it, x, sl.esort)))
        return mk(f)
    if name == "extend":
        def f(xs):
            sl.seq = smt.Concat(sl.seq, seq_like(it, xs, sl.seq))
        return mk(f)
    if name == "sort":
        def f(**k):
            if k:
                raise Unsupported("sort(key=...) on symbolic list")
            sl.seq = sorted_term(it, sl.seq)
        return mk(f)
    if name == "pop":
        def f(i=None):
            n = smt.Len(sl.seq)
            if not it.truth(smt.Cmp(">", n, I(0)), "pop-nonempty"):
                it.raise_(IndexError, "pop from empty list")
            if i is None:
                v = smt.Nth(sl.seq, smt.Sub(n, I(1)))
                sl.seq = smt.Substr(sl.seq, I(0), smt.Sub(n, I(1)))
            elif i == 0:
                v = smt.Nth(sl.seq, I(0))
                sl.seq = smt.Substr(sl.seq, I(1), smt.Sub(n, I(1)))
            else:
                raise Unsupported("pop(i)")
            return elem_value(it, sl, v)
        return mk(f)
    if name == "copy":
        return mk(lambda: SymList(sl.seq, sl.bk))
    if name == "count":
        raise Unsupported("list.count symbolic")
    raise Unsupported(f"list method {name}")


def sorted_term(it, seq):
    """sorted(seq): fresh permutation, ordered (Int/Real elements or Tup with Int first)"""
    ctx = it.ctx
    r = it.fresh("sorted", seq.sort)
    ctx.assume(Eq(smt.Len(r), smt.Len(seq)))
    es = seq.sort[1]
    ctx.counter["_q"] += 1
    q = ctx.counter["_q"]
    i, j = T("Int", f"q{q}_i"), T("Int", f"q{q}_j")
    if es in ("Int", "Real"):
        def key(x):
            return x
    elif es == "String":
        key = None
    else:
        raise Unsupported("sorted() of this element sort")
    n = smt.Len(r)
    if key is not None:
        ctx.assume(smt.Forall([i, j], Implies(And(smt.Cmp("<=", I(0), i), smt.Cmp("<", i, j), smt.Cmp("<", j, n)),
                                             smt.Cmp("<=", key(smt.Nth(r, i)), key(smt.Nth(r, j))))))
    # permutation (as mutual containment of elements; multiplicity not tracked)
    ctx.assume(smt.Forall([i], Implies(And(smt.Cmp("<=", I(0), i), smt.Cmp("<", i, n)),
                                      smt.app("seq.contains", "Bool", seq, smt.SeqUnit(smt.Nth(r, i))))))
    ctx.assume(smt.Forall([i], Implies(And(smt.Cmp("<=", I(0), i), smt.Cmp("<", i, n)),
                                      smt.app("seq.contains", "Bool", r, smt.SeqUnit(smt.Nth(seq, i))))))
    return r


def map_method(it, m, name):
    def mk(fn):
        return Builtin(f"dict.{name}", fn)

    if name == "get":
        def f(k, default=None):
            tk = it.term(k)
            if it.spec_mode:
                if default is None:
                    raise Unsupported("dict.get without default in spec")
                return Ite(smt.Select(m.pres, tk), smt.Select(m.vals, tk), it.term(default))
            if it.truth(smt.Select(m.pres, tk), "get-present"):
                return map_value(it, m, smt.Select(m.vals, tk))
            return default
        return mk(f)
    if name == "pop":
        def f(k, *d):
            tk = it.term(k)
            if it.truth(smt.Select(m.pres, tk), "pop-present"):
                v = map_value(it, m, smt.Select(m.vals, tk))
                m.pres = smt.Store(m.pres, tk, B(False))
                m.keys = None
                return v
            if d:
                return d[0]
            it.raise_(KeyError, k)
        return mk(f)
    if name == "keys":
        return mk(lambda: m)
    if name == "copy":
        def f():
            c = SymMap(m.ksort, m.vsort, m.pres, m.vals, m.keys, m.kbk)
            for a in ("default", "vbk"):
                if hasattr(m, a):
                    setattr(c, a, getattr(m, a))
            return c
        return mk(f)
    if name == "clear":
        def f():
            m.pres = smt.ConstArray(m.ksort, B(False))
            if m.keys is not None:
                m.keys = smt.SeqEmpty(m.ksort)
        return mk(f)
    if name in ("items", "values"):
        return mk(lambda: MapView(m, name))
    raise Unsupported(f"dict method {name} on symbolic dict")


class MapView:
    def __init__(self, m, kind):
        self.m, self.kind = m, kind


def set_method(it, s, name):
    def mk(fn):
        return Builtin(f"set.{name}", fn)

    if name == "add":
        def f(x):
            s.mem = smt.Store(s.mem, it.term(x), B(True))
        return mk(f)
    if name in ("discard", "remove"):
        def f(x):
            s.mem = smt.Store(s.mem, it.term(x), B(False))
        return mk(f)
    if name == "clear":
        def f():
            s.mem = smt.ConstArray(s.esort, B(False))
        return mk(f)
    raise Unsupported(f"set method {name} on symbolic set")


def file_method(it, f, name):
    def mk(fn):
        return Builtin(f"file.{name}", fn)

    lines = f.lines
    n = smt.Len(lines)
    if name == "readline":
        def rl():
            if it.truth(smt.Cmp("<", f.pos, n), "readline-has"):
                v = smt.Nth(lines, f.pos)
                f.pos = smt.Add(f.pos, I(1))
                return T("String", v.sx, f.bk)
            return b"" if f.bk == "bytes" else ""
        return mk(rl)
    if name == "read":
        def rd():
            it.ctx.uf("py_joinlines", [("Seq", "String")], "String")
            rest = smt.Substr(lines, f.pos, smt.Sub(n, f.pos)) if f.pos.sx != "0" else lines
            f.pos = n
            return smt.app("py_joinlines", "String", rest, bk=f.bk)
        return mk(rd)
    if name == "readlines":
        def rls():
            rest = smt.Substr(lines, f.pos, smt.Sub(n, f.pos)) if f.pos.sx != "0" else lines
            f.pos = n
            return SymList(rest, bk=f.bk)
        return mk(rls)
    if name == "close":
        return mk(lambda: None)
    raise Unsupported(f"file method {name}")


def concrete_container_method(it, obj, name, a, k):
    if name in ("append", "extend", "add", "update", "insert", "clear", "copy", "pop", "popitem", "items",
                "keys", "values", "get", "setdefault", "discard", "remove", "sort", "index", "count", "reverse",
                "union", "difference", "intersection", "issubset", "issuperset", "fromkeys", "move_to_end",
                "popleft", "appendleft", "extendleft", "rotate"):
        if name == "sort":
            if any(is_t(x) for x in obj):
                raise Unsupported("sort of list with symbolic members")
            key = k.get("key")
            if key is not None:
                obj.sort(key=lambda x: it.call(key, [x], {}))
            else:
                obj.sort()
            return None
        if name in ("get", "pop", "setdefault") and a and is_t(a[0]) and isinstance(obj, dict):
            for kk in list(obj):
                c = equal(it, a[0], kk)
                if c is True or (is_t(c) and it.truth(c, "dict-key")):
                    if name == "pop":
                        return obj.pop(kk)
                    return obj[kk]
            if name == "get":
                return a[1] if len(a) > 1 else None
            if name == "pop":
                if len(a) > 1:
                    return a[1]
                it.raise_(KeyError, a[0])
            raise Unsupported("setdefault with symbolic key")
        if name in ("index", "count", "remove", "discard", "add", "union", "difference", "intersection") and \
                (any(is_t(x) for x in a) or (not isinstance(obj, dict) and any(is_t(x) for x in obj))):
            raise Unsupported(f"{name} with symbolic members")
        if name == "extend" and a and isinstance(a[0], (GenObj, SymList)):
            if isinstance(a[0], SymList):
                raise Unsupported("extend concrete list with symbolic list")
            obj.extend(it.iterate_concrete(a[0]))
            return None
        try:
            return getattr(obj, name)(*a, **k)
        except KeyError as e:
            it.raise_(KeyError, *e.args)
        except IndexError as e:
            it.raise_(IndexError, str(e))
        except ValueError as e:
            it.raise_(ValueError, str(e))
        except TypeError as e:
            raise Unsupported(f"container method {name}: {e}")
    raise Unsupported(f"container method {name}")


# ---------------------------------------------------------------------------
# with-statement, construction, exceptions, python callables
# ---------------------------------------------------------------------------

def with_stmt(it, st, fr):
    entered = []
    for item in st.items:
        cm = it.eval(item.context_expr, fr)
        if isinstance(cm, SymFile):
            if item.optional_vars is not None:
                it.assign(item.optional_vars, cm, fr)
            entered.append(("file", cm))
        elif hasattr(cm, "vc_enter"):
            v = cm.vc_enter(it)
            if item.optional_vars is not None:
                it.assign(item.optional_vars, v, fr)
            entered.append(("cm", cm))
        elif isinstance(cm, GenObj):
            # @contextlib.contextmanager over a repository generator: split at its single yield
            cm = GenCM(it, cm, st)
            v = cm.vc_enter(it)
            if item.optional_vars is not None:
                it.assign(item.optional_vars, v, fr)
            entered.append(("cm", cm))
        else:
            raise Unsupported(f"with-statement over {type(cm).__name__} (line {st.lineno})")
    try:
        it.exec_block(st.body, fr)
    except PyRaise as pr:
        suppressed = False
        for kind, cm in reversed(entered):
            if kind == "cm":
                if cm.vc_exit(it, None if suppressed else pr.exc) is True:
                    suppressed = True
        if not suppressed:
            raise
    except BaseException:
        for kind, cm in reversed(entered):
            if kind == "cm":
                cm.vc_exit(it, None)
        raise
    else:
        for kind, cm in reversed(entered):
            if kind == "cm":
                cm.vc_exit(it, None)


class GenCM:
    """a generator-based context manager of the repository, executed in two halves.  Supported shapes of the generator body:
    `pre...; yield [v]; post...`   and   `pre...; try: tpre...; yield [v]; tpost...  except/finally ...; post...`
    (one yield, as a statement).  An exception leaving the with-body is raised at the yield: it runs the try's handlers and
    finally (it is suppressed if a handler swallows it); without a try it just propagates."""

    def __init__(self, it, g, st):
        import ast as _ast
        self.g = g
        body = [x for x in g.func.node.body
                if not (isinstance(x, _ast.Expr) and isinstance(x.value, _ast.Constant))]

        def is_yield(x):
            return isinstance(x, _ast.Expr) and isinstance(x.value, _ast.Yield)

        self.tr = None
        idx = [i for i, x in enumerate(body) if is_yield(x)]
        if len(idx) == 1:
            self.pre, self.y, self.post = body[:idx[0]], body[idx[0]], body[idx[0] + 1:]
            self.tpre = self.tpost = []
        else:
            tries = [i for i, x in enumerate(body) if isinstance(x, _ast.Try) and any(is_yield(y) for y in x.body)]
            if len(tries) != 1 or idx:
                raise Unsupported(f"with-statement over a generator whose yield is not at the top of its body or of one try "
                                  f"(line {st.lineno})")
            tr = body[tries[0]]
            j = [i for i, x in enumerate(tr.body) if is_yield(x)]
            if len(j) != 1:
                raise Unsupported("generator context manager with several yields")
            self.tr = tr
            self.pre, self.post = body[:tries[0]], body[tries[0] + 1:]
            self.tpre, self.y, self.tpost = tr.body[:j[0]], tr.body[j[0]], tr.body[j[0] + 1:]
        n_y = sum(1 for x in _ast.walk(g.func.node) if isinstance(x, (_ast.Yield, _ast.YieldFrom)))
        if n_y != 1:
            raise Unsupported("generator context manager with several yields")

    def _run(self, it, stmts):
        fr = self.g.frame
        it.frames.append(fr)
        try:
            it.exec_block(stmts, fr)
        finally:
            it.frames.pop()

    def vc_enter(self, it):
        fr = self.g.frame
        got = []
        fr.yield_sink = got.append
        self._run(it, list(self.pre) + list(self.tpre) + [self.y])
        return got[0] if got else None

    def vc_exit(self, it, exc):
        import ast as _ast
        fr = self.g.frame
        if exc is None:
            if self.tr is None:
                self._run(it, self.post)
            else:
                rest = _ast.Try(body=list(self.tpost) or [_ast.Pass()], handlers=self.tr.handlers, orelse=self.tr.orelse,
                                finalbody=self.tr.finalbody)
                _ast.copy_location(rest, self.tr)
                _ast.fix_missing_locations(rest)
                self._run(it, [rest] + list(self.post))
            return False
        if self.tr is None:
            return False                      # no handler around the yield: the exception goes through
        fr.env["__pending_exc__"] = exc
        rz = _ast.Raise(exc=_ast.Name(id="__pending_exc__", ctx=_ast.Load()), cause=None)
        rest = _ast.Try(body=[rz], handlers=self.tr.handlers, orelse=[], finalbody=self.tr.finalbody)
        _ast.copy_location(rest, self.tr)
        _ast.fix_missing_locations(rest)
        self._run(it, [rest] + list(self.post))    # raises PyRaise if a handler (re-)raises
        return True                            # a handler swallowed it


def construct(it, cls, args, kwargs, node):
    key = (cls.module.name, f"{cls.name}.__init__")
    o = Obj(cls.name, module=cls.module)
    c = it.reg.lookup(key, it.contract)
    try:
        init = cls.module.find(f"{cls.name}.__init__")
    except Unsupported:
        init = None
    if c is not None:
        rf = RepoFunc(cls.module, f"{cls.name}.__init__", init, cls=cls.name)
        it.apply_contract(c, rf, [o] + list(args), kwargs, node)
        return o
    if init is None:
        return o
    rf = RepoFunc(cls.module, f"{cls.name}.__init__", init, cls=cls.name)
    if key in it.inline or "__init__" in it.inline:
        it.run_function(rf, [o] + list(args), kwargs)
        return o
    from .interp import NoContract
    raise NoContract(f"NO-CONTRACT constructor {cls.module.name}.{cls.name}")


def make_exc(it, cls, args, kwargs):
    if cls in PS_EXC_BY_CLS:
        name, sig = PS_EXC_BY_CLS[cls]
        fields = {}
        args = list(args)
        for i, (p, d) in enumerate(sig):
            if i < len(args):
                fields[p] = args[i]
            elif p in kwargs:
                fields[p] = kwargs[p]
            elif d == "!":
                it.raise_(TypeError, f"{name}() missing argument {p}")
            else:
                fields[p] = d
        if len(args) > len(sig) or set(kwargs) - {p for p, _ in sig}:
            it.raise_(TypeError, f"{name}() bad arguments")
        return ExcVal(cls, (), fields)
    if kwargs:
        raise Unsupported("exception constructor with keywords")
    fields = {}
    if issubclass(cls, OSError) and len(args) >= 1 and (is_t(args[0]) or isinstance(args[0], int)):
        fields["errno"] = args[0]
    return ExcVal(cls, args, fields)


PURE_OK = set()


def _register_pure():
    import os.path
    import struct
    import base64
    import socket
    import enum
    import re
    for f in (re.search, re.match, re.fullmatch, re.findall, re.sub, re.split):      # on concrete arguments only
        PURE_OK.add(f)
    for f in (os.path.basename, os.path.join, os.path.dirname, os.path.isabs, struct.pack, struct.unpack,
              base64.b16decode, collections.namedtuple, collections.defaultdict, collections.OrderedDict, collections.deque,
              socket.AddressFamily, socket.SocketKind, object):
        PURE_OK.add(f)


_register_pure()


def call_python(it, f, args, kwargs, node):
    import re
    import enum
    if f is re.compile:
        return RegexObj(args[0], args[1] if len(args) > 1 else kwargs.get("flags", 0))
    has_sym = any(is_t(x) or isinstance(x, (SymList, SymMap, FStr, SymSet)) for x in list(args) + list(kwargs.values()))
    if isinstance(f, type) and issubclass(f, enum.Enum):
        if has_sym:
            raise Unsupported(f"enum lookup {f.__name__} on symbolic value")
        try:
            return f(*args)
        except ValueError as e:
            it.raise_(ValueError, str(e))
    if isinstance(getattr(f, "__self__", None), (re.Match, re.Pattern)) and not has_sym:
        return f(*args, **kwargs)       # method of a concrete match/pattern object
    if f in PURE_OK or (isinstance(f, type) and f in (object,)):
        if has_sym:
            raise Unsupported(f"library function {getattr(f, '__name__', f)} on symbolic arguments")
        if f is collections.defaultdict and args and isinstance(args[0], Builtin):
            b = args[0]
            return collections.defaultdict(lambda: b.fn())
        try:
            return f(*args, **kwargs)
        except ValueError as e:
            it.raise_(ValueError, str(e))
        except TypeError as e:
            it.raise_(TypeError, str(e))
        except Exception as e:  # struct.error, binascii.Error
            it.raise_(ValueError, str(e))
    raise Unsupported(f"call to unmodelled python callable {getattr(f, '__qualname__', f)!r} "
                      f"(line {getattr(node, 'lineno', '?')})")


# ---------------------------------------------------------------------------
# builtins
# ---------------------------------------------------------------------------

def py_int(it, v, base=None):
    if base is not None:
        if is_t(v):
            if base == 16:
                it.ctx.uf("py_int16", ["String"], "Int")
                ok = in_re(v, '(re.+ (re.union (re.range "0" "9") (re.range "a" "f") (re.range "A" "F")))')
                if it.spec_mode or it.truth(ok, "int16-valid"):
                    r = smt.app("py_int16", "Int", v)
                    it.ctx.assume(smt.Cmp(">=", r, I(0)))
                    return r
                return int_fallback(it, v, "py_int16x")
            if base == 8:
                it.ctx.uf("py_int8", ["String"], "Int")
                ok = in_re(v, '(re.+ (re.range "0" "7"))')
                if it.spec_mode or it.truth(ok, "int8-valid"):
                    r = smt.app("py_int8", "Int", v)
                    it.ctx.assume(smt.Cmp(">=", r, I(0)))
                    return r
                return int_fallback(it, v, "py_int8x")
            raise Unsupported("int(x, base) symbolic")
        try:
            return int(v, base)
        except ValueError as e:
            it.raise_(ValueError, str(e))
    if is_t(v):
        if v.sort == "Int":
            return v
        if v.sort == "Bool":
            return Ite(v, I(1), I(0))
        if v.sort == "Real":
            fl = smt.app("to_int", "Int", v)
            return Ite(smt.Cmp(">=", v, R(0)), fl, smt.Neg(smt.app("to_int", "Int", smt.Neg(v))))
        if v.sort == "String":
            return int_of_string(it, v)
        raise Unsupported(f"int() of {v.sort}")
    if isinstance(v, fractions.Fraction):
        return int(v)
    if isinstance(v, (SymList, list, tuple, dict)) or v is None:
        it.raise_(TypeError, "int() argument")
    try:
        return int(v)
    except ValueError as e:
        it.raise_(ValueError, str(e))
    except TypeError as e:
        it.raise_(TypeError, str(e))


def int_of_string(it, v):
    """int(s) for a str/bytes term.  pure digit string: py_intval(s) == str.to_int(s);
    digits with surrounding whitespace: py_intval(s) >= 0; anything else either
    raises ValueError or yields some integer (sign, underscores ...: over-approximation)."""
    it.ctx.uf("py_intval", ["String"], "Int")
    val = smt.app("py_intval", "Int", v)
    if it.spec_mode:
        return val
    pure = in_re(v, digits_re())
    if it.truth(pure, "int-digits"):
        it.ctx.assume(smt.Cmp(">=", val, I(0)))
        it.ctx.assume(Eq(val, smt.app("str.to_int", "Int", v)))
        return val
    ws = f"(re.* {ws_re()})"
    if it.truth(in_re(v, f"(re.++ {ws} {digits_re()} {ws})"), "int-ws-digits"):
        it.ctx.assume(smt.Cmp(">=", val, I(0)))
        return val
    return int_fallback(it, v, "py_int_other")


def int_fallback(it, v, fn):
    """int() of a string that is not a plain digit string: either ValueError or
    some integer (whitespace, sign, underscores ...): over-approximation"""
    if it.truth(it.fresh("int_parses", "Bool"), "int-other-parses"):
        it.ctx.uf(fn, ["String"], "Int")
        return smt.app(fn, "Int", v)
    it.raise_(ValueError, "invalid literal for int()")


def py_float(it, v):
    if is_t(v):
        if v.sort == "Real":
            return v
        if v.sort in ("Int", "Bool"):
            return lift(py_int(it, v), "Real")
        if v.sort == "String":
            it.ctx.uf("py_intval", ["String"], "Int")
            val = smt.app("py_intval", "Int", v)
            if it.spec_mode:
                return lift(val, "Real")
            if it.truth(in_re(v, digits_re()), "float-digits"):
                it.ctx.assume(smt.Cmp(">=", val, I(0)))
                it.ctx.assume(Eq(val, smt.app("str.to_int", "Int", v)))
                return lift(val, "Real")
            ws = f"(re.* {ws_re()})"
            if it.truth(in_re(v, f"(re.++ {ws} {digits_re()} {ws})"), "float-ws-digits"):
                it.ctx.assume(smt.Cmp(">=", val, I(0)))
                return lift(val, "Real")
            if it.truth(it.fresh("float_parses", "Bool"), "float-other-parses"):
                it.ctx.uf("py_float_other", ["String"], "Real")
                return smt.app("py_float_other", "Real", v)
            it.raise_(ValueError, "could not convert string to float")
        raise Unsupported(f"float() of {v.sort}")
    if isinstance(v, (int, float, fractions.Fraction)) and not isinstance(v, bool):
        from .interp import _frac
        return fractions.Fraction(_frac(v))
    if isinstance(v, (str, bytes)):
        try:
            return fractions.Fraction(repr(float(v)))
        except ValueError as e:
            it.raise_(ValueError, str(e))
    if v is None or isinstance(v, (list, tuple, dict, SymList)):
        it.raise_(TypeError, "float() argument")
    raise Unsupported(f"float() of {type(v).__name__}")


ROUND_ANCHORS = [0, 100]


def py_round(it, x, nd=None):
    if not is_t(x):
        if isinstance(x, fractions.Fraction):
            if nd is None:
                return round(x)
            return fractions.Fraction(round(x * 10 ** nd), 10 ** nd)
        return round(x, nd) if nd is not None else round(x)
    if nd is None or is_t(nd):
        raise Unsupported("round(x) to int / symbolic digits")
    x = lift(x, "Real")
    r = it.fresh("round", "Real")
    half = R(fractions.Fraction(5, 10 ** (nd + 1)))
    c = it.ctx
    c.assume(smt.Cmp("<=", smt.Sub(r, x), half))
    c.assume(smt.Cmp("<=", smt.Sub(x, r), half))
    # monotone with fixpoints at multiples of 10^-nd: instances for the anchors
    for a in ROUND_ANCHORS:
        c.assume(Implies(smt.Cmp(">=", x, R(a)), smt.Cmp(">=", r, R(a))))
        c.assume(Implies(smt.Cmp("<=", x, R(a)), smt.Cmp("<=", r, R(a))))
    # r is a multiple of 10^-nd
    k = it.fresh("round_k", "Int")
    c.assume(Eq(smt.Mul(r, R(10 ** nd)), lift(k, "Real")))
    it.ctx.ghost.setdefault("__rounds__", []).append((x, r))
    return r


def py_max(it, *a, **k):
    if len(a) == 1:
        a = it.iterate_concrete(a[0])
    if k:
        raise Unsupported("max with key")
    if not a:
        it.raise_(ValueError, "max() arg is an empty sequence")
    acc = a[0]
    for x in a[1:]:
        if is_t(acc) or is_t(x):
            ta, tx = it.term(acc), it.term(x)
            ta, tx, _ = smt.num2(ta, tx)
            acc = Ite(smt.Cmp(">", tx, ta), tx, ta)
        else:
            from .interp import _frac
            acc = x if _frac(x) > _frac(acc) else acc
    return acc


def py_min(it, *a, **k):
    if len(a) == 1:
        a = it.iterate_concrete(a[0])
    if k:
        raise Unsupported("min with key")
    if not a:
        it.raise_(ValueError, "min() arg is an empty sequence")
    acc = a[0]
    for x in a[1:]:
        if is_t(acc) or is_t(x):
            ta, tx = it.term(acc), it.term(x)
            ta, tx, _ = smt.num2(ta, tx)
            acc = Ite(smt.Cmp("<", tx, ta), tx, ta)
        else:
            from .interp import _frac
            acc = x if _frac(x) < _frac(acc) else acc
    return acc


def py_sum(it, xs, start=0):
    acc = start
    for x in it.iterate_concrete(xs):
        acc = it.binop("Add", acc, x)
    return acc


def py_len(it, v):
    if isinstance(v, SymList):
        return smt.Len(v.seq)
    if is_t(v):
        if v.sort == "String" or v.sort[0] == "Seq":
            return smt.Len(v)
        if v.sort[0] == "Tup":
            return len(v.sort[1])
    if isinstance(v, SymMap):
        if v.keys is None:
            raise Unsupported("len of symbolic dict without key sequence")
        return smt.Len(v.keys)
    if isinstance(v, FStr):
        return smt.Len(it.fstr_term(v))
    try:
        return len(v)
    except TypeError as e:
        if isinstance(v, (int, float)) or v is None:
            it.raise_(TypeError, str(e))
        raise Unsupported(f"len of {type(v).__name__}")


def py_isinstance(it, v, cls):
    if isinstance(cls, tuple):
        rs = [py_isinstance(it, v, c) for c in cls]
        return any(rs)
    cls = {"int": int, "float": float, "str": str, "bytes": bytes, "list": list, "tuple": tuple, "dict": dict,
           "set": set, "frozenset": frozenset, "bool": bool}.get(getattr(cls, "name", None), cls) \
        if isinstance(cls, Builtin) else cls
    if isinstance(cls, RepoClass):
        return isinstance(v, Obj) and v.cls == cls.name
    if isinstance(v, ExcVal):
        return isinstance(cls, type) and issubclass(v.cls, cls)
    if is_t(v):
        if v.sort == "Int":
            return cls in (int, object)
        if v.sort == "Real":
            return cls in (float, object)
        if v.sort == "Bool":
            return cls in (bool, int, object)
        if v.sort == "String":
            return cls is (bytes if v.bk == "bytes" else str) or cls is object
        return False
    if isinstance(v, SymList):
        return cls is (tuple if v.is_tuple else list)
    if isinstance(v, SymMap):
        return cls is dict
    if isinstance(v, SymSet):
        return cls is set
    if isinstance(v, FStr):
        return cls is str
    if isinstance(v, fractions.Fraction):
        return cls in (float, object)
    if isinstance(v, Obj):
        return False
    if isinstance(cls, type):
        return isinstance(v, cls)
    raise Unsupported("isinstance with unknown class")


def py_sorted(it, xs, **k):
    if isinstance(xs, SymList):
        if k:
            raise Unsupported("sorted(key=) on symbolic list")
        return SymList(sorted_term(it, xs.seq), bk=xs.bk)
    vals = it.iterate_concrete(xs)
    if any(is_t(v) for v in vals):
        raise Unsupported("sorted() of list with symbolic members")
    key = k.get("key")
    try:
        if key is not None:
            return sorted(vals, key=lambda x: it.call(key, [x], {}), reverse=k.get("reverse", False))
        return sorted(vals, reverse=k.get("reverse", False))
    except TypeError as e:
        raise Unsupported(f"sorted: {e}")


def py_set(it, xs=()):
    if isinstance(xs, (SymList, SymMap, SymSet)):
        return set_from_sym(it, xs)
    vals = it.iterate_concrete(xs)
    if any(is_t(v) for v in vals):
        # finite set with symbolic members: de-duplicate by forking on equalities; the result
        # is kept as a list (iteration order of a set is arbitrary anyway)
        if it.spec_mode or len(vals) > 6:
            raise Unsupported("set() with symbolic members")
        out = SetList()
        for v in vals:
            dup = False
            for w in out:
                e = equal(it, v, w)
                if e is True or (is_t(e) and it.truth(e, "set-dup")):
                    dup = True
                    break
            if not dup:
                out.append(v)
        return out
    try:
        return set(vals)
    except TypeError:
        raise Unsupported("set() of unhashable values")


class SetList(list):
    """a small set with symbolic members (pairwise distinct on this path)"""


def set_from_sym(it, xs):
    if isinstance(xs, SymSet):
        return SymSet(xs.esort, xs.mem)
    if isinstance(xs, SymMap):
        return SymSet(xs.ksort, xs.pres)
    # set(list): membership array defined by containment
    es = xs.esort
    arr = it.fresh("setof", ("Array", es, "Bool"))
    it.ctx.counter["_q"] += 1
    bv = T(es, f"q{it.ctx.counter['_q']}_e")
    it.ctx.assume(smt.Forall([bv], Eq(smt.Select(arr, bv), smt.app("seq.contains", "Bool", xs.seq, smt.SeqUnit(bv)))))
    return SymSet(es, arr)


def py_list(it, xs=()):
    if isinstance(xs, SymList):
        return SymList(xs.seq, xs.bk)
    return list(it.iterate_concrete(xs))


def py_tuple(it, xs=()):
    if isinstance(xs, SymList):
        return SymList(xs.seq, xs.bk, is_tuple=True)
    return tuple(it.iterate_concrete(xs))


def py_zip(it, *xs):
    return list(zip(*[it.iterate_concrete(x) for x in xs]))


def py_map(it, f, *xs):
    if len(xs) == 1 and isinstance(xs[0], SymList):
        return SymMapped(f, xs[0])
    cols = [it.iterate_concrete(x) for x in xs]
    return [it.call(f, list(tup), {}) for tup in zip(*cols)]


class SymMapped:
    """map(f, symbolic list): only consumable by unpacking to a fixed arity"""

    def __init__(self, f, sl):
        self.f, self.sl = f, sl

    def __iter__(self):
        raise Unsupported("iteration over map() of a symbolic list")


def py_range(it, *a):
    if any(is_t(x) for x in a):
        if len(a) == 1:
            return SymRange(I(0), it.term(a[0]))
        if len(a) == 2:
            return SymRange(it.term(a[0]), it.term(a[1]))
        raise Unsupported("range with symbolic step")
    return range(*a)


def py_str(it, v=""):
    if isinstance(v, str):
        return v
    if is_t(v) and v.sort == "Int":
        it.ctx.uf("py_str_of_int", ["Int"], "String")
        return smt.app("py_str_of_int", "String", v, bk="str")
    if isinstance(v, (int,)) and not isinstance(v, bool):
        return str(v)
    return Opaque("str")


def py_getattr(it, obj, name, *d):
    if is_t(name):
        raise Unsupported("getattr with symbolic name")
    return it.lib.getattr_(it, obj, name, None, d[0] if d else None, bool(d))


def py_hasattr(it, obj, name):
    if name == "__iter__" and not isinstance(obj, Obj):
        if is_t(obj):
            return obj.sort == "String" or (not isinstance(obj.sort, str) and obj.sort[0] in ("Seq", "Tup"))
        if isinstance(obj, (SymList, SymMap, SymSet, FStr, GenObj)):
            return True
        return hasattr(obj, "__iter__")
    try:
        it.lib.getattr_(it, obj, name, None, None, False)
        return True
    except PyRaise as pr:
        if issubclass(pr.exc.cls, AttributeError):
            return False
        raise


def py_dict(it, *a, **k):
    d = {}
    if a:
        src = a[0]
        if isinstance(src, dict):
            d.update(src)
        elif isinstance(src, SymMap):
            return map_method(it, src, "copy").fn()
        else:
            for kk, vv in it.iterate_concrete(src):
                d[kk] = vv
    d.update(k)
    return d


def py_abs(it, x):
    if is_t(x):
        return Ite(smt.Cmp("<", x, lift(0, x.sort)), smt.Neg(x), x)
    return abs(x)


def py_bool(it, x=False):
    if is_t(x):
        return it.as_bool(x)
    return it.truth(x)


def py_enumerate(it, xs, start=0):
    return list(enumerate(it.iterate_concrete(xs), start))


def py_any(it, xs):
    for x in it.iterate_concrete(xs):
        if it.truth(x, "any"):
            return True
    return False


def py_all(it, xs):
    for x in it.iterate_concrete(xs):
        if not it.truth(x, "all"):
            return False
    return True


def make_builtins(it):
    def b(name, fn):
        return Builtin(name, fn)

    tbl = {
        "len": b("len", lambda v: py_len(it, v)),
        "int": b("int", lambda v=0, base=None: py_int(it, v, base)),
        "float": b("float", lambda v=0.0: py_float(it, v)),
        "str": b("str", lambda v="": py_str(it, v)),
        "bytes": b("bytes", lambda *a: (_ for _ in ()).throw(Unsupported("bytes() constructor"))),   # isinstance() only
        "repr": b("repr", lambda v: Opaque("repr")),
        "bool": b("bool", lambda v=False: py_bool(it, v)),
        "round": b("round", lambda x, nd=None: py_round(it, x, nd)),
        "max": b("max", lambda *a, **k: py_max(it, *a, **k)),
        "min": b("min", lambda *a, **k: py_min(it, *a, **k)),
        "sum": b("sum", lambda xs, start=0: py_sum(it, xs, start)),
        "abs": b("abs", lambda x: py_abs(it, x)),
        "sorted": b("sorted", lambda xs, **k: py_sorted(it, xs, **k)),
        "set": b("set", lambda xs=(): py_set(it, xs)),
        "frozenset": b("frozenset", lambda xs=(): frozenset(py_set(it, xs))),
        "list": b("list", lambda xs=(): py_list(it, xs)),
        "tuple": b("tuple", lambda xs=(): py_tuple(it, xs)),
        "dict": b("dict", lambda *a, **k: py_dict(it, *a, **k)),
        "zip": b("zip", lambda *xs: py_zip(it, *xs)),
        "map": b("map", lambda f, *xs: py_map(it, f, *xs)),
        "range": b("range", lambda *a: py_range(it, *a)),
        "enumerate": b("enumerate", lambda xs, start=0: py_enumerate(it, xs, start)),
        "isinstance": b("isinstance", lambda v, c: py_isinstance(it, v, c)),
        "hasattr": b("hasattr", lambda o, n: py_hasattr(it, o, n)),
        "getattr": b("getattr", lambda o, n, *d: py_getattr(it, o, n, *d)),
        "callable": b("callable", lambda f: isinstance(f, (RepoFunc, BoundMethod, Builtin, EnvFunc)) or callable(f)),
        "any": b("any", lambda xs: py_any(it, xs)),
        "all": b("all", lambda xs: py_all(it, xs)),
        "reversed": b("reversed", lambda xs: list(reversed(it.iterate_concrete(xs)))),
        "type": b("type", lambda v: Opaque("type")),
        "id": b("id", lambda v: id(v)),
        "print": b("print", lambda *a, **k: None),
        "object": object,
        "None": None, "True": True, "False": False, "NotImplemented": NotImplemented,
    }
    import builtins as _b
    for n in dir(_b):
        o = getattr(_b, n)
        if isinstance(o, type) and issubclass(o, BaseException):
            tbl[n] = o
    return tbl
