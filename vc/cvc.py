"""cvc - verification-condition generator for the real C functions of psutil's extension.

Input: the macro-expanded, typed AST clang prints for the function as it stands in the working tree
(`clang -fsyntax-only -Xclang -ast-dump=json`, same macro set as setup.py uses on Linux).  Nothing is
re-typed by hand: statements and expressions are executed symbolically straight from that AST.

Semantics: fixed-width two's complement bit-vectors (z3 BitVec; the same queries are re-run on cvc5 from
the SMT-LIB text).  Paths are enumerated by re-execution under a decision prefix; loops are cut by an
invariant given in the sidecar contract.  External functions (CPython C-API, libc, syscalls) are *contracts*
(EXTERN below): their preconditions become obligations at the call site, their postconditions are assumed.

Obligations generated automatically:  signed overflow, shift UB, division by zero, array index / pointer
arithmetic in bounds, NUL-terminated argument where a C-string is expected, reference ownership at
Py_DECREF (no double release / use after release), preconditions of externals.  Functional postconditions
come from the contract's `post(exit)` callback.
"""
import json
import os
import re
import subprocess
import sysconfig
import time
from concurrent.futures import ThreadPoolExecutor

from . import smt

Z = smt.z3api()


class Unsupported(Exception):
    pass


# --------------------------------------------------------------------------------------------------------
# clang front end
# --------------------------------------------------------------------------------------------------------

def repo():
    return os.environ.get("VERIF_REPO", "/repo")


def psutil_version():
    txt = open(os.path.join(repo(), "psutil/__init__.py")).read()
    m = re.search(r'^__version__ = "([\d.]+)"', txt, re.M)
    return int(m.group(1).replace(".", "")) if m else 700


def cflags():
    # the macro set setup.py passes on Linux/CPython (abi3 build)
    return ["-I" + sysconfig.get_paths()["include"], "-DPSUTIL_POSIX=1", "-DPSUTIL_LINUX=1",
            f"-DPSUTIL_VERSION={psutil_version()}", "-DPSUTIL_SIZEOF_PID_T=4", "-DPy_LIMITED_API=0x03060000"]


_AST = {}


def _fill_lines(n, st):
    """clang omits 'line' when equal to the previous one in dump order: rebuild it in document order"""
    for key in ("loc", "range"):
        d = n.get(key)
        if isinstance(d, dict):
            for sub in ([d] if key == "loc" else [d.get("begin", {}), d.get("end", {})]):
                for e in (sub, sub.get("spellingLoc", {}), sub.get("expansionLoc", {})):
                    if isinstance(e, dict) and "line" in e and "includedFrom" not in e:
                        st[0] = e["line"]
    n["_line"] = st[0]
    for c in n.get("inner", []):
        if isinstance(c, dict):
            _fill_lines(c, st)


def dump(cfile, filt):
    key = (cfile, filt)
    if key in _AST:
        return _AST[key]
    cmd = ["clang", "-fsyntax-only", "-Xclang", "-ast-dump=json", "-Xclang", f"-ast-dump-filter={filt}"] + cflags() + [cfile]
    p = subprocess.run(cmd, capture_output=True, text=True, cwd=repo(), timeout=300)
    if p.returncode != 0:
        raise RuntimeError(f"clang failed on {cfile}: {p.stderr[-2000:]}")
    s = p.stdout
    dec = json.JSONDecoder()
    i, out = 0, {}
    while i < len(s):
        while i < len(s) and s[i].isspace():
            i += 1
        if i >= len(s):
            break
        o, i = dec.raw_decode(s, i)
        if o.get("kind") == "FunctionDecl" and any(c.get("kind") == "CompoundStmt" for c in o.get("inner", [])):
            _fill_lines(o, [o.get("loc", {}).get("line", 0)])
            out[o["name"]] = o
    _AST[key] = out
    return out


def dump_many(pairs):
    with ThreadPoolExecutor(8) as ex:
        list(ex.map(lambda p: dump(*p), pairs))


# --------------------------------------------------------------------------------------------------------
# types
# --------------------------------------------------------------------------------------------------------
INTS = {"int": (32, True), "unsigned int": (32, False), "unsigned": (32, False), "long": (64, True),
        "unsigned long": (64, False), "short": (16, True), "unsigned short": (16, False), "char": (8, True),
        "signed char": (8, True), "unsigned char": (8, False), "long long": (64, True),
        "unsigned long long": (64, False), "_Bool": (8, False),
        # typedefs that clang leaves undesugared in some positions (x86-64 Linux)
        "pid_t": (32, True), "__pid_t": (32, True), "size_t": (64, False), "Py_ssize_t": (64, True),
        "ssize_t": (64, True), "id_t": (32, False), "__cpu_mask": (64, False), "uid_t": (32, False),
        "int32_t": (32, True), "uint32_t": (32, False), "__priority_which_t": (32, False), "socklen_t": (32, False),
        "__u32": (32, False), "__u16": (16, False), "__u8": (8, False), "sa_family_t": (16, False)}
SIZEOF = {"cpu_set_t": 128, "struct sockaddr_in": 16, "struct sockaddr_in6": 28, "struct ifreq": 40,
          "struct ethtool_cmd": 44}


def qt(n):
    t = n.get("type", {})
    return t.get("desugaredQualType") or t.get("qualType") or ""


def strip_q(s):
    s = re.sub(r"\b(const|volatile|restrict|__restrict)\b", "", s)
    return re.sub(r"\s+", " ", s).strip()


def tkind(s):
    """('int', bits, signed) | ('ptr', pointee) | ('arr', elem, n) | ('struct', name) | ('double',) | ('void',)"""
    s = strip_q(s)
    m = re.match(r"^typeof ?\((.*)\)(.*)$", s)
    if m:
        raise Unsupported("typeof type without desugaring: " + s)
    if s.endswith("*"):
        return ("ptr", s[:-1].strip())
    m = re.match(r"^(.*?)\[(\d+)\]$", s)
    if m:
        return ("arr", m.group(1).strip(), int(m.group(2)))
    if s in INTS:
        return ("int",) + INTS[s]
    if s.startswith("enum "):
        return ("int", 32, False)
    if s in ("double", "float"):
        return ("double",)
    if s == "void":
        return ("void",)
    if s.startswith("struct ") or s.startswith("union ") or s in SIZEOF or s in ("PyObject", "cpu_set_t"):
        return ("struct", s)
    if "(" in s:
        return ("func", s)
    raise Unsupported("type " + s)


def sizeof_type(s):
    k = tkind(s)
    if k[0] == "int":
        return k[1] // 8
    if k[0] == "ptr":
        return 8
    if k[0] == "arr":
        return sizeof_type(k[1]) * k[2]
    if k[0] == "struct" and k[1] in SIZEOF:
        return SIZEOF[k[1]]
    raise Unsupported("sizeof " + s)


# --------------------------------------------------------------------------------------------------------
# values
# --------------------------------------------------------------------------------------------------------

class IV:
    __slots__ = ("t", "bits", "signed")

    def __init__(self, t, bits, signed):
        self.t, self.bits, self.signed = t, bits, signed


class DV:            # a double computed from an integer (only carried, never computed with)
    def __init__(self, src):
        self.src = src


class PV:
    """pointer: obj None = NULL; off in elements of obj (int or BitVec 64); cond = z3 Bool for 'non-NULL iff'"""
    __slots__ = ("obj", "off", "cond")

    def __init__(self, obj, off=0, cond=None):
        self.obj, self.off, self.cond = obj, off, cond


class FuncRef:
    def __init__(self, name):
        self.name = name


class Cell:
    def __init__(self, ctype, value=None, name=""):
        self.ctype, self.value, self.name = ctype, value, name

    def get(self, I):
        if self.value is None:
            self.value = I.fresh_of_type(self.ctype, self.name or "uninit")
        return self.value

    def set(self, I, v):
        self.value = v


class Mem:
    n_id = 0

    def __init__(self, kind, name="", **kw):
        Mem.n_id += 1
        self.kind, self.name = kind, name
        self.__dict__.update(kw)

    def __repr__(self):
        return f"<{self.kind} {self.name}>"


class ElemRef:
    def __init__(self, arr, idx, bits, signed):
        self.arr, self.idx, self.bits, self.signed = arr, idx, bits, signed

    def get(self, I):
        I.bounds(self.arr, self.idx, "read")
        a = self.arr
        if a.content is None:
            raise Unsupported("read through opaque pointer " + a.name)
        return IV(Z.Select(a.content, bv64(self.idx)), self.bits, self.signed)

    def set(self, I, v):
        I.bounds(self.arr, self.idx, "write")
        a = self.arr
        if a.const:
            I.oblige("write to a string literal", "ub", Z.BoolVal(False))
        a.content = Z.Store(a.content, bv64(self.idx), v.t)
        if Z.is_bv_value(v.t) and v.t.as_long() == 0:
            a.nul_w.append(self.idx)


def bv64(x):
    return Z.BitVecVal(x, 64) if isinstance(x, int) else x


def bvc(v, bits):
    return Z.BitVecVal(v, bits)


class PathEnd(Exception):
    pass


class Infeasible(PathEnd):
    pass


class ReturnExc(Exception):
    def __init__(self, v):
        self.v = v


class GotoExc(Exception):
    def __init__(self, label):
        self.label = label


class BreakExc(Exception):
    pass


class ContinueExc(Exception):
    pass


class RestartVerify(Exception):
    """the contract learned something about the function's loops: enumerate its paths again"""


class LoopCut:
    """inv(I) -> [(name, bool | z3 Bool)] evaluated on the current state; havoc(I) assigns the loop-modified
    state its arbitrary-iteration value (ints are havocked automatically)."""

    def __init__(self, inv=None, havoc=None, ptrs=None, arrays=(), dead=(), cursors=None, lemmas=None, note=""):
        self.inv, self.havoc, self.note = inv or (lambda I: []), havoc, note
        self.ptrs = ptrs or {}          # name -> fn(I) -> PV : value of a loop-carried pointer as a function of the state
        self.arrays = tuple(arrays)     # local arrays whose content the loop rewrites (havocked)
        self.lemmas = lemmas            # fn(I) -> [z3 Bool]: instances of the defining axioms of ghost functions, assumed at
                                        # the loop head and again before the invariant is re-checked
        self.cursors = cursors or {}    # name -> (make(I) -> PV, holds(I, PV) -> bool): list cursors; invariant = type-level
                                        # predicate ("NULL or a node of the library-owned list"), havocked by make()
        self.dead = tuple(dead)         # pointers never read before being assigned in the body: poisoned at the loop head
                                        # (a read of the poison is `Unsupported`, so a wrong claim cannot pass silently)


# --------------------------------------------------------------------------------------------------------
# interpreter
# --------------------------------------------------------------------------------------------------------

class CInterp:
    def __init__(self, fn, tu, spec, prefix):
        self.fn, self.tu, self.spec = fn, tu, spec
        self.prefix, self.trace = list(prefix), []
        self.pc, self.obl = [], []
        self.env = [{}]
        self.globals = {}
        self.ghost = {"err": Z.BoolVal(False), "calls": []}
        self.n_fresh = 0
        self.errno = Cell("int", None, "errno")
        self.errno.value = IV(self.fresh_bv("errno_entry", 32), 32, True)
        self.line = fn.get("_line", 0)
        self.loop_ord = 0
        self.inputs = []           # (name, z3 term) reported in counter-models
        self.arrays = []           # every array object created on this path
        self.singletons = {}
        self.loop_mods = []
        self.enum_by_name = {}     # enum constants (header values are left symbolic unless the contract pins them)
        self.solver = Z.Solver()
        self.solver.set("timeout", 2000)

    # ---- paths -------------------------------------------------------------
    def choose(self, n, tag):
        k = len(self.trace)
        c = self.prefix[k] if k < len(self.prefix) else 0
        self.trace.append((c, n, tag))
        return c

    def assume(self, b):
        if isinstance(b, bool):
            if not b:
                raise Infeasible()
            return
        self.pc.append(b)
        self.solver.add(b)

    def feasible(self):
        return self.solver.check() != Z.unsat

    def truth(self, b, tag="cond"):
        if isinstance(b, bool):
            return b
        b = Z.simplify(b)
        if Z.is_true(b):
            return True
        if Z.is_false(b):
            return False
        c = self.choose(2, tag)
        want = (c == 0)
        self.assume(b if want else Z.Not(b))
        if not self.feasible():
            raise Infeasible()
        return want

    def oblige(self, name, kind, goal, where=None):
        if isinstance(goal, bool):
            goal = Z.BoolVal(goal)
        self.obl.append({"name": name, "kind": kind, "pc": list(self.pc), "goal": goal,
                         "where": where or f"{self.spec.file}:{self.line}", "inputs": list(self.inputs)})

    # ---- symbols -----------------------------------------------------------
    def fresh_bv(self, name, bits):
        self.n_fresh += 1
        return Z.BitVec(f"{name}!{self.n_fresh}", bits)

    def fresh_bool(self, name):
        self.n_fresh += 1
        return Z.Bool(f"{name}!{self.n_fresh}")

    def fresh_int(self, name, ctype, inp=False):
        k = tkind(ctype)
        t = self.fresh_bv(name, k[1])
        if inp:
            self.inputs.append((name, t))
        return IV(t, k[1], k[2])

    def new_array(self, name, elem, n, const=False, content="fresh", cstr=False):
        k = tkind(elem)
        if k[0] != "int":
            raise Unsupported("array of " + elem)
        self.n_fresh += 1
        c = Z.Array(f"{name}!{self.n_fresh}", Z.BitVecSort(64), Z.BitVecSort(k[1])) if isinstance(content, str) else content
        m = Mem("arr", name, elem=elem, bits=k[1], signed=k[2], n=n, content=c, const=const, nul_w=[], cstr=cstr)
        self.arrays.append(m)
        return m

    def var(self, name):
        for sc in reversed(self.env):
            for c in sc.values():
                if c.name == name:
                    return c
        raise KeyError(name)

    def fresh_of_type(self, ctype, name):
        k = tkind(ctype)
        if k[0] == "int":
            return self.fresh_int(name, ctype)
        if k[0] == "arr":
            return self.new_array(name, k[1], k[2])
        if k[0] == "struct":
            return Mem("struct", name, ctype=k[1], fields={})
        if k[0] == "ptr":
            raise Unsupported(f"read of uninitialised pointer {name}")
        if k[0] == "double":
            return DV(None)
        raise Unsupported("fresh value of " + ctype)

    def pyobj(self, label, owned=0, borrowed=False, **info):
        return Mem("pyobj", label, owned=owned, borrowed=borrowed, info=info)

    def singleton(self, label):
        """None / True / False: one immortal object per path"""
        if label not in self.singletons:
            self.singletons[label] = self.pyobj(label, borrowed=True)
        return self.singletons[label]

    # ---- memory ------------------------------------------------------------
    def bounds(self, arr, idx, what):
        if getattr(arr, "alive", True) is False:
            self.oblige(f"{what} of {arr.name} after it was freed", "own", False)
            raise PathEnd()
        if arr.n is None:
            return
        if not isinstance(arr.n, int):       # dynamically sized object: n is a term
            self.oblige(f"{what} of {arr.name}[i] inside its dynamically sized allocation", "bounds", Z.ULT(bv64(idx), arr.n))
            return
        if isinstance(idx, int):
            ok = 0 <= idx < arr.n
            self.oblige(f"{what} of {arr.name}[{idx}] inside its {arr.n} elements", "bounds", ok)
        else:
            self.oblige(f"{what} of {arr.name}[i] inside its {arr.n} elements", "bounds", Z.ULT(idx, bvc(arr.n, 64)))

    def has_nul(self, p, what):
        """obligation: p points to a NUL-terminated string inside its object"""
        if p.obj is None:
            self.oblige(f"{what}: non-NULL string", "pre", False)
            return
        a = p.obj
        if a.kind != "arr":
            raise Unsupported(f"{what}: string argument is {a.kind}")
        if a.cstr:
            return
        off = bv64(p.off)
        alts = [Z.And(Z.ULE(off, bv64(w)), Z.ULT(bv64(w), bvc(a.n, 64)), Z.Select(a.content, bv64(w)) == 0)
                for w in a.nul_w]
        if a.n is not None and a.n <= 300:
            alts += [Z.And(Z.ULE(off, bvc(i, 64)), Z.Select(a.content, bvc(i, 64)) == 0) for i in range(a.n)]
        if not alts:
            raise Unsupported(f"{what}: cannot state NUL-termination of {a.name}")
        for i in range(min(a.n or 0, 300)):
            self.inputs.append((f"{a.name}[{i}]", Z.Select(a.content, bvc(i, 64))))
        self.oblige(f"{what}: {a.name} (a {a.n}-byte field) holds a NUL terminator inside the field", "pre", Z.Or(*alts))

    def lit_bytes(self, p):
        a = p.obj
        if a is not None and a.kind == "arr" and a.const and isinstance(p.off, int):
            return a.lit[p.off:]
        return None

    # ---- environment ---------------------------------------------------------
    def lookup(self, decl):
        did = decl["id"]
        for sc in reversed(self.env):
            if did in sc:
                return sc[did]
        if did in self.globals:
            return self.globals[did]
        name = decl.get("name", "")
        k = decl.get("kind")
        ty = decl.get("type", {}).get("desugaredQualType") or decl.get("type", {}).get("qualType", "")
        if k == "EnumConstantDecl":
            v = self.spec.enums.get(name)
            if name in self.enum_by_name:
                c = self.enum_by_name[name]
            else:
                c = Cell("int", IV(bvc(v, 32), 32, True) if v is not None else IV(self.fresh_bv(name, 32), 32, True), name)
                self.enum_by_name[name] = c
        elif name.startswith("PyExc_"):
            c = Cell("PyObject *", PV(self.pyobj(name, borrowed=True)), name)
        elif name.startswith("_Py_") and name.endswith("Struct"):
            c = Cell("PyObject", self.singleton(name[4:-6]), name)
        elif tkind(ty)[0] == "int":
            c = Cell(ty, self.fresh_int(name, ty), name)
        elif tkind(ty)[0] == "ptr":
            c = Cell(ty, PV(Mem("opaque", name)), name)
        else:
            raise Unsupported(f"global {name}: {ty}")
        self.globals[did] = c
        return c

    # ---- expressions: lvalues ----------------------------------------------
    def lval(self, n):
        k = n["kind"]
        self.line = n.get("_line", self.line)
        if k == "ParenExpr":
            return self.lval(n["inner"][0])
        if k == "DeclRefExpr":
            return self.lookup(n["referencedDecl"])
        if k == "MemberExpr":
            base = n["inner"][0]
            if n.get("isArrow"):
                p = self.ev(base)
                if not isinstance(p, PV):
                    raise Unsupported("-> on non-pointer")
                if p.obj is None:
                    self.oblige("dereference of NULL", "ub", False)
                    raise PathEnd()
                obj = p.obj
                if obj.kind == "cell":
                    obj = obj.cell.get(self)
            else:
                obj = self.lval(base).get(self)
            if not isinstance(obj, Mem) or obj.kind != "struct":
                raise Unsupported(f"member access on {obj}")
            if getattr(obj, "alive", True) is False:
                self.oblige(f"access to {obj.name} after it was freed", "own", False)
                raise PathEnd()
            name = n["name"]
            if name not in obj.fields:
                obj.fields[name] = self.spec.field(self, obj, name, qt(n))
            return obj.fields[name]
        if k == "UnaryOperator" and n["opcode"] == "*":
            p = self.ev(n["inner"][0])
            return self.deref(p, qt(n))
        if k == "ArraySubscriptExpr":
            p = self.ev(n["inner"][0])
            i = self.ev(n["inner"][1])
            return self.deref(self.ptr_add(p, i), qt(n))
        if k == "UnaryOperator" and n["opcode"] == "__extension__":
            return self.lval(n["inner"][0])
        raise Unsupported("lvalue " + k)

    def deref(self, p, ty):
        if not isinstance(p, PV):
            raise Unsupported("deref of non-pointer")
        if p.obj is None:
            self.oblige("dereference of NULL", "ub", False)
            raise PathEnd()
        o = p.obj
        if o.kind == "cell":
            return o.cell
        if o.kind == "errno":
            return self.errno
        if o.kind == "arr":
            kk = tkind(ty)
            if kk[0] != "int" or kk[1] != o.bits:
                raise Unsupported(f"access of {o.name} at a different width ({ty})")
            return ElemRef(o, p.off, kk[1], kk[2])
        raise Unsupported(f"deref of {o.kind}")

    def ptr_add(self, p, i, neg=False):
        if p.obj is None:
            self.oblige("arithmetic on NULL pointer", "ub", False)
            raise PathEnd()
        it = Z.SignExt(64 - i.bits, i.t) if (i.signed and i.bits < 64) else (Z.ZeroExt(64 - i.bits, i.t) if i.bits < 64 else i.t)
        off = bv64(p.off) - it if neg else bv64(p.off) + it
        off = Z.simplify(off)
        if Z.is_bv_value(off):
            off = off.as_long()
        o = p.obj
        if o.kind == "arr" and o.n is not None:
            # one past the end is allowed for pointer arithmetic (C11 6.5.6p8)
            if not isinstance(o.n, int):
                g = Z.ULE(bv64(off), o.n)
            else:
                g = (0 <= off <= o.n) if isinstance(off, int) else Z.ULE(off, bvc(o.n, 64))
            self.oblige(f"pointer arithmetic stays within {o.name}[0..{o.n if isinstance(o.n, int) else 'n'}]", "bounds", g)
        return PV(o, off)

    # ---- expressions: rvalues ----------------------------------------------
    def conv(self, v, ty):
        k = tkind(ty)
        if k[0] == "int":
            if isinstance(v, IV):
                if v.bits == k[1]:
                    return IV(v.t, k[1], k[2])
                if v.bits > k[1]:
                    return IV(Z.simplify(Z.Extract(k[1] - 1, 0, v.t)), k[1], k[2])
                ext = Z.SignExt if v.signed else Z.ZeroExt
                return IV(Z.simplify(ext(k[1] - v.bits, v.t)), k[1], k[2])
            raise Unsupported("conversion to int of " + type(v).__name__)
        if k[0] == "double":
            return DV(v)
        if k[0] == "ptr":
            return v
        raise Unsupported("conversion to " + ty)

    def as_bool(self, v):
        if isinstance(v, IV):
            return v.t != 0
        if isinstance(v, PV):
            if v.cond is not None:
                return v.cond
            return v.obj is not None
        raise Unsupported("truth of " + type(v).__name__)

    def b2i(self, b):
        if isinstance(b, bool):
            return IV(bvc(1 if b else 0, 32), 32, True)
        return IV(Z.If(b, bvc(1, 32), bvc(0, 32)), 32, True)

    def ev(self, n):
        k = n["kind"]
        self.line = n.get("_line", self.line)
        if k in ("ParenExpr", "ConstantExpr"):
            return self.ev(n["inner"][0])
        if k == "IntegerLiteral":
            kk = tkind(qt(n))
            return IV(bvc(int(n["value"]), kk[1]), kk[1], kk[2])
        if k == "CharacterLiteral":
            return IV(bvc(int(n["value"]), 32), 32, True)
        if k == "StringLiteral":
            raw = json.loads(n["value"]) if n["value"].startswith('"') else n["value"]
            bs = raw.encode("latin-1", "replace") + b"\0"
            arr = Z.K(Z.BitVecSort(64), bvc(0, 8))
            for i, b in enumerate(bs):
                arr = Z.Store(arr, bvc(i, 64), bvc(b, 8))
            m = self.new_array("lit:" + raw[:20], "char", len(bs), const=True, content=arr, cstr=True)
            m.lit = bs
            return PV(m, 0)
        if k == "DeclRefExpr":
            d = n["referencedDecl"]
            if d.get("kind") == "FunctionDecl":
                return FuncRef(d["name"])
            return self.lookup(d).get(self)
        if k in ("ImplicitCastExpr", "CStyleCastExpr"):
            ck = n.get("castKind")
            inner = n["inner"][0]
            if ck == "LValueToRValue":
                return self.lval(inner).get(self)
            if ck in ("FunctionToPointerDecay", "BuiltinFnToFnPtr"):
                return self.ev(inner)
            if ck == "ArrayToPointerDecay":
                if inner["kind"] == "StringLiteral":
                    return self.ev(inner)
                m = self.lval(inner).get(self)
                if not isinstance(m, Mem) or m.kind != "arr":
                    raise Unsupported("decay of non-array")
                return PV(m, 0)
            if ck == "NullToPointer":
                return PV(None)
            if ck in ("NoOp", "BitCast"):
                v = self.ev(inner)
                if ck == "BitCast" and isinstance(v, PV) and v.obj is not None and v.obj.kind == "arr":
                    kk = tkind(qt(n))
                    if kk[0] == "ptr" and kk[1] not in ("void", "char", "unsigned char"):
                        pk = tkind(kk[1])
                        if pk[0] != "int" or pk[1] != v.obj.bits:
                            raise Unsupported(f"pointer cast of {v.obj.name} to {qt(n)}")
                return v
            if ck == "IntegralCast":
                return self.conv(self.ev(inner), qt(n))
            if ck == "IntegralToFloating":
                return DV(self.ev(inner))
            if ck in ("IntegralToBoolean", "PointerToBoolean"):
                return self.b2i(self.as_bool(self.ev(inner)))
            if ck == "ToVoid":
                self.ev(inner)
                return None
            raise Unsupported("cast " + str(ck))
        if k == "UnaryOperator":
            return self.unary(n)
        if k == "BinaryOperator":
            return self.binary(n)
        if k == "CompoundAssignOperator":
            l = self.lval(n["inner"][0])
            a = l.get(self)
            r = self.ev(n["inner"][1])
            op = n["opcode"][:-1]
            if isinstance(a, PV):
                res = self.ptr_add(a, r, neg=(op == "-"))
            else:
                ct = n.get("computeLHSType", {}).get("desugaredQualType") or n.get("computeLHSType", {}).get("qualType")
                a2 = self.conv(a, ct)
                res = self.conv(self.arith(op, a2, r, ct), l.ctype if isinstance(l, Cell) else qt(n))
            l.set(self, res)
            return res
        if k == "ConditionalOperator":
            c = self.truth(self.as_bool(self.ev(n["inner"][0])), "?:")
            return self.ev(n["inner"][1] if c else n["inner"][2])
        if k == "CallExpr":
            return self.call(n)
        if k == "StmtExpr":
            body = n["inner"][0]["inner"]
            self.env.append({})
            try:
                val = None
                for s in body:
                    val = self.stmt(s, want_value=True)
                return val
            finally:
                self.env.pop()
        if k == "UnaryExprOrTypeTraitExpr":
            if n.get("name") != "sizeof":
                raise Unsupported(n.get("name"))
            if "argType" in n:
                t = n["argType"].get("desugaredQualType") or n["argType"]["qualType"]
            else:
                t = qt(n["inner"][0])
            return IV(bvc(sizeof_type(t), 64), 64, False)
        if k == "MemberExpr" or k == "ArraySubscriptExpr":
            return self.lval(n).get(self)
        raise Unsupported("expression " + k)

    def unary(self, n):
        op = n["opcode"]
        inner = n["inner"][0]
        if op == "__extension__":
            return self.ev(inner)
        if op == "!":
            b = self.as_bool(self.ev(inner))
            return self.b2i((not b) if isinstance(b, bool) else Z.Not(b))
        if op == "&":
            r = self.lval(inner)
            if isinstance(r, ElemRef):
                return PV(r.arr, r.idx)
            if isinstance(r, Cell):
                v = r.value
                if isinstance(v, Mem) and v.kind in ("struct", "arr", "pyobj"):
                    return PV(v, 0)
                return PV(Mem("cell", "&" + r.name, cell=r), 0)
            raise Unsupported("& of " + type(r).__name__)
        if op == "*":
            return self.lval(n).get(self)
        if op in ("-", "~", "+"):
            v = self.ev(inner)
            if op == "+":
                return v
            if op == "~":
                return IV(~v.t, v.bits, v.signed)
            if v.signed:
                self.oblige("negation does not overflow", "ub", v.t != bvc(1 << (v.bits - 1), v.bits))
            return IV(-v.t, v.bits, v.signed)
        if op in ("++", "--"):
            l = self.lval(inner)
            old = l.get(self)
            if isinstance(old, PV):
                new = self.ptr_add(old, IV(bvc(1, 64), 64, True), neg=(op == "--"))
            else:
                one = IV(bvc(1, old.bits), old.bits, old.signed)
                new = self.arith("+" if op == "++" else "-", old, one, None)
            l.set(self, new)
            return old if n.get("isPostfix") else new
        raise Unsupported("unary " + op)

    def arith(self, op, a, b, ty):
        if not (isinstance(a, IV) and isinstance(b, IV)):
            raise Unsupported(f"arithmetic {op} on {type(a).__name__}, {type(b).__name__}")
        bits, signed = a.bits, a.signed
        if op in ("<<", ">>"):
            amt = b.t
            if b.bits != bits:
                amt = (Z.SignExt if b.signed else Z.ZeroExt)(bits - b.bits, b.t) if b.bits < bits else Z.Extract(bits - 1, 0, b.t)
                if b.bits > bits:
                    self.oblige("shift amount below the operand width", "ub", Z.ULT(b.t, bvc(bits, b.bits)))
            self.oblige(f"shift amount in [0, {bits})", "ub", Z.ULT(amt, bvc(bits, bits)))
            if op == "<<":
                if signed:
                    self.oblige("left shift of a non-negative value", "ub", a.t >= 0)
                    wide = Z.ZeroExt(bits, a.t) << Z.ZeroExt(bits, amt)
                    self.oblige(f"left shift result representable in {bits}-bit signed", "ub",
                                Z.ULE(wide, bvc((1 << (bits - 1)) - 1, 2 * bits)))
                return IV(a.t << amt, bits, signed)
            return IV((a.t >> amt) if signed else Z.LShR(a.t, amt), bits, signed)
        if b.bits != bits:
            raise Unsupported("operand widths differ")
        if op in ("+", "-", "*"):
            if signed:
                f = {"+": lambda x, y: x + y, "-": lambda x, y: x - y, "*": lambda x, y: x * y}[op]
                w = 2 * bits if op == "*" else bits + 1
                wide = f(Z.SignExt(w - bits, a.t), Z.SignExt(w - bits, b.t))
                lo, hi = -(1 << (bits - 1)), (1 << (bits - 1)) - 1
                self.oblige(f"signed {op} does not overflow {bits} bits", "ub", Z.And(wide >= lo, wide <= hi))
            t = {"+": a.t + b.t, "-": a.t - b.t, "*": a.t * b.t}[op]
            return IV(t, bits, signed)
        if op in ("/", "%"):
            self.oblige("division by non-zero", "ub", b.t != 0)
            if signed:
                self.oblige("INT_MIN / -1 does not occur", "ub", Z.Not(Z.And(a.t == bvc(1 << (bits - 1), bits), b.t == -1)))
                t = (a.t / b.t) if op == "/" else Z.SRem(a.t, b.t)
            else:
                t = Z.UDiv(a.t, b.t) if op == "/" else Z.URem(a.t, b.t)
            return IV(t, bits, signed)
        if op in ("&", "|", "^"):
            t = {"&": a.t & b.t, "|": a.t | b.t, "^": a.t ^ b.t}[op]
            return IV(t, bits, signed)
        raise Unsupported("operator " + op)

    def binary(self, n):
        op = n["opcode"]
        L, R = n["inner"]
        if op == "=":
            r = self.ev(R)
            self.lval(L).set(self, r)
            return r
        if op == ",":
            self.ev(L)
            return self.ev(R)
        if op in ("&&", "||"):
            l = self.truth(self.as_bool(self.ev(L)), op)
            if op == "&&" and not l:
                return self.b2i(False)
            if op == "||" and l:
                return self.b2i(True)
            return self.b2i(self.as_bool(self.ev(R)))
        a, b = self.ev(L), self.ev(R)
        if op in ("==", "!=", "<", ">", "<=", ">="):
            if isinstance(a, PV) or isinstance(b, PV):
                if op not in ("==", "!="):
                    raise Unsupported("pointer ordering")
                if not (isinstance(a, PV) and isinstance(b, PV)):
                    raise Unsupported("pointer/int comparison")
                if a.cond is not None or b.cond is not None:
                    x = a if a.cond is not None else b
                    y = b if x is a else a
                    if y.obj is not None:
                        raise Unsupported("conditional pointer compared with an object")
                    eq = Z.Not(x.cond)
                else:
                    eq = (a.obj is b.obj) and (a.obj is None or _same_off(a.off, b.off))
                return self.b2i(eq if op == "==" else ((not eq) if isinstance(eq, bool) else Z.Not(eq)))
            if a.bits != b.bits:
                raise Unsupported("comparison widths differ")
            s = a.signed
            t = {"==": a.t == b.t, "!=": a.t != b.t,
                 "<": (a.t < b.t) if s else Z.ULT(a.t, b.t), ">": (a.t > b.t) if s else Z.UGT(a.t, b.t),
                 "<=": (a.t <= b.t) if s else Z.ULE(a.t, b.t), ">=": (a.t >= b.t) if s else Z.UGE(a.t, b.t)}[op]
            return self.b2i(t)
        if isinstance(a, PV) and isinstance(b, IV) and op in ("+", "-"):
            return self.ptr_add(a, b, neg=(op == "-"))
        if isinstance(b, PV) and isinstance(a, IV) and op == "+":
            return self.ptr_add(b, a)
        return self.arith(op, a, b, qt(n))

    # ---- calls -------------------------------------------------------------
    def call(self, n):
        f = self.ev(n["inner"][0])
        if not isinstance(f, FuncRef):
            raise Unsupported("indirect call")
        args = [self.ev(a) for a in n["inner"][1:]]
        name = f.name
        model = self.spec.externs.get(name) or EXTERN.get(name)
        if model is not None:
            self.ghost["calls"].append(name)
            chk = self.spec.checks.get(name)
            if chk is not None:
                try:
                    goals = chk(self, args)
                except (KeyError, AttributeError, IndexError, TypeError) as e:
                    # the contract names a record slot / tuple item the code never produced on this path
                    goals = [(f"call-site contract of {name}: a slot it names was not read or built by the code "
                              f"({type(e).__name__}: {e})", False)]
                for nm, g in goals:
                    self.oblige(nm, "post", g)
            return model(self, args, n)
        chk = self.spec.checks.get(name)
        if chk is not None:           # call-site obligations on a same-file callee (inlined below)
            try:
                goals = chk(self, args)
            except (KeyError, AttributeError, IndexError, TypeError) as e:
                goals = [(f"call-site contract of {name}: a slot it names was not read or built by the code "
                          f"({type(e).__name__}: {e})", False)]
            for nm, g in goals:
                self.oblige(nm, "post", g)
        if name in self.tu:
            return self.inline(self.tu[name], args)
        # a helper defined in the same file (e.g. after an "extract function" refactoring): inline its body
        try:
            extra = dump(self.spec.file, name)
        except Exception:
            extra = {}
        if name in extra:
            self.tu[name] = extra[name]
            return self.inline(extra[name], args)
        raise Unsupported(f"call to {name} (no contract)")

    def inline(self, fdecl, args):
        params = [c for c in fdecl["inner"] if c["kind"] == "ParmVarDecl"]
        body = [c for c in fdecl["inner"] if c["kind"] == "CompoundStmt"][0]
        saved = self.env
        self.env = [{p["id"]: Cell(qt(p), a, p.get("name", "")) for p, a in zip(params, args)}]
        try:
            self.run_body(body)
            return None
        except ReturnExc as r:
            return r.v
        finally:
            self.env = saved

    # ---- statements ----------------------------------------------------------
    def stmt(self, n, want_value=False):
        k = n.get("kind")
        self.line = n.get("_line", self.line)
        if k is None or k == "NullStmt":
            return None
        if k == "CompoundStmt":
            self.env.append({})
            try:
                for s in n.get("inner", []):
                    self.stmt(s)
            finally:
                self.env.pop()
            return None
        if k == "DeclStmt":
            for d in n["inner"]:
                if d["kind"] != "VarDecl":
                    continue
                ty = qt(d)
                c = Cell(ty, None, d["name"])
                init = [x for x in d.get("inner", []) if "kind" in x]
                if init:
                    c.value = self.ev(init[0])
                elif tkind(ty)[0] in ("arr", "struct"):
                    c.value = self.fresh_of_type(ty, d["name"])
                self.env[-1][d["id"]] = c
            return None
        if k == "IfStmt":
            if self.spec.merge and len(n["inner"]) == 2:
                return self.if_merge(n)
            c = self.truth(self.as_bool(self.ev(n["inner"][0])), "if")
            if c:
                self.stmt(n["inner"][1])
            elif len(n["inner"]) > 2:
                self.stmt(n["inner"][2])
            return None
        if k == "ReturnStmt":
            raise ReturnExc(self.ev(n["inner"][0]) if n.get("inner") else None)
        if k == "GotoStmt":
            raise GotoExc(n["targetLabelDeclId"])
        if k == "LabelStmt":
            return self.stmt(n["inner"][0])
        if k == "BreakStmt":
            raise BreakExc()
        if k == "ContinueStmt":
            raise ContinueExc()
        if k == "DoStmt":
            body, cond = n["inner"]
            if cond.get("kind") == "IntegerLiteral" and cond.get("value") == "0":
                try:
                    self.stmt(body)
                except (BreakExc, ContinueExc):
                    pass
                return None
            raise Unsupported("do-while loop")
        if k in ("WhileStmt", "ForStmt"):
            return self.loop(n)
        v = self.ev(n)
        return v if want_value else None

    # ---- path merging for `if (c) S` where S leaves the state unchanged ------------------------------------
    def state_sig(self):
        def val(v):
            if isinstance(v, IV):
                return ("i", v.t.get_id(), v.bits)
            if isinstance(v, PV):
                off = v.off if isinstance(v.off, int) else v.off.get_id()
                return ("p", id(v.obj), off, None if v.cond is None else v.cond.get_id())
            if isinstance(v, Mem):
                if v.kind == "arr":
                    return ("a", id(v), None if v.content is None else v.content.get_id(), getattr(v, "alive", True))
                if v.kind == "struct":
                    return ("s", id(v), tuple(sorted((k, val(c.value)) for k, c in v.fields.items())), getattr(v, "alive", True))
                if v.kind == "pyobj":
                    return ("o", id(v), v.owned)
                return ("m", id(v))
            return ("x", repr(type(v)))
        sig = []
        for sc in self.env:
            for did, c in sc.items():
                sig.append((did, val(c.value)))
                if isinstance(c.value, PV) and isinstance(c.value.obj, Mem) and c.value.obj.kind == "pyobj":
                    sig.append((did, "own", c.value.obj.owned))
        e = self.errno.value
        return (tuple(sig), self.ghost["err"].get_id(), e.t.get_id() if isinstance(e, IV) else None)

    def if_merge(self, n):
        """`if (c) S` without else: when S falls through with the state exactly as before (same values, same ownership,
        same error flag), its continuation is the continuation of the skip path; that one is then explored once, with
        neither c nor !c assumed (weaker assumptions: sound), instead of once per branch"""
        cond = self.as_bool(self.ev(n["inner"][0]))
        if isinstance(cond, bool):
            if cond:
                self.stmt(n["inner"][1])
            return None
        cond = Z.simplify(cond)
        if Z.is_true(cond) or Z.is_false(cond):
            if Z.is_true(cond):
                self.stmt(n["inner"][1])
            return None
        key = (n["id"], tuple(c for c, _, _ in self.trace))
        memo = self.spec.merge_memo
        c = self.choose(2, "if(merge)")
        if c == 0:
            self.assume(cond)
            if not self.feasible():
                raise Infeasible()
            sig = self.state_sig()
            self.stmt(n["inner"][1])
            same = self.state_sig() == sig
            if same and memo.get(key) is not False:
                memo[key] = True
                raise PathEnd()
            if not same and memo.get(key) is True:
                raise Unsupported("if-merge: the then-branch preserves the state on some paths only")
            memo[key] = False
            return None
        if memo.get(key) is True:
            return None            # stands for both branches: nothing assumed about the condition
        self.assume(Z.Not(cond))
        if not self.feasible():
            raise Infeasible()
        return None

    def loop(self, n):
        k = n["kind"]
        if k == "WhileStmt":
            init, cond, inc, body = None, n["inner"][0], None, n["inner"][1]
        else:
            init, _cv, cond, inc, body = n["inner"]
        if init and init.get("kind"):
            self.stmt(init)
        ordn = self.loop_ord
        self.loop_ord += 1
        cut = self.spec.loops.get(ordn)
        if cut is None:
            raise Unsupported(f"loop #{ordn} has no invariant")
        where = f"{self.spec.file}:{n.get('_line', self.line)}"
        self.loop_mods = modified_cells(self, n)
        for nm, g in cut.inv(self):
            self.oblige(f"loop #{ordn} invariant on entry: {nm}", "inv", g, where)
        # arbitrary iteration: integers written by the loop are havocked; loop-carried pointers take the value the
        # contract gives (default: unchanged, which is then checked at the end of the body); listed arrays are havocked
        mods = modified_cells(self, n)
        self.loop_mods = mods
        auto = self.spec.auto_cursors.get(ordn, {})
        for cell in mods:
            v = cell.value
            if isinstance(v, IV):
                cell.value = IV(self.fresh_bv(cell.name + "_k", v.bits), v.bits, v.signed)
            elif cell.name in auto and cell.name not in cut.ptrs and cell.name not in cut.cursors and cell.name not in cut.dead:
                # pointer into a library-owned record sequence (getmntent()/getutent()-style): NULL or some record
                if self.choose(2, f"cursor {cell.name}: NULL/record") == 0:
                    cell.value = PV(None)
                else:
                    k = self.ghost.get("records", 0)
                    self.ghost["records"] = k + 1
                    m = Mem("struct", f"{auto[cell.name][1]}#{k}", ctype=auto[cell.name][0], fields={}, library_owned=True)
                    self.ghost.setdefault("record_objs", []).append(m)
                    cell.value = PV(m, 0)
        hav = set()
        for nm in cut.arrays:
            m = self.var(nm).get(self)
            if isinstance(m, PV):           # the array reached through a pointer parameter (helper function)
                m = m.obj
            if not isinstance(m, Mem) or m.kind != "arr":
                raise Unsupported(f"loop #{ordn}: '{nm}' is not an array here")
            self.n_fresh += 1
            m.content = Z.Array(f"{nm}_k!{self.n_fresh}", Z.BitVecSort(64), Z.BitVecSort(m.bits))
            m.nul_w = []
            hav.add(id(m))
        if cut.havoc:
            cut.havoc(self)
        for cell in mods:
            if cell.name in cut.ptrs:
                cell.value = cut.ptrs[cell.name](self)
            elif cell.name in cut.dead:
                cell.value = None
            elif cell.name in cut.cursors:
                cell.value = cut.cursors[cell.name][0](self)
        for nm, g in cut.inv(self):
            self.assume(g)
        if cut.lemmas:
            for g in cut.lemmas(self):
                self.assume(g)
        if not self.feasible():
            raise Infeasible()
        head_ptr = {id(c): (c, c.value) for c in mods if isinstance(c.value, PV)}
        head_arr = [(m, m.content) for m in self.arrays]
        head_own = [(m, m.owned) for sc in self.env for c in sc.values()
                    if isinstance(c.value, PV) and isinstance(c.value.obj, Mem) and c.value.obj.kind == "pyobj"
                    for m in [c.value.obj]]
        c = True
        if cond and cond.get("kind"):
            c = self.truth(self.as_bool(self.ev(cond)), "loop-cond")
        if not c:
            return None          # exit path continues after the loop
        try:
            try:
                self.stmt(body)
            except ContinueExc:
                pass
        except BreakExc:
            return None
        if inc and inc.get("kind"):
            self.ev(inc)
        if cut.lemmas:
            for g in cut.lemmas(self):
                self.assume(g)
        for nm, g in cut.inv(self):
            self.oblige(f"loop #{ordn} invariant preserved: {nm}", "inv", g, where)
        # soundness of the cut: everything the body changed is covered by the contract
        for cell, hv in head_ptr.values():
            if cell.name in cut.dead:
                continue
            if cell.name in cut.cursors:
                self.oblige(f"loop #{ordn}: cursor '{cell.name}' satisfies its invariant at the end of the body", "inv",
                            bool(cut.cursors[cell.name][1](self, cell.value)), where)
                continue

            def lib_rec(v):
                return isinstance(v, PV) and (v.obj is None or (isinstance(v.obj, Mem) and v.obj.kind == "struct"
                                                                and getattr(v.obj, "library_owned", False) and v.off == 0))
            if cell.name in auto:
                self.oblige(f"loop #{ordn}: '{cell.name}' is NULL or a library record at the end of the body", "inv",
                            lib_rec(cell.value), where)
                continue
            if lib_rec(hv) and lib_rec(cell.value) and not (hv.obj is cell.value.obj) and cell.name not in cut.ptrs:
                # a loop-carried pointer into a library record sequence: redo the function with it treated as a cursor
                o = cell.value.obj or hv.obj
                ctype = o.ctype if o is not None else strip_q(cell.ctype).rstrip("*").strip()
                label = (o.name.split("#")[0] if o is not None else "record")
                self.spec.auto_cursors.setdefault(ordn, {})[cell.name] = (ctype, label)
                raise RestartVerify()
            want = cut.ptrs[cell.name](self) if cell.name in cut.ptrs else hv
            got = cell.value
            same = isinstance(got, PV) and got.obj is want.obj and (got.obj is None or _same_off(got.off, want.off))
            self.oblige(f"loop #{ordn}: pointer '{cell.name}' is back to its loop-head value at the end of the body",
                        "inv", same, where)
        for m, c0 in head_arr:
            if m.content is not c0 and id(m) not in hav and not m.const:
                raise Unsupported(f"loop #{ordn} writes array {m.name}; the contract does not havoc it")
        for m, o0 in head_own:
            self.oblige(f"loop #{ordn}: ownership of '{m.name}' unchanged by one iteration", "inv", m.owned == o0, where)
        raise PathEnd()

    def run_body(self, body):
        stmts = body.get("inner", [])
        i = 0
        self.env.append({})
        while i < len(stmts):
            try:
                self.stmt(stmts[i])
                i += 1
            except GotoExc as g:
                for j, s in enumerate(stmts):
                    if s.get("kind") == "LabelStmt" and s.get("declId") == g.label:
                        i = j
                        break
                else:
                    raise Unsupported("goto into a nested block")
        self.env.pop()


def _same_off(a, b):
    if isinstance(a, int) and isinstance(b, int):
        return a == b
    return bv64(a) == bv64(b)


def modified_cells(I, n):
    out, seen = [], set()

    def base_decl(x):
        while x.get("kind") in ("ParenExpr",):
            x = x["inner"][0]
        if x.get("kind") == "DeclRefExpr":
            return x["referencedDecl"]
        return None

    def walk(x):
        if not isinstance(x, dict):
            return
        k = x.get("kind")
        tgt = None
        if k in ("BinaryOperator", "CompoundAssignOperator") and (x.get("opcode") == "=" or k == "CompoundAssignOperator"):
            tgt = base_decl(x["inner"][0])
        elif k == "UnaryOperator" and x.get("opcode") in ("++", "--", "&"):
            tgt = base_decl(x["inner"][0])
        if tgt is not None and tgt["id"] not in seen and tgt.get("kind") != "FunctionDecl":
            seen.add(tgt["id"])
            for sc in reversed(I.env):
                if tgt["id"] in sc:
                    out.append(sc[tgt["id"]])
                    break
        for c in x.get("inner", []):
            walk(c)

    walk(n)
    return out


# --------------------------------------------------------------------------------------------------------
# contracts of external functions
# --------------------------------------------------------------------------------------------------------

def _fmt_units(fmt):
    return [c for c in fmt if c not in "()[]{}|:;, "]


def x_parse_tuple(I, args, n):
    fmt = I.lit_bytes(args[1])
    if fmt is None:
        raise Unsupported("PyArg_ParseTuple with non-literal format")
    fmt = fmt[:-1].decode()
    units = _fmt_units(fmt)
    outs = args[2:]
    if len(units) != len(outs):
        I.oblige(f"PyArg_ParseTuple format '{fmt}' has as many units as output pointers", "pre", False)
    if I.choose(2, "PyArg_ParseTuple fails/succeeds") == 0:
        I.ghost["err"] = Z.BoolVal(True)
        I.ghost["parsed"] = False
        return IV(bvc(0, 32), 32, True)
    I.ghost["parsed"] = True
    want = {"i": ("int", 32), "l": ("int", 64), "n": ("int", 64), "k": ("int", 64), "I": ("int", 32)}
    for j, (u, o) in enumerate(zip(units, outs)):
        cell = I.deref(o, "int") if False else None
        tgt = o.obj
        if tgt is None or tgt.kind != "cell":
            raise Unsupported("ParseTuple output is not the address of a local")
        cty = tkind(tgt.cell.ctype)
        if u in want:
            if cty[0] != "int" or cty[1] != want[u][1]:
                I.oblige(f"PyArg_ParseTuple unit '{u}' stores {want[u][1]} bits into a {tgt.cell.ctype}", "bounds", False)
            v = I.fresh_int(f"arg{j}_{tgt.cell.name}", tgt.cell.ctype, inp=True)
            tgt.cell.value = v
            I.ghost.setdefault("args", []).append(v)
        elif u == "O":
            ob = I.pyobj(f"arg{j}", borrowed=True)
            tgt.cell.value = PV(ob)
            I.ghost.setdefault("args", []).append(ob)
        elif u == "s":
            m = I.new_array(f"arg{j}_str", "char", None, cstr=True, content=None)
            tgt.cell.value = PV(m, 0)
            I.ghost.setdefault("args", []).append(m)
        else:
            raise Unsupported("ParseTuple unit " + u)
    return IV(bvc(1, 32), 32, True)


def _use_obj(I, p, what):
    """obligation: p is a live object reference"""
    if p.obj is None:
        I.oblige(f"{what}: non-NULL object", "pre", False)
        raise PathEnd()
    o = p.obj
    if o.kind != "pyobj":
        raise Unsupported(f"{what}: not an object ({o.kind})")
    if not o.borrowed and o.owned <= 0:
        I.oblige(f"{what}: the reference to '{o.name}' is still owned (no use after release)", "own", False)
        raise PathEnd()
    return o


def x_build_value(I, args, n):
    fmt = I.lit_bytes(args[0])
    if fmt is None:
        raise Unsupported("Py_BuildValue with non-literal format")
    fmt = fmt[:-1].decode()
    units = _fmt_units(fmt)
    vals = args[1:]
    if len(units) != len(vals):
        I.oblige(f"Py_BuildValue format '{fmt}' has as many units as arguments", "pre", False)
        raise PathEnd()
    items = []
    for u, v in zip(units, vals):
        if u in "ON":
            o = _use_obj(I, v, f"Py_BuildValue '{u}'")
            items.append(o)
        elif u in "sz":
            if not (u == "z" and v.obj is None):
                I.has_nul(v, f"Py_BuildValue '{u}'")
            items.append(("str", v.obj, v.off))
        elif u in "ilnkIKBbhH":
            if not isinstance(v, IV):
                raise Unsupported("BuildValue int unit with non-int")
            need = {"i": 32, "I": 32, "l": 64, "k": 64, "n": 64, "K": 64, "b": 32, "B": 32, "h": 32, "H": 32}[u]
            if v.bits != need:
                I.oblige(f"Py_BuildValue unit '{u}' reads {need} bits; the argument has {v.bits}", "ub", False)
            items.append(v)
        elif u == "d":
            items.append(v)
        else:
            raise Unsupported("BuildValue unit " + u)
    # 'N' consumes the caller's reference whether or not the call succeeds
    for u, v in zip(units, vals):
        if u == "N":
            if v.obj.owned <= 0:
                I.oblige(f"Py_BuildValue 'N' gives away a reference this function owns ('{v.obj.name}')", "own", False)
            else:
                v.obj.owned -= 1
    if I.choose(2, "Py_BuildValue fails/succeeds") == 0:
        I.ghost["err"] = Z.BoolVal(True)
        return PV(None)
    single = len(units) == 1 and not fmt.startswith("(")
    return PV(I.pyobj("built", owned=1, fmt=fmt, items=items, single=single))


def x_decode(I, args, n):
    I.has_nul(args[0], "PyUnicode_DecodeFSDefault")
    if I.choose(2, "PyUnicode_DecodeFSDefault fails/succeeds") == 0:
        I.ghost["err"] = Z.BoolVal(True)
        return PV(None)
    return PV(I.pyobj("str", owned=1, of=(args[0].obj, args[0].off)))


def x_decode_size(I, args, n):
    p, ln = args
    o = p.obj
    if o is None or o.kind != "arr":
        raise Unsupported("DecodeFSDefaultAndSize argument")
    if o.n is not None:
        I.oblige(f"PyUnicode_DecodeFSDefaultAndSize reads {o.name}[off..off+size) inside its {o.n} bytes", "bounds",
                 Z.And(Z.ULE(bv64(p.off), bvc(o.n, 64)), Z.ULE(ln.t, bvc(o.n, 64) - bv64(p.off))))
    if I.choose(2, "PyUnicode_DecodeFSDefaultAndSize fails/succeeds") == 0:
        I.ghost["err"] = Z.BoolVal(True)
        return PV(None)
    return PV(I.pyobj("str", owned=1, of=(o, p.off), size=ln.t))


def x_strnlen(I, args, n):
    p, mx = args
    o = p.obj
    if o is None or o.kind != "arr" or o.n is None or o.n > 300 or not isinstance(p.off, int):
        raise Unsupported("strnlen argument")
    I.oblige(f"strnlen(maxlen) stays inside {o.name}[{o.n}]", "bounds", Z.ULE(mx.t, bvc(o.n - p.off, 64)))
    r = I.fresh_bv("strnlen", 64)
    facts = [Z.ULE(r, mx.t)]
    for i in range(o.n - p.off):
        facts.append(Z.Implies(Z.ULT(bvc(i, 64), r), Z.Select(o.content, bvc(p.off + i, 64)) != 0))
        facts.append(Z.Implies(Z.And(r == i, Z.ULT(r, mx.t)), Z.Select(o.content, bvc(p.off + i, 64)) == 0))
    I.assume(Z.And(*facts))
    return IV(r, 64, False)


def x_from_string(I, args, n):
    I.has_nul(args[0], "PyUnicode_FromString")
    if I.choose(2, "PyUnicode_FromString fails/succeeds") == 0:
        I.ghost["err"] = Z.BoolVal(True)
        return PV(None)
    return PV(I.pyobj("str", owned=1, of=(args[0].obj, args[0].off)))


def x_list_new(I, args, n):
    if I.choose(2, "PyList_New fails/succeeds") == 0:
        I.ghost["err"] = Z.BoolVal(True)
        return PV(None)
    return PV(I.pyobj("list", owned=1, items=[]))


def x_list_append(I, args, n):
    lst = _use_obj(I, args[0], "PyList_Append(list)")
    it = _use_obj(I, args[1], "PyList_Append(item)")
    if I.choose(2, "PyList_Append fails/succeeds") == 0:
        I.ghost["err"] = Z.BoolVal(True)
        return IV(bvc(-1, 32), 32, True)
    lst.info.setdefault("items", []).append(it)
    return IV(bvc(0, 32), 32, True)


def x_decref(xdec):
    def f(I, args, n):
        p = args[0]
        if p.obj is None:
            if not xdec:
                I.oblige("Py_DECREF: non-NULL object", "pre", False)
                raise PathEnd()
            return None
        o = p.obj
        if o.kind != "pyobj":
            raise Unsupported("DECREF of " + o.kind)
        if o.owned <= 0:
            if o.borrowed:
                I.oblige(f"Py_DECREF releases only references this function owns ('{o.name}' is borrowed)", "own", False)
                return None
            I.oblige(f"Py_DECREF('{o.name}'): the reference is still owned here (no double release)", "own", False)
            raise PathEnd()
        o.owned -= 1
        I.oblige(f"Py_DECREF('{o.name}'): the reference is still owned here (no double release)", "own", True)
        return None
    return f


def x_incref(I, args, n):
    o = _use_obj(I, args[0], "Py_INCREF")
    o.owned += 1
    return None


def x_set_err(ret_null=True):
    def f(I, args, n):
        I.ghost["err"] = Z.BoolVal(True)
        I.ghost.setdefault("raised", []).append((n["inner"][0]["inner"][0]["referencedDecl"]["name"],
                                                  args[0].obj.name if args and isinstance(args[0], PV) and args[0].obj else None,
                                                  I.errno.get(I)))
        return PV(None) if ret_null else None
    return f


def x_err_occurred(I, args, n):
    return PV(None, cond=I.ghost["err"])


def x_errno_loc(I, args, n):
    return PV(Mem("errno", "errno"))


def sys_result(I, name, bits=32, ok_range=None):
    """POSIX result protocol: success => errno untouched, value in ok_range; failure => -1 and errno > 0"""
    ok = I.fresh_bool(name + "_ok")
    r = I.fresh_bv(name + "_ret", bits)
    e_old = I.errno.get(I)
    e_new = I.fresh_bv(name + "_errno", 32)
    okc = [e_new == e_old.t]
    if ok_range is not None:
        okc += [r >= ok_range[0], r <= ok_range[1]]
    I.assume(Z.If(ok, Z.And(*okc), Z.And(r == -1, e_new > 0)))
    I.errno.value = IV(e_new, 32, True)
    I.inputs += [(name + "_ok", ok), (name + "_ret", r), (name + "_errno", e_new)]
    I.ghost[name] = {"ok": ok, "ret": r, "errno": e_new}
    return IV(r, bits, True)


def x_getpriority(I, args, n):
    I.ghost["getpriority.args"] = args
    return sys_result(I, "getpriority", 32, (-20, 19))


def x_setpriority(I, args, n):
    I.ghost["setpriority.args"] = args
    return sys_result(I, "setpriority", 32, (0, 0))


def x_syscall(I, args, n):
    I.ghost.setdefault("syscall.args", []).append(args)
    return sys_result(I, "syscall", 64, (0, 0xffff))


def x_noop(I, args, n):
    return None


def x_opaque_ptr(name, may_fail=True):
    def f(I, args, n):
        if may_fail and I.choose(2, f"{name} fails/succeeds") == 0:
            return PV(None)
        return PV(Mem("opaque", name))
    return f


def x_strcmp(I, args, n):
    lit = I.lit_bytes(args[1])
    a = args[0]
    # strcmp stops at the first difference or at the literal's NUL: it reads at most len(lit) bytes of the other side
    if not (lit is not None and a.obj is not None and a.obj.kind == "arr" and a.obj.n is not None
            and isinstance(a.off, int) and a.obj.n - a.off >= len(lit)):
        for x in args:
            I.has_nul(x, "strcmp")
    r = I.fresh_bv("strcmp", 32)
    if lit is not None and a.obj.kind == "arr" and a.obj.content is not None:
        eq = Z.And(*[Z.Select(a.obj.content, bv64(a.off) + i) == b for i, b in enumerate(lit)])
        I.assume((r == 0) == eq)
        I.ghost.setdefault("strcmp", []).append((a.obj, lit, r))
    return IV(r, 32, True)


def x_memset(I, args, n):
    p, c, sz = args
    o = p.obj
    if o is None:
        I.oblige("memset: non-NULL destination", "pre", False)
        raise PathEnd()
    if o.kind == "struct":
        size = SIZEOF.get(o.ctype)
        if size is None:
            raise Unsupported("memset on struct of unknown size")
        I.oblige(f"memset length within the {size}-byte object", "bounds", Z.ULE(sz.t, bvc(size, 64)))
        o.fields.clear()
        o.zeroed = True
        return p
    if o.kind == "arr" and o.n is not None:
        I.oblige(f"memset length within {o.name}", "bounds", Z.ULE(sz.t, bvc(o.n * o.bits // 8, 64)))
        o.content = Z.K(Z.BitVecSort(64), Z.Extract(o.bits - 1, 0, Z.ZeroExt(32, c.t)) if o.bits <= 32 else bvc(0, o.bits))
        return p
    raise Unsupported("memset on " + o.kind)


def x_sprintf(I, args, n):
    dst, fmt = args[0], I.lit_bytes(args[1])
    if fmt is None:
        raise Unsupported("sprintf with non-literal format")
    fmt = fmt[:-1].decode()
    m = re.fullmatch(r"%0?(\d)x(.*)", fmt)
    if not m or "%" in m.group(2):
        raise Unsupported("sprintf format " + fmt)
    width, tail = int(m.group(1)), m.group(2)
    v = args[2]
    # %0Nx prints at least N digits: exactly N iff the value fits
    I.oblige(f"sprintf('{fmt}'): the value prints in {width} hex digits", "bounds", Z.ULT(v.t, bvc(16 ** width, v.bits)))
    total = width + len(tail) + 1
    o = dst.obj
    if o is None or o.kind != "arr" or o.n is None:
        raise Unsupported("sprintf destination")
    off = bv64(dst.off)
    I.oblige(f"sprintf writes {total} bytes inside {o.name}[{o.n}]", "bounds",
             Z.And(Z.ULE(off, bvc(o.n, 64)), Z.ULE(off + total, bvc(o.n, 64))))
    for j in range(width):
        I.n_fresh += 1
        o.content = Z.Store(o.content, off + j, Z.BitVec(f"hex!{I.n_fresh}", 8))
    for j, ch in enumerate(tail):
        o.content = Z.Store(o.content, off + width + j, bvc(ord(ch), 8))
    o.content = Z.Store(o.content, off + total - 1, bvc(0, 8))
    o.nul_w.append(Z.simplify(off + total - 1))
    return IV(bvc(total - 1, 32), 32, True)


def x_pylong_fromlong(I, args, n):
    if I.choose(2, "PyLong_FromLong fails/succeeds") == 0:
        I.ghost["err"] = Z.BoolVal(True)
        return PV(None)
    return PV(I.pyobj("int", owned=1, value=args[0]))


def x_seq_check(I, args, n):
    _use_obj(I, args[0], "PySequence_Check")
    r = I.fresh_bv("is_sequence", 32)
    I.assume(Z.Or(r == 0, r == 1))
    return IV(r, 32, True)


def x_seq_size(I, args, n):
    _use_obj(I, args[0], "PySequence_Size")
    r = I.fresh_bv("seq_len", 64)
    I.assume(r >= -1)
    I.ghost["err"] = Z.Or(I.ghost["err"], r == -1)
    I.inputs.append(("seq_len", r))
    return IV(r, 64, True)


def x_seq_getitem(I, args, n):
    _use_obj(I, args[0], "PySequence_GetItem")
    if I.choose(2, "PySequence_GetItem fails/succeeds") == 0:
        I.ghost["err"] = Z.BoolVal(True)
        return PV(None)
    return PV(I.pyobj("item", owned=1))


def x_aslong(I, args, n):
    _use_obj(I, args[0], "PyLong_AsLong")
    r = I.fresh_bv("item_value", 64)
    e = I.fresh_bool("aslong_error")
    I.assume(Z.Implies(e, r == -1))
    I.ghost["err"] = Z.Or(I.ghost["err"], e)
    I.inputs.append(("item_value", r))
    return IV(r, 64, True)


def x_int_result(name, bits=32):
    def f(I, args, n):
        I.ghost[name + ".args"] = args
        return sys_result(I, name, bits, (0, 0))
    return f


def x_record(name, ctype):
    """libc iterator: NULL at the end, else a pointer to a library-owned record with arbitrary content"""
    def f(I, args, n):
        if I.choose(2, f"{name}: end/record") == 0:
            return PV(None)
        k = I.ghost.get("records", 0)
        I.ghost["records"] = k + 1
        m = Mem("struct", f"{name}#{k}", ctype=ctype, fields={}, library_owned=True)
        I.ghost.setdefault("record_objs", []).append(m)
        return PV(m, 0)
    return f


def x_getnameinfo(I, args, n):
    addr, alen, buf, blen = args[:4]
    o = buf.obj
    if o is None or o.kind != "arr" or o.n is None:
        raise Unsupported("getnameinfo host buffer")
    I.oblige(f"getnameinfo: hostlen within {o.name}[{o.n}]", "bounds",
             Z.ULE(bv64(buf.off) + Z.ZeroExt(32, blen.t), bvc(o.n, 64)))
    r = I.fresh_bv("getnameinfo", 32)
    I.n_fresh += 1
    o.content = Z.Array(f"host!{I.n_fresh}", Z.BitVecSort(64), Z.BitVecSort(8))
    w = I.fresh_bv("host_len", 64)
    I.assume(Z.Implies(r == 0, Z.And(Z.ULE(bv64(buf.off), w), Z.ULT(w, bv64(buf.off) + Z.ZeroExt(32, blen.t)),
                                     Z.Select(o.content, w) == 0)))
    o.nul_w = [w]
    return IV(r, 32, True)


def x_py_type(I, args, n):
    _use_obj(I, args[0], "Py_TYPE")
    return PV(I.pyobj("type", borrowed=True))


def x_getifaddrs(I, args, n):
    """glibc: *ifap = NULL first, then -1 on failure or 0 with the head of a library-owned list (possibly empty)"""
    out = args[0].obj
    if out is None or out.kind != "cell":
        raise Unsupported("getifaddrs argument")
    r = sys_result(I, "getifaddrs", 32, (0, 0))
    if I.truth(I.ghost["getifaddrs"]["ok"], "getifaddrs ok"):
        if I.choose(2, "interface list empty/non-empty") == 0:
            out.cell.value = PV(None)
        else:
            out.cell.value = PV(Mem("struct", "ifaddrs#0", ctype="struct ifaddrs", fields={}, library_owned=True), 0)
            I.ghost["records"] = 1
    else:
        out.cell.value = PV(None)
    return r


def x_new_object(label):
    """internal callee verified under its own contract: NULL with an exception, None (new reference), or a new object"""
    def f(I, args, n):
        c = I.choose(3, f"{label}: fails/None/object")
        if c == 0:
            I.ghost["err"] = Z.BoolVal(True)
            return PV(None)
        if c == 1:
            o = I.singleton("None")
            o.owned += 1
            return PV(o)
        return PV(I.pyobj(label, owned=1, args=args))
    return f


def x_cpualloc(I, args, n):
    """glibc __sched_cpualloc(count) = malloc(CPU_ALLOC_SIZE(count)): NULL or a cpu set of ceil(count/64) words"""
    cnt = args[0]
    if I.choose(2, "__sched_cpualloc fails/succeeds") == 0:
        return PV(None)
    k = I.ghost.get("allocs", 0)
    I.ghost["allocs"] = k + 1
    words = Z.UDiv(cnt.t + 63, bvc(64, 64))
    m = Mem("struct", f"cpuset#{k}", ctype="cpu_set_t", fields={}, alive=True, dyn_words=words)
    I.ghost.setdefault("heap", []).append(m)
    return PV(m, 0)


def x_cpufree(I, args, n):
    o = args[0].obj
    if o is None:
        return None
    if not getattr(o, "alive", False):
        I.oblige(f"free({o.name}): the block is still allocated (no double free)", "own", False)
        raise PathEnd()
    I.oblige(f"free({o.name}): the block is still allocated (no double free)", "own", True)
    o.alive = False
    for c in o.fields.values():
        if isinstance(c.value, Mem):
            c.value.alive = False
    return None


def _cpuset_bits(I, o):
    if "__bits" not in o.fields:
        o.fields["__bits"] = I.spec.field(I, o, "__bits", "unsigned long[16]")
    return o.fields["__bits"].value


def x_getaffinity(I, args, n):
    pid, size, mask = args
    o = mask.obj
    if o is None or o.kind != "struct" or not hasattr(o, "dyn_words"):
        raise Unsupported("sched_getaffinity mask")
    if not o.alive:
        I.oblige("sched_getaffinity on a freed cpu set", "own", False)
        raise PathEnd()
    I.oblige("sched_getaffinity(cpusetsize) does not exceed the allocation", "bounds", Z.ULE(size.t, o.dyn_words * 8))
    bits = _cpuset_bits(I, o)
    I.n_fresh += 1
    bits.content = Z.Array(f"kernel_mask!{I.n_fresh}", Z.BitVecSort(64), Z.BitVecSort(64))
    I.ghost["sched_getaffinity.args"] = args
    o.kernel_size = size.t          # ghost: how many bytes of the set the kernel was asked to fill (the last call counts)
    return sys_result(I, "sched_getaffinity", 32, (0, 0))


def cpu_bit(bits, c):
    """bit c of the mask words (c: BitVec 64)"""
    return Z.Extract(0, 0, Z.LShR(Z.Select(bits.content, Z.UDiv(c, bvc(64, 64))), Z.URem(c, bvc(64, 64)))) == 1


def x_cpucount(I, args, n):
    """__sched_cpucount(setsize, set) = number of set bits below 8*setsize; ghost P(c) = number of set bits in [c, N)"""
    size, mask = args
    o = mask.obj
    if o is None or o.kind != "struct" or not hasattr(o, "dyn_words"):
        raise Unsupported("__sched_cpucount mask")
    I.oblige("__sched_cpucount(setsize) does not exceed the allocation", "bounds", Z.ULE(size.t, o.dyn_words * 8))
    if getattr(o, "kernel_size", None) is not None:
        # functional: the count (and the scan it drives) covers the WHOLE mask the kernel filled, not a prefix of it
        I.oblige("CPU_COUNT_S is taken over the size sched_getaffinity() filled", "post", size.t == o.kernel_size)
    bits = _cpuset_bits(I, o)
    I.n_fresh += 1
    P = Z.Function(f"P!{I.n_fresh}", Z.BitVecSort(64), Z.BitVecSort(32))
    N = size.t * 8
    I.ghost["popcount"] = {"P": P, "bits": bits, "N": N, "content": bits.content}
    I.assume(Z.And(P(bvc(0, 64)) >= 0, Z.ULE(Z.ZeroExt(32, P(bvc(0, 64))), N)))
    return IV(P(bvc(0, 64)), 32, True)


def popcount_axioms(I, c):
    """defining equations of the ghost P at index c (BitVec 64): P(c) = P(c+1) + bit(c) below N, 0 from N on"""
    g = I.ghost["popcount"]
    P, N, bits = g["P"], g["N"], g["bits"]
    b = Z.If(cpu_bit(bits, c), bvc(1, 32), bvc(0, 32))
    return [Z.Implies(Z.ULT(c, N), P(c) == P(c + 1) + b), Z.Implies(Z.UGE(c, N), P(c) == 0),
            Z.Implies(Z.UGE(c + 1, N), P(c + 1) == 0), P(c) >= 0, P(c + 1) >= 0]


def x_fd_result(name):
    def f(I, args, n):
        return sys_result(I, name, 32, (0, 1 << 20))
    return f


def _havoc_struct(I, o, depth=0):
    if o is None or o.kind != "struct" or depth > 2:
        return
    for c in list(o.fields.values()):
        v = c.value
        if isinstance(v, PV) and isinstance(v.obj, Mem):
            _havoc_struct(I, v.obj, depth + 1)      # e.g. ifr_data -> the ethtool_cmd it points to
        elif isinstance(v, Mem) and v.kind == "struct":
            _havoc_struct(I, v, depth)              # nested struct / union member
    keep = {k: c for k, c in o.fields.items()
            if isinstance(c.value, PV) or (isinstance(c.value, Mem) and c.value.kind == "struct")}
    o.fields.clear()
    o.fields.update(keep)
    o.zeroed = False


def x_ioctl(I, args, n):
    p = args[2] if len(args) > 2 else None
    if isinstance(p, PV) and p.obj is not None:
        if p.obj.kind != "struct":
            raise Unsupported("ioctl argument")
        _havoc_struct(I, p.obj)
    return sys_result(I, "ioctl", 32, (0, 0))


def x_sysinfo(I, args, n):
    _havoc_struct(I, args[0].obj)
    return sys_result(I, "sysinfo", 32, (0, 0))


def x_strncpy(I, args, n):
    dst, src, cnt = args
    o = dst.obj
    if o is None or o.kind != "arr" or o.n is None:
        raise Unsupported("strncpy destination")
    I.has_nul(src, "strncpy source")
    I.oblige(f"strncpy writes n bytes inside {o.name}[{o.n}]", "bounds",
             Z.And(Z.ULE(bv64(dst.off), bvc(o.n, 64)), Z.ULE(cnt.t, bvc(o.n, 64) - bv64(dst.off))))
    I.n_fresh += 1
    o.content = Z.Array(f"strncpy!{I.n_fresh}", Z.BitVecSort(64), Z.BitVecSort(o.bits))
    o.nul_w = []
    return dst


def x_long_result(name):
    def f(I, args, n):
        return IV(I.fresh_bv(name, 64), 64, True)
    return f


def x_is_true(I, args, n):
    _use_obj(I, args[0], "PyObject_IsTrue")
    r = I.fresh_bv("is_true", 32)
    I.assume(Z.Or(r == 0, r == 1, r == -1))
    I.ghost["err"] = Z.Or(I.ghost["err"], r == -1)
    return IV(r, 32, True)


def x_getmntent_r(I, args, n):
    """getmntent_r(fp, &mnt, buf, buflen): NULL at the end, else the caller's struct filled with NUL-terminated strings
    that live inside buf; pre: buflen does not exceed buf"""
    fp, mnt, buf, blen = args
    o = buf.obj
    if o is None or o.kind != "arr" or o.n is None:
        raise Unsupported("getmntent_r buffer")
    I.oblige(f"getmntent_r: buflen within {o.name}[{o.n}]", "bounds",
             Z.ULE(bv64(buf.off) + Z.SignExt(32, blen.t), bvc(o.n, 64)) if blen.bits == 32 else Z.ULE(bv64(buf.off) + blen.t, bvc(o.n, 64)))
    if I.choose(2, "getmntent_r: end/record") == 0:
        return PV(None)
    st = mnt.obj
    if st is None or st.kind != "struct":
        raise Unsupported("getmntent_r result struct")
    k = I.ghost.get("records", 0)
    I.ghost["records"] = k + 1
    st.fields.clear()
    st.library_owned = False
    st.strings_valid = True
    I.ghost.setdefault("record_objs", []).append(st)
    return PV(st, 0)


def x_fprintf(I, args, n):
    return IV(I.fresh_bv("fprintf", 32), 32, True)


EXTERN = {
    "PyArg_ParseTuple": x_parse_tuple, "Py_BuildValue": x_build_value, "PyUnicode_DecodeFSDefault": x_decode,
    "PyList_New": x_list_new, "PyList_Append": x_list_append, "Py_DECREF": x_decref(False), "Py_XDECREF": x_decref(True),
    "Py_DecRef": x_decref(True), "_Py_DecRef": x_decref(False), "Py_INCREF": x_incref, "Py_IncRef": x_incref,
    "_Py_IncRef": x_incref, "Py_XINCREF": x_incref,
    "PyErr_SetFromErrno": x_set_err(), "PyErr_SetString": x_set_err(False), "PyErr_Format": x_set_err(),
    "PyErr_NoMemory": x_set_err(), "PyErr_SetFromErrnoWithFilename": x_set_err(), "PyErr_Occurred": x_err_occurred,
    "__errno_location": x_errno_loc, "getpriority": x_getpriority, "setpriority": x_setpriority, "syscall": x_syscall,
    "setutent": x_noop, "endutent": x_noop, "endmntent": x_noop, "PyEval_RestoreThread": x_noop,
    "PyEval_SaveThread": x_opaque_ptr("tstate", False), "setmntent": x_opaque_ptr("FILE"),
    "strcmp": x_strcmp, "__builtin_memset": x_memset, "memset": x_memset, "sprintf": x_sprintf,
    "PyLong_FromLong": x_pylong_fromlong, "PySequence_Check": x_seq_check, "PySequence_Size": x_seq_size,
    "PySequence_GetItem": x_seq_getitem, "PyLong_AsLong": x_aslong, "sched_setaffinity": x_int_result("sched_setaffinity"),
    "fprintf": x_fprintf, "getutent": x_record("getutent", "struct utmp"),
    "getmntent": x_record("getmntent", "struct mntent"), "getmntent_r": x_getmntent_r, "getnameinfo": x_getnameinfo, "Py_TYPE": x_py_type,
    "strnlen": x_strnlen, "PyUnicode_DecodeFSDefaultAndSize": x_decode_size,
    "socket": x_fd_result("socket"), "close": x_int_result("close"), "ioctl": x_ioctl, "sysinfo": x_sysinfo,
    "strncpy": x_strncpy, "kill": x_int_result("kill"), "sysconf": x_long_result("sysconf"),
    "PyObject_IsTrue": x_is_true, "PyUnicode_FromString": x_from_string, "PyBool_FromLong": x_pylong_fromlong,
    "psutil_PyErr_SetFromOSErrnoWithSyscall": x_set_err(), "psutil_debug": x_noop,
    "getifaddrs": x_getifaddrs, "freeifaddrs": x_noop,
    "__sched_cpualloc": x_cpualloc, "__sched_cpufree": x_cpufree, "sched_getaffinity": x_getaffinity,
    "__sched_cpucount": x_cpucount,
}


# --------------------------------------------------------------------------------------------------------
# contract of a C function + driver
# --------------------------------------------------------------------------------------------------------

def default_field(I, obj, name, ty):
    if name == "__bits" and hasattr(obj, "dyn_words"):
        a = I.new_array(f"{obj.name}.__bits", "unsigned long", obj.dyn_words)
        a.alive = obj.alive
        return Cell(ty, a, name)
    k = tkind(ty)
    if k[0] == "ptr":
        if k[1] in ("char",):
            # library-owned string (getmntent & co. return NUL-terminated fields)
            return Cell(ty, PV(I.new_array(f"{obj.name}.{name}", "char", None, cstr=True, content=None), 0), name)
        if getattr(obj, "strings_valid", False) and k[1] in ("char",):
            return Cell(ty, PV(I.new_array(f"{obj.name}.{name}", "char", None, cstr=True, content=None), 0), name)
        if getattr(obj, "library_owned", False):
            raise Unsupported(f"pointer field {name} of a library record")
        return Cell(ty, PV(None), name)     # local, not yet assigned: NULL (a dereference is then reported)
    if getattr(obj, "zeroed", False) and k[0] == "int":
        return Cell(ty, IV(bvc(0, k[1]), k[1], k[2]), name)
    if getattr(obj, "zeroed", False) and k[0] == "arr":
        a = I.new_array(f"{obj.name}.{name}", k[1], k[2], content=Z.K(Z.BitVecSort(64), bvc(0, tkind(k[1])[1])))
        return Cell(ty, a, name)
    v = I.fresh_of_type(ty, f"{obj.name}.{name}")
    if isinstance(v, IV):
        I.inputs.append((f"{obj.name}.{name}", v.t))
    return Cell(ty, v, name)


class CContract:
    def __init__(self, prop, file, func, filt=None, params=None, loops=None, post=None, externs=None, enums=None,
                 field=None, note="", replay=None, max_paths=4000, checks=None, merge=False):
        self.prop, self.file, self.func = prop, file, func
        self.filt = filt or func
        self.params = params or (lambda I, ps: None)
        self.loops = loops or {}
        self.post = post or (lambda I, ret: [])
        self.externs = externs or {}
        self.enums = enums or {}
        self.field = field or default_field
        self.note, self.replay, self.max_paths = note, replay, max_paths
        self.merge, self.merge_memo = merge, {}
        self.auto_cursors = {}
        self.checks = checks or {}      # extern name -> fn(I, args) -> [(name, goal)]: functional obligations at call sites
        self.name = f"{os.path.basename(file)}:{func}"


class Exit:
    def __init__(self, I, ret):
        self.I, self.ret, self.ghost = I, ret, I.ghost

    @property
    def null(self):
        return isinstance(self.ret, PV) and self.ret.obj is None


def next_prefix(trace):
    tr = list(trace)
    while tr:
        c, n, _ = tr[-1]
        if c + 1 < n:
            return [x[0] for x in tr[:-1]] + [c + 1]
        tr.pop()
    return None


def verify(spec):
    """-> dict(paths, exits, obligations[list of records], unsupported)"""
    tu = dump(spec.file, spec.filt)
    if spec.func not in tu:
        raise RuntimeError(f"{spec.func} not found in {spec.file} (filter {spec.filt})")
    fn = tu[spec.func]
    body = [c for c in fn["inner"] if c["kind"] == "CompoundStmt"][0]
    params = [c for c in fn["inner"] if c["kind"] == "ParmVarDecl"]
    prefix, paths, exits, infeasible, cut_ends = [], 0, 0, 0, 0
    spec.merge_memo = {}
    spec.auto_cursors = {}
    restarts = 0
    records = []
    seen = {}
    t0 = time.time()
    while prefix is not None:
        I = CInterp(fn, tu, spec, prefix)
        paths += 1
        if paths > spec.max_paths:
            raise Unsupported("path budget exceeded")
        try:
            sc = {}
            for p in params:
                ty = qt(p)
                if tkind(ty)[0] == "ptr":
                    sc[p["id"]] = Cell(ty, PV(I.pyobj(p.get("name", "arg"), borrowed=True)), p.get("name", ""))
                else:
                    sc[p["id"]] = Cell(ty, I.fresh_int(p.get("name", "arg"), ty, inp=True), p.get("name", ""))
            I.env = [sc]
            spec.params(I, {p.get("name"): sc[p["id"]] for p in params})
            try:
                I.run_body(body)
                ret = None
            except ReturnExc as r:
                ret = r.v
            if I.solver.check() == Z.unsat:      # contradictory assumptions must not count as a verified exit
                raise Infeasible()
            exits += 1
            x = Exit(I, ret)
            # generic exit obligations of a CPython entry point
            if isinstance(ret, PV):
                if ret.obj is None:
                    I.oblige("NULL is returned only with an exception set", "post", I.ghost["err"], f"{spec.file}: return")
                else:
                    I.oblige("an object is returned only with no exception set", "post", Z.Not(I.ghost["err"]), f"{spec.file}: return")
            for nm, g in spec.post(I, x):
                I.oblige(nm, "post", g, f"{spec.file}: return")
        except RestartVerify:
            restarts += 1
            if restarts > 8:
                raise Unsupported("loop cursors could not be stabilised")
            prefix, paths, exits, infeasible, cut_ends, records = [], 0, 0, 0, 0, []
            spec.merge_memo = {}
            continue
        except KeyError as e:
            raise Unsupported(f"the contract names a local variable the function no longer has: {e}")
        except Infeasible:
            infeasible += 1
            I.obl = []
        except PathEnd:
            if I.solver.check() == Z.unsat:
                infeasible += 1
                I.obl = []
            else:
                cut_ends += 1
        for o in I.obl:
            records.append(o)
        prefix = next_prefix(I.trace)
    # discharge (merge identical obligations reached on several paths)
    out = []
    groups = {}
    for o in records:
        groups.setdefault((o["name"], o["kind"], o["where"]), []).append(o)
    for (name, kind, where), obs in groups.items():
        res, model, ms, n_unknown = "proved", None, 0, 0
        for o in obs:
            s = Z.Solver()
            s.set("timeout", 20000)
            s.add(*o["pc"])
            s.add(Z.Not(o["goal"]))
            t1 = time.time()
            r = s.check()
            ms += int((time.time() - t1) * 1000)
            if r == Z.sat:
                res = "refuted"
                m = s.model()
                model = {}
                for nm, t in o["inputs"]:
                    try:
                        v = m.eval(t, model_completion=True)
                        val = v.as_signed_long() if Z.is_bv_value(v) else (Z.is_true(v) if Z.is_bool(v) else str(v))
                    except Exception:
                        continue
                    mm = re.fullmatch(r"(.*)\[(\d+)\]", nm)
                    if mm:
                        model.setdefault(mm.group(1), []).append(val & 0xff)
                    else:
                        model[nm] = val
                o["_smt2"] = s.to_smt2()
                break
            if r != Z.unsat:
                n_unknown += 1
                res = "unknown"
        rec = {"contract": spec.name, "cfg": "-", "name": name, "kind": "c-" + kind, "backend": "z3(bv)", "ms": ms,
               "where": where, "result": res, "paths": len(obs)}
        if model is not None:
            rec["model"] = model
        out.append(rec)
    # second back end: the conjunction of all proved goals, per path group, on cvc5
    return {"function": spec.name, "paths": paths, "exits": exits, "infeasible_paths": infeasible,
            "loop_body_ends": cut_ends, "obligations": out,
            "seconds": round(time.time() - t0, 2), "raw": records}


def cross_check_cvc5(raw, limit=60, timeout_s=20):
    """re-run proved obligations on cvc5 from the SMT-LIB text z3 prints (second back end)"""
    n_ok = n_bad = n_unk = 0
    bad = []
    for o in raw[:limit]:
        s = Z.Solver()
        s.add(*o["pc"])
        s.add(Z.Not(o["goal"]))
        txt = "(set-logic ALL)\n" + s.to_smt2()
        try:
            p = subprocess.run(["/usr/bin/cvc5", f"--tlimit={timeout_s * 1000}", "--lang=smt2"], input=txt,
                               capture_output=True, text=True, timeout=timeout_s + 5)
            ans = p.stdout.strip().splitlines()[0] if p.stdout.strip() else "unknown"
        except Exception:
            ans = "unknown"
        if ans == "unsat":
            n_ok += 1
        elif ans == "sat":
            n_bad += 1
            bad.append(o["name"])
        else:
            n_unk += 1
    return {"unsat": n_ok, "sat": n_bad, "unknown": n_unk, "sat_names": bad}
