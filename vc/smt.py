"""SMT-LIB2 term layer: one emitter, two back ends (z3-new, cvc5).

Terms are immutable (sort, s-expression text).  Sorts:
  'Int' 'Real' 'Bool' 'String'  ('Seq', s)  ('Array', k, v)  ('Tup', (s, ...))
  ('U', name)  -- uninterpreted sort
Python semantics assumed by the encoding are listed in DESIGN.md section 3.1.
"""
import fractions
import os
import re
import subprocess
import tempfile
import time

Z3 = os.environ.get("VERIF_Z3", "z3-new")
CVC5 = os.environ.get("VERIF_CVC5", "/usr/bin/cvc5")


class T:
    __slots__ = ("sort", "sx", "bk")

    def __init__(self, sort, sx, bk=None):
        self.sort = sort
        self.sx = sx
        self.bk = bk  # 'bytes' | 'str' for String-sorted python values

    def __repr__(self):
        return f"T<{sort_name(self.sort)}:{self.sx if len(self.sx) < 80 else self.sx[:77] + '...'}>"

    # guard against accidental python truthiness / equality on symbolic terms
    def __bool__(self):
        raise TypeError("symbolic term used as python bool: " + self.sx[:100])

    def __eq__(self, other):
        raise TypeError("symbolic term compared with python ==")

    def __hash__(self):
        return hash((str(self.sort), self.sx))


def is_t(x):
    return isinstance(x, T)


def sort_name(s):
    if isinstance(s, str):
        return s
    if s[0] == "Seq":
        return f"(Seq {sort_name(s[1])})"
    if s[0] == "Array":
        return f"(Array {sort_name(s[1])} {sort_name(s[2])})"
    if s[0] == "Tup":
        return "Tup_" + "_".join(_flat(x) for x in s[1])
    if s[0] == "U":
        return s[1]
    raise ValueError(s)


def _flat(s):
    return re.sub(r"[^A-Za-z0-9]+", "", sort_name(s)) or "X"


def esc(s):
    """SMT-LIB 2.6 string literal for a python str (code points <= 0x2FFFF)."""
    out = []
    for ch in s:
        o = ord(ch)
        if ch == '"':
            out.append('""')
        elif ch == "\\" or o < 32 or o > 126:
            out.append("\\u{%x}" % o)
        else:
            out.append(ch)
    return '"' + "".join(out) + '"'


def b2s(b):
    """bytes -> str, one code point per byte (latin-1 view): bytes and str
    share the SMT String sort; the byte<->code point map is injective."""
    return b.decode("latin-1")


def I(n):
    n = int(n)
    return T("Int", str(n) if n >= 0 else f"(- {-n})")


def R(x):
    if isinstance(x, float):
        x = fractions.Fraction(repr(x))  # decimal text of the literal (assumption: reals)
    x = fractions.Fraction(x)
    num, den = x.numerator, x.denominator
    s = f"{abs(num)}.0" if den == 1 else f"(/ {abs(num)}.0 {den}.0)"
    return T("Real", s if num >= 0 else f"(- {s})")


def B(b):
    return T("Bool", "true" if b else "false")


def S(s, bk="str"):
    if isinstance(s, bytes):
        return T("String", esc(b2s(s)), "bytes")
    return T("String", esc(s), bk)


TRUE = B(True)
FALSE = B(False)


def lift(v, want=None):
    """python constant -> term (bool before int!)."""
    if is_t(v):
        if want == "Real" and v.sort == "Int":
            return T("Real", f"(to_real {v.sx})")
        return v
    if isinstance(v, bool):
        if want in ("Int", "Real"):
            return lift(int(v), want)
        return B(v)
    if isinstance(v, int):
        return R(v) if want == "Real" else I(v)
    if isinstance(v, (float, fractions.Fraction)):
        return R(v)
    if isinstance(v, str):
        return S(v)
    if isinstance(v, bytes):
        return S(v)
    raise TypeError(f"cannot lift {type(v).__name__} to a term")


def app(op, sort, *args, bk=None):
    return T(sort, "(" + op + " " + " ".join(a.sx for a in args) + ")", bk)


def And(*xs):
    xs = [x for x in xs if not (x.sx == "true")]
    if any(x.sx == "false" for x in xs):
        return FALSE
    if not xs:
        return TRUE
    if len(xs) == 1:
        return xs[0]
    return app("and", "Bool", *xs)


def Or(*xs):
    xs = [x for x in xs if not (x.sx == "false")]
    if any(x.sx == "true" for x in xs):
        return TRUE
    if not xs:
        return FALSE
    if len(xs) == 1:
        return xs[0]
    return app("or", "Bool", *xs)


def Not(x):
    if x.sx == "true":
        return FALSE
    if x.sx == "false":
        return TRUE
    if x.sx.startswith("(not ") and x.sx.endswith(")"):
        inner = x.sx[5:-1]
        if _balanced(inner):
            return T("Bool", inner)
    return app("not", "Bool", x)


def _balanced(s):
    d = 0
    instr = False
    for i, ch in enumerate(s):
        if ch == '"':
            instr = not instr
        if instr:
            continue
        if ch == "(":
            d += 1
        elif ch == ")":
            d -= 1
            if d == 0 and i != len(s) - 1:
                return False
            if d < 0:
                return False
    return d == 0 and not instr


def Implies(a, b):
    if a.sx == "true":
        return b
    if a.sx == "false" or b.sx == "true":
        return TRUE
    return app("=>", "Bool", a, b)


def Ite(c, a, b):
    if c.sx == "true":
        return a
    if c.sx == "false":
        return b
    if a.sort != b.sort:
        if {a.sort, b.sort} == {"Int", "Real"}:
            a, b = lift(a, "Real"), lift(b, "Real")
        else:
            raise TypeError(f"ite sorts differ: {a.sort} {b.sort}")
    return app("ite", a.sort, c, a, b, bk=a.bk)


def Eq(a, b):
    if a.sort != b.sort:
        if {a.sort, b.sort} == {"Int", "Real"}:
            a, b = lift(a, "Real"), lift(b, "Real")
        else:
            return FALSE  # python: values of different types are unequal
    if a.sx == b.sx:
        return TRUE
    return app("=", "Bool", a, b)


def num2(a, b):
    """coerce a pair of numeric terms to a common sort."""
    if a.sort == "Bool":
        a = Ite(a, I(1), I(0))
    if b.sort == "Bool":
        b = Ite(b, I(1), I(0))
    if a.sort == "Real" or b.sort == "Real":
        return lift(a, "Real"), lift(b, "Real"), "Real"
    if a.sort == "Int" and b.sort == "Int":
        return a, b, "Int"
    raise TypeError(f"numeric op on {a.sort}, {b.sort}")


def _const_int(t):
    m = re.fullmatch(r"(\d+)|\(- (\d+)\)", t.sx)
    if not m or t.sort != "Int":
        return None
    return int(m.group(1)) if m.group(1) else -int(m.group(2))


def Add(a, b):
    a, b, s = num2(a, b)
    ca, cb = _const_int(a), _const_int(b)
    if ca is not None and cb is not None:
        return I(ca + cb)
    if ca == 0:
        return b
    if cb == 0:
        return a
    return app("+", s, a, b)


def Sub(a, b):
    a, b, s = num2(a, b)
    ca, cb = _const_int(a), _const_int(b)
    if ca is not None and cb is not None:
        return I(ca - cb)
    if cb == 0:
        return a
    return app("-", s, a, b)


def Mul(a, b):
    a, b, s = num2(a, b)
    ca, cb = _const_int(a), _const_int(b)
    if ca is not None and cb is not None:
        return I(ca * cb)
    return app("*", s, a, b)


def Neg(a):
    if a.sort == "Bool":
        a = Ite(a, I(1), I(0))
    c = _const_int(a)
    if c is not None:
        return I(-c)
    return app("-", a.sort, a)


def Cmp(op, a, b):
    """op in < <= > >= on numbers (or lexicographic on strings: unsupported)."""
    a, b, _ = num2(a, b)
    ca, cb = _const_int(a), _const_int(b)
    if ca is not None and cb is not None:
        return B({"<": ca < cb, "<=": ca <= cb, ">": ca > cb, ">=": ca >= cb}[op])
    return app(op, "Bool", a, b)


def Len(s):
    if s.sort == "String":
        return app("str.len", "Int", s)
    if s.sort[0] == "Seq":
        return app("seq.len", "Int", s)
    raise TypeError(f"len of {s.sort}")


def Concat(a, b):
    if a.sort == "String":
        return app("str.++", "String", a, b, bk=a.bk or b.bk)
    return app("seq.++", a.sort, a, b)


def Nth(s, i):
    if s.sort == "String":
        return app("str.at", "String", s, i, bk=s.bk)
    return app("seq.nth", s.sort[1], s, i)


def SeqUnit(x):
    return app("seq.unit", ("Seq", x.sort), x)


def SeqEmpty(elem):
    return T(("Seq", elem), f"(as seq.empty (Seq {sort_name(elem)}))")


def Substr(s, off, ln):
    if s.sort == "String":
        return app("str.substr", "String", s, off, ln, bk=s.bk)
    return app("seq.extract", s.sort, s, off, ln)


def Contains(s, sub):
    if s.sort == "String":
        return app("str.contains", "Bool", s, sub)
    return app("seq.contains", "Bool", s, sub)


def Select(a, k):
    return app("select", a.sort[2], a, k)


def Store(a, k, v):
    return app("store", a.sort, a, k, v)


def ConstArray(ksort, v):
    s = ("Array", ksort, v.sort)
    return T(s, f"((as const {sort_name(s)}) {v.sx})")


def ToReal(a):
    return lift(a, "Real")


def Forall(vars_, body):
    if body.sx == "true":
        return TRUE
    decl = " ".join(f"({v.sx} {sort_name(v.sort)})" for v in vars_)
    return T("Bool", f"(forall ({decl}) {body.sx})")


def Exists(vars_, body):
    decl = " ".join(f"({v.sx} {sort_name(v.sort)})" for v in vars_)
    return T("Bool", f"(exists ({decl}) {body.sx})")


# ---------------------------------------------------------------------------
# Script emission and solving
# ---------------------------------------------------------------------------

def collect_tuple_sorts(sorts):
    out = []
    seen = set()

    def walk(s):
        if isinstance(s, str):
            return
        if s[0] == "Tup":
            for x in s[1]:
                walk(x)
            n = sort_name(s)
            if n not in seen:
                seen.add(n)
                out.append(s)
        elif s[0] in ("Seq",):
            walk(s[1])
        elif s[0] == "Array":
            walk(s[1])
            walk(s[2])

    for s in sorts:
        walk(s)
    return out


def tup_mk(s):
    return "mk_" + sort_name(s)


def tup_sel(s, i):
    return f"{sort_name(s)}_f{i}"


def MkTup(sort, *args):
    return app(tup_mk(sort), sort, *args)


def TupGet(t, i):
    return app(tup_sel(t.sort, i), t.sort[1][i], t)


class Script:
    """One solver query: declarations, assertions, a list of goals checked
    with push/pop (each goal is asserted *negated*; expected answer unsat)."""

    def __init__(self):
        self.usorts = []     # uninterpreted sort names
        self.tsorts = []     # tuple sorts used
        self.decls = []      # (name, argsorts, ressort)
        self.asserts = []    # T Bool
        self.goals = []      # (name, T Bool)  -- to be proved under asserts
        self.values = []     # terms for get-value in a counter-model
        self.uses_strings = False

    def text(self, cvc5=False, only_goal=None, with_values=True, check_pc=True):
        L = ["(set-logic ALL)"]
        if not cvc5:
            L.insert(0, "(set-option :smt.string_solver seq)")
        for u in self.usorts:
            L.append(f"(declare-sort {u} 0)")
        for s in self.tsorts:
            n = sort_name(s)
            fields = " ".join(f"({tup_sel(s, i)} {sort_name(x)})" for i, x in enumerate(s[1]))
            L.append(f"(declare-datatypes (({n} 0)) ((({tup_mk(s)} {fields}))))")
        for name, args, res in self.decls:
            L.append(f"(declare-fun {name} ({' '.join(sort_name(a) for a in args)}) {sort_name(res)})")
        for a in self.asserts:
            L.append(f"(assert {a.sx})")
        if check_pc:
            L.append("(echo \"@pc\")")
            L.append("(check-sat)")
        for name, g in self.goals:
            if only_goal is not None and name != only_goal:
                continue
            L.append("(push 1)")
            L.append(f"(echo \"@goal {name}\")")
            L.append(f"(assert (not {g.sx}))")
            L.append("(check-sat)")
            if with_values and self.values:
                L.append("(echo \"@model\")")
                L.append("(get-value (" + " ".join(v.sx for v in self.values) + "))")
            L.append("(pop 1)")
        return "\n".join(L) + "\n"


# Solver budgets are RESOURCE limits (deterministic: the same query gets the same verdict whatever the machine load);
# the nominal "seconds" of a budget are converted with the idle-machine rates measured here (cvc5 ~75k units/s, z3 ~1M
# units/s) times two.  Wall-clock limits are only a safety net, WALL_FACTOR times the nominal budget.
CVC5_RLIMIT_PER_S = 150000
Z3_RLIMIT_PER_S = 2000000
WALL_FACTOR = 16


def run_solver(text, backend, timeout_s):
    """-> (stdout, seconds). Never raises on solver failure."""
    fd, path = tempfile.mkstemp(suffix=".smt2", prefix="vc_")
    try:
        with os.fdopen(fd, "w") as f:
            f.write(text)
        if backend == "z3":
            cmd = [Z3, "-smt2", f"-T:{int(timeout_s * WALL_FACTOR)}", f"rlimit={int(timeout_s * Z3_RLIMIT_PER_S)}",
                   "model_evaluator.completion=true", path]
        else:
            cmd = [CVC5, "--strings-exp", "--incremental", "--produce-models",
                   f"--rlimit-per={int(timeout_s * CVC5_RLIMIT_PER_S)}",
                   f"--tlimit-per={int(timeout_s * WALL_FACTOR * 1000)}", path]
        t0 = time.time()
        try:
            p = subprocess.run(cmd, capture_output=True, text=True, timeout=timeout_s * WALL_FACTOR * 8 + 30)
            out = p.stdout + ("\n;stderr: " + p.stderr if p.stderr.strip() else "")
        except subprocess.TimeoutExpired:
            out = "timeout"
        return out, time.time() - t0
    finally:
        try:
            os.unlink(path)
        except OSError:
            pass


def run_portfolio(text_by_backend, per_query_s, total_s, decisive):
    """run both back ends concurrently on the same obligation text; return as soon as one
    output is decisive (callable on its stdout), else both outputs.  -> {backend: (out, secs)}"""
    procs = {}
    files = []
    t0 = time.time()
    for backend, text in text_by_backend.items():
        fd, path = tempfile.mkstemp(suffix=".smt2", prefix="vc_")
        with os.fdopen(fd, "w") as f:
            f.write(text)
        files.append(path)
        if backend == "z3":
            cmd = [Z3, "-smt2", f"rlimit={int(per_query_s * Z3_RLIMIT_PER_S)}", "model_evaluator.completion=true", path]
        else:
            cmd = [CVC5, "--strings-exp", "--incremental", "--produce-models",
                   f"--rlimit-per={int(per_query_s * CVC5_RLIMIT_PER_S)}",
                   f"--tlimit-per={int(per_query_s * WALL_FACTOR * 1000)}", path]
        procs[backend] = subprocess.Popen(cmd, stdout=subprocess.PIPE, stderr=subprocess.DEVNULL, text=True)
    outs = {}
    deadline = t0 + total_s * WALL_FACTOR + 2
    try:
        while procs and time.time() < deadline:
            for b, p in list(procs.items()):
                if p.poll() is not None:
                    out = p.stdout.read()
                    outs[b] = (out, time.time() - t0)
                    del procs[b]
                    if decisive(out):
                        return outs
            time.sleep(0.005)
        return outs
    finally:
        for p in procs.values():
            try:
                p.kill()
                p.wait(timeout=5)
            except Exception:
                pass
        for path in files:
            try:
                os.unlink(path)
            except OSError:
                pass


def parse_output(out):
    """-> {'pc': res, goals: {name: (res, modeltext)}} where res in sat/unsat/unknown."""
    res = {"pc": None, "goals": {}}
    cur = None
    lines = out.splitlines()
    i = 0
    while i < len(lines):
        ln = lines[i].strip().strip('"')
        if ln == "@pc":
            cur = "pc"
        elif ln.startswith("@goal "):
            cur = ln[6:]
            res["goals"][cur] = ["unknown", ""]
        elif ln == "@model":
            buf = []
            i += 1
            depth = 0
            started = False
            while i < len(lines):
                l2 = lines[i]
                if l2.strip().strip('"').startswith("@goal ") or l2.strip().strip('"') == "@pc":
                    i -= 1
                    break
                buf.append(l2)
                d = _paren_delta(l2)
                depth += d
                started = started or "(" in l2
                if started and depth <= 0:
                    break
                i += 1
            if cur and cur != "pc":
                res["goals"][cur][1] = "\n".join(buf)
        elif ln in ("sat", "unsat", "unknown") or ln.startswith("timeout") or ln.startswith("(error"):
            r = ln if ln in ("sat", "unsat") else "unknown"
            if cur == "pc":
                if res["pc"] is None:
                    res["pc"] = r
            elif cur is not None and res["goals"][cur][0] == "unknown" and not res["goals"][cur][1]:
                if ln.startswith("(error") and res["goals"][cur][0] in ("sat", "unsat"):
                    pass
                else:
                    res["goals"][cur][0] = r
        i += 1
    return res


def _paren_delta(s):
    d = 0
    instr = False
    for ch in s:
        if ch == '"':
            instr = not instr
        elif not instr:
            if ch == "(":
                d += 1
            elif ch == ")":
                d -= 1
    return d


# --- model text -> python values -------------------------------------------

def sexp_parse(text):
    """parse s-expressions; strings keep their quotes."""
    toks = []
    i = 0
    n = len(text)
    while i < n:
        c = text[i]
        if c.isspace():
            i += 1
        elif c in "()":
            toks.append(c)
            i += 1
        elif c == '"':
            j = i + 1
            while True:
                if j >= n:
                    break
                if text[j] == '"':
                    if j + 1 < n and text[j + 1] == '"':
                        j += 2
                        continue
                    break
                j += 1
            toks.append(text[i:j + 1])
            i = j + 1
        elif c == ";":
            while i < n and text[i] != "\n":
                i += 1
        else:
            j = i
            while j < n and not text[j].isspace() and text[j] not in "()":
                j += 1
            toks.append(text[i:j])
            i = j
    pos = [0]

    def rd():
        t = toks[pos[0]]
        pos[0] += 1
        if t == "(":
            L = []
            while toks[pos[0]] != ")":
                L.append(rd())
            pos[0] += 1
            return L
        return t

    out = []
    while pos[0] < len(toks):
        out.append(rd())
    return out


def unesc(lit):
    s = lit[1:-1].replace('""', '"')

    def rep(m):
        return chr(int(m.group(1) or m.group(2), 16))

    s = re.sub(r"\\u\{([0-9a-fA-F]+)\}|\\u([0-9a-fA-F]{4})", rep, s)
    s = re.sub(r"\\x([0-9a-fA-F]{2})", lambda m: chr(int(m.group(1), 16)), s)
    return s


def sexp_value(e):
    """best-effort evaluation of a model value s-expression to python."""
    if isinstance(e, str):
        if e.startswith('"'):
            return unesc(e)
        if e in ("true", "false"):
            return e == "true"
        try:
            return int(e)
        except ValueError:
            pass
        try:
            return fractions.Fraction(e)
        except (ValueError, ZeroDivisionError):
            return e
    if not e:
        return []
    h = e[0]
    if h == "-" and len(e) == 2:
        v = sexp_value(e[1])
        return -v if isinstance(v, (int, fractions.Fraction)) else e
    if h == "/" and len(e) == 3:
        a, b = sexp_value(e[1]), sexp_value(e[2])
        try:
            return fractions.Fraction(a) / fractions.Fraction(b)
        except Exception:
            return e
    if h == "seq.unit":
        return [sexp_value(e[1])]
    if h == "seq.++":
        out = []
        for x in e[1:]:
            v = sexp_value(x)
            out.extend(v if isinstance(v, list) else [v])
        return out
    if h == "str.++":
        return "".join(str(sexp_value(x)) for x in e[1:])
    if h == "as" and len(e) == 3 and e[1] == "seq.empty":
        return []
    if isinstance(h, str) and h.startswith("mk_Tup_"):
        return tuple(sexp_value(x) for x in e[1:])
    if h == "to_real":
        return sexp_value(e[1])
    return e


def parse_model(modeltext, value_terms):
    """-> list of (term sx, python value or raw sexp)"""
    try:
        parsed = sexp_parse(modeltext)
    except Exception:
        return []
    if not parsed:
        return []
    pairs = parsed[0]
    out = []
    for k, p in enumerate(pairs):
        if isinstance(p, list) and len(p) == 2:
            name = value_terms[k].sx if k < len(value_terms) else str(p[0])
            out.append((name, sexp_value(p[1])))
    return out


# ---------------------------------------------------------------------------
# cone of influence and in-process feasibility pruning (z3 python API)
# ---------------------------------------------------------------------------

_TOK = re.compile(r"\|[^|]+\||[A-Za-z_][A-Za-z0-9_.!]*")
_SYMCACHE = {}


def syms_of(text, consts):
    toks = _SYMCACHE.get(text)
    if toks is None:
        toks = frozenset(_TOK.findall(text))
        if len(_SYMCACHE) < 200000:
            _SYMCACHE[text] = toks
    return toks & consts


def cone(pc, goal_text, consts, hops):
    """assertions within 'hops' steps of the goal in the shared-constant graph
    (uninterpreted functions do not connect). Dropping assumptions is sound."""
    asyms = [syms_of(a, consts) for a in pc]
    seen = set(syms_of(goal_text, consts))
    picked = set()
    for _ in range(hops):
        new = set()
        for k, ss in enumerate(asyms):
            if k not in picked and ss & seen:
                picked.add(k)
                new |= ss
        if not new - seen:
            seen |= new
            break
        seen |= new
    for k, ss in enumerate(asyms):
        if not ss:
            picked.add(k)
    return [pc[k] for k in sorted(picked)]


_Z3 = None
_FEAS_CACHE = {}
FEAS_STATS = {"checks": 0, "hits": 0, "unsat": 0}


def z3api():
    global _Z3
    if _Z3 is None:
        import sys
        p = "/opt/veriftools/pyvenv/lib/python3.11/site-packages"
        try:
            sys.path.append(p)
            import z3 as _z
            _Z3 = _z
        except Exception:
            _Z3 = False
        finally:
            if p in sys.path:
                sys.path.remove(p)
    return _Z3


def quick_unsat(header_lines, asserts, timeout_ms=300):
    """True iff z3 (in-process) proves the assertions inconsistent within the budget"""
    z = z3api()
    if not z:
        return False
    key = (tuple(header_lines), tuple(sorted(set(asserts))))
    if key in _FEAS_CACHE:
        FEAS_STATS["hits"] += 1
        return _FEAS_CACHE[key]
    FEAS_STATS["checks"] += 1
    res = False
    try:
        s = z.Solver()
        s.set("timeout", timeout_ms)
        s.from_string("\n".join(header_lines) + "\n" + "\n".join(f"(assert {a})" for a in asserts))
        res = s.check() == z.unsat
    except Exception:
        res = False
    if len(_FEAS_CACHE) < 500000:
        _FEAS_CACHE[key] = res
    if res:
        FEAS_STATS["unsat"] += 1
    return res
