"""Sidecar contracts: specification objects for real functions of /repo, the
registry, modular application at call sites, and per-function verification
(path enumeration -> obligations)."""
import ast
import fractions
import traceback

from . import smt
from .smt import T, is_t, I, R, B, S, And, Or, Not, Implies, Ite, Eq, lift
from .interp import (Interp, Ctx, Frame, Unsupported, NoContract, PathEnd, Infeasible, PyRaise, _Return, ExcVal, Obj, Opaque,
                     SymList, SymMap, SymSet, SymFile, RepoFunc, ModuleSrc, next_prefix, func_source_info,
                     PS_EXC, PS_EXC_BY_CLS, BoundMethod, EnvFunc, Builtin, FStr)


class LoopSpec:
    def __init__(self, inv=(), havoc=None, decreases=None, index=None, on_havoc=None):
        self.inv = list(inv)
        self.havoc = dict(havoc or {})
        self.decreases = decreases
        self.index = index
        self.on_havoc = on_havoc


class Contract:
    """Contract of one function of /repo.

    file/qualname locate the real FunctionDef (re-read on every run).
    setup(it, cfg) -> dict(args={param: value}, spec={name: value}) builds the
      symbolic inputs and may assume input invariants (kernel grammars ...).
    requires/ensures: clause strings in the pure expression subset.
    raises: {exception class name: clause or None}; every escaping exception
      whose class is not listed is an xpost violation.
    as a callee: returns(it, env) builds the (fresh) result, 'modifies' lists
      the state that is havoc-ed, ensures/raises are assumed.
    """

    def __init__(self, prop, file, qualname, *, which=0, name=None, setup=None, requires=(), ensures=(),
                 raises=None, modifies=(), returns=None, loops=None, env=None, inline=(), configs=None,
                 helpers=None, canaries=(), replay=None, known=(), note="", callee_only=False,
                 verify_only=False, exc_fields=None, effect=None, max_paths=20000, assumes=(), role="top",
                 ghost_init=None, callee_ensures=None, allow_no_exit=False, parallel=False, decorated=False,
                 raises_any=False, yield_may_raise=False):
        self.prop = prop
        self.file = file
        self.qualname = qualname
        self.which = which
        self.name = name or f"{file.split('/')[-1][:-3]}.{qualname}"
        self.setup = setup
        self.requires = list(requires)
        self.ensures = list(ensures)
        self.raises = dict(raises or {})
        self.modifies = list(modifies)
        self.returns = returns
        self.loops = dict(loops or {})
        self.env = dict(env or {})
        self.inline = set(inline)
        self.configs = list(configs) if configs else [{}]
        self.helpers = dict(helpers or {})
        self.canaries = list(canaries)
        self.replay = replay
        self.known = list(known)
        self.note = note
        self.callee_only = callee_only      # assumed contract (environment / library / trusted)
        self.verify_only = verify_only      # not offered to callers
        self.exc_fields = exc_fields
        self.effect = effect
        self.max_paths = max_paths
        self.assumes = list(assumes)
        self.role = role                    # 'top' (states the property) | 'helper'
        self.ghost_init = ghost_init
        self.callee_ensures = callee_ensures
        self.allow_no_exit = allow_no_exit
        self.parallel = parallel
        self.decorated = decorated          # verify the function as callers see it (through its decorators)
        self.raises_any = raises_any        # exceptional exits are not judged by this contract
        self.yield_may_raise = yield_may_raise

    @property
    def modname(self):
        return self.file.split("/")[-1][:-3]

    def key(self):
        return (self.modname, self.qualname)


class Registry:
    def __init__(self):
        self.by_key = {}
        self.all = []

    def add(self, c):
        self.all.append(c)
        if not c.verify_only:
            self.by_key.setdefault(c.key(), c)
        return c

    def lookup(self, key, current=None):
        c = self.by_key.get(key)
        if c is None:
            return None
        if current is not None and c.key() == current.key():
            return None if current.qualname == key[1] and not getattr(current, "recursive", False) else c
        return c


# ---------------------------------------------------------------------------
# value builders
# ---------------------------------------------------------------------------

def make_value(it, name, sort):
    """sort spec -> fresh python-side value.
    'Int' 'Real' 'Bool' 'Str' 'Bytes' ; ('Seq', s) ; ('Map', k, v) ; ('Set', e) ;
    ('Tup', (s...)) ; ('Opt', s) forks None/value ; ('NT', cls, sort) namedtuple of fresh fields"""
    if sort == "Int" or sort == "Real" or sort == "Bool":
        return it.fresh(name, sort)
    if sort == "Str":
        return it.fresh(name, "String", "str")
    if sort == "Bytes":
        return it.fresh(name, "String", "bytes")
    if sort == "String":
        return it.fresh(name, "String", "str")
    if isinstance(sort, tuple):
        k = sort[0]
        if k == "Seq":
            es, bk = smt_sort(sort[1])
            return SymList(it.fresh(name, ("Seq", es)), bk=bk)
        if k == "Map":
            ks, kbk = smt_sort(sort[1])
            vs, vbk = smt_sort(sort[2])
            m = SymMap(ks, vs, it.fresh(name + "_pres", ("Array", ks, "Bool")),
                       it.fresh(name + "_vals", ("Array", ks, vs)), keys=None, kbk=kbk)
            m.vbk = vbk
            if len(sort) > 3 and sort[3] == "keys":
                m.keys = it.fresh(name + "_keys", ("Seq", ks))
                keys_facts(it, m)
            return m
        if k == "Set":
            es, _ = smt_sort(sort[1])
            return SymSet(es, it.fresh(name + "_mem", ("Array", es, "Bool")))
        if k == "Tup":
            ss = tuple(smt_sort(x)[0] for x in sort[1])
            return it.fresh(name, ("Tup", ss))
        if k == "Opt":
            if it.choose(2, f"opt:{name}") == 0:
                return None
            return make_value(it, name, sort[1])
        if k == "NT":
            cls = sort[1]
            return cls(*[make_value(it, f"{name}_{f}", sort[2]) for f in cls._fields])
        if k == "U":
            return it.fresh(name, ("U", sort[1]))
    raise Unsupported(f"unknown sort spec {sort!r}")


def smt_sort(spec):
    """sort spec -> (smt sort, bytes/str kind)"""
    if spec in ("Int", "Real", "Bool"):
        return spec, None
    if spec in ("Str", "String"):
        return "String", "str"
    if spec == "Bytes":
        return "String", "bytes"
    if isinstance(spec, tuple):
        if spec[0] == "Seq":
            return ("Seq", smt_sort(spec[1])[0]), smt_sort(spec[1])[1]
        if spec[0] == "Tup":
            return ("Tup", tuple(smt_sort(x)[0] for x in spec[1])), None
        if spec[0] == "U":
            return ("U", spec[1]), None
        if spec[0] == "Array":
            return ("Array", smt_sort(spec[1])[0], smt_sort(spec[2])[0]), None
    raise Unsupported(f"no smt sort for {spec!r}")


def keys_facts(it, m):
    """ghost key sequence of a symbolic dict: distinct, and exactly the present keys"""
    c = it.ctx
    c.counter["_q"] += 1
    q = c.counter["_q"]
    i, j = T("Int", f"q{q}_i"), T("Int", f"q{q}_j")
    n = smt.Len(m.keys)
    c.assume(smt.Forall([i, j], Implies(And(smt.Cmp("<=", I(0), i), smt.Cmp("<", i, j), smt.Cmp("<", j, n)),
                                        Not(Eq(smt.Nth(m.keys, i), smt.Nth(m.keys, j))))))
    c.assume(smt.Forall([i], Implies(And(smt.Cmp("<=", I(0), i), smt.Cmp("<", i, n)),
                                     smt.Select(m.pres, smt.Nth(m.keys, i)))))
    k = T(m.ksort, f"q{q}_k")
    c.assume(smt.Forall([k], Implies(smt.Select(m.pres, k), smt.app("seq.contains", "Bool", m.keys, smt.SeqUnit(k)))))


# ---------------------------------------------------------------------------
# clause evaluation
# ---------------------------------------------------------------------------

def spec_env(it, c, base):
    env = dict(base)
    for k, v in c.helpers.items():
        env.setdefault(k, v if not callable(v) or isinstance(v, (type,)) else EnvFunc(k, v))
    env.setdefault("log", it.ctx.log)
    env.setdefault("ghost", it.ctx.ghost)
    return env


def eval_clause(it, clause, env, func):
    fr = Frame(func, env, None)
    it.spec_mode += 1
    try:
        if callable(clause):
            v = clause(it, env)
        else:
            v = it.eval(ast.parse(clause.strip(), mode="eval").body, fr)
    except PyRaise:
        v = False          # a clause whose value is undefined (missing key, bad index) does not hold
    finally:
        it.spec_mode -= 1
    return it.as_bool(v)


def clause_text(cl):
    if callable(cl):
        return getattr(cl, "__name__", "clause")
    return " ".join(cl.split())[:100]


def snapshot(v, memo=None):
    """copy of mutable python-side state for old()"""
    memo = memo if memo is not None else {}
    if id(v) in memo:
        return memo[id(v)]
    if isinstance(v, Obj):
        o = Obj(v.cls, {}, v.module)
        memo[id(v)] = o
        o.attrs = {k: snapshot(x, memo) for k, x in v.attrs.items()}
        return o
    if isinstance(v, SymList):
        return SymList(v.seq, v.bk, v.is_tuple)
    if isinstance(v, SymMap):
        m = SymMap(v.ksort, v.vsort, v.pres, v.vals, v.keys, v.kbk)
        for a in ("default", "vbk"):
            if hasattr(v, a):
                setattr(m, a, getattr(v, a))
        return m
    if isinstance(v, SymSet):
        return SymSet(v.esort, v.mem)
    if isinstance(v, list):
        return [snapshot(x, memo) for x in v]
    if isinstance(v, dict) and type(v) is dict:
        return {k: snapshot(x, memo) for k, x in v.items()}
    if isinstance(v, set):
        return set(v)
    return v


# ---------------------------------------------------------------------------
# modular application at a call site
# ---------------------------------------------------------------------------

def exc_class(name):
    if name in PS_EXC:
        return PS_EXC[name][0]
    import builtins
    return getattr(builtins, name)


def fresh_exc(it, cls, env):
    fields = {}
    if cls in PS_EXC_BY_CLS:
        for p, _ in PS_EXC_BY_CLS[cls][1]:
            fields[p] = it.fresh(f"exc_{p}", "Int") if p in ("pid",) else (
                it.fresh("exc_seconds", "Real") if p == "seconds" else Opaque(p))
    elif issubclass(cls, OSError):
        fields["errno"] = it.fresh("errno", "Int")
    return ExcVal(cls, (), fields)


def apply_contract(it, c, f, args, kwargs, node):
    if f.node is not None:
        env = it.bind_args(f, list(args), dict(kwargs))
    else:
        env = dict(kwargs)
        for k, v in enumerate(args):
            env[f"arg{k}"] = v
    env = spec_env(it, c, env)
    where = f"call of {c.name} at line {getattr(node, 'lineno', '?')}"
    for cl in c.requires:
        t = eval_clause(it, cl, env, f)
        it.ctx.oblige(f"pre@{c.name}:{clause_text(cl)}", "pre", t, where=where)
        it.ctx.assume(t)
    old = {k: snapshot(v) for k, v in env.items()}
    outcomes = [None] + list(c.raises.items())
    k = it.ctx.decide(len(outcomes), f"outcome:{c.name}")
    saved_old = it.old_env
    it.old_env = old
    try:
        if c.effect is not None:
            c.effect(it, env, None if k == 0 else outcomes[k][0])
        havoc_modifies(it, c, env)
        if k == 0:
            result = c.returns(it, env) if c.returns is not None else None
            env2 = dict(env, result=result)
            for cl in (c.ensures if c.callee_ensures is None else c.callee_ensures):
                it.ctx.assume(eval_clause(it, cl, env2, f))
            return result
        clsname, cond = outcomes[k]
        cls = exc_class(clsname)
        exc = fresh_exc(it, cls, env)
        for cnd in (cond if isinstance(cond, (list, tuple)) else [cond]):
            if cnd is not None:
                it.ctx.assume(eval_clause(it, cnd, dict(env, exc=exc), f))
        raise PyRaise(exc)
    finally:
        it.old_env = saved_old


def havoc_modifies(it, c, env):
    from .loops import fresh_like
    for m in c.modifies:
        if isinstance(m, tuple):
            path, sort = m
        else:
            path, sort = m, None
        if "." in path:
            base, attr = path.split(".", 1)
            o = env.get(base)
            if isinstance(o, Obj):
                cur = o.attrs.get(attr)
                if isinstance(cur, (SymList, SymMap, SymSet)) and sort is None:
                    from .loops import havoc_container
                    havoc_container(it, path, cur)
                else:
                    o.attrs[attr] = fresh_like(it, path, cur, sort)
            continue
        # module global
        key = f"{c.modname}.{path}"
        cur = it.env_over.get(key, it.ctx.ghost.get("__modcache__", {}).get(key))
        if isinstance(cur, (SymList, SymMap, SymSet)) and sort is None:
            from .loops import havoc_container
            havoc_container(it, path, cur)
        else:
            v = fresh_like(it, path, cur, sort)
            it.env_over[key] = v
            it.ctx.ghost.setdefault("__modcache__", {})[key] = v


# ---------------------------------------------------------------------------
# verification of one contract (all paths of the real function body)
# ---------------------------------------------------------------------------

class PathResult:
    def __init__(self):
        self.obligs = []       # (Oblig, pc list, decls list, usorts, values)
        self.undecided = []    # (message, pc, decls, usorts)
        self.exits = []        # ('return'|'raise:Cls'|'cut', npc)
        self.npaths = 0
        self.truncated = False


def verify_contract(c, cfg, registry, max_paths=None, root=()):
    mod = ModuleSrc.get(c.file)
    node = mod.find(c.qualname, c.which)
    res = PathResult()
    res.source = func_source_info(mod, node)
    prefix = list(root)
    import os as _os
    limit = int(_os.environ.get('VERIF_MAX_PATHS', 0)) or max_paths or c.max_paths
    while prefix is not None:
        ctx = Ctx(prefix)
        it = Interp(ctx, registry, c)
        it.cfg = cfg
        it.env_over.update(c.env)
        it.inline = set(c.inline)
        res.npaths += 1
        try:
            run_path(it, c, cfg, mod, node, res)
        except Infeasible:
            res.pruned = getattr(res, "pruned", 0) + 1
        except PathEnd:
            res.exits.append(("cut", list(ctx.pc), list(ctx.decls), list(ctx.usorts)))
        except Unsupported as e:
            res.undecided.append((f"{type(e).__name__}: {e}", list(ctx.pc), list(ctx.decls), list(ctx.usorts)))
        except RecursionError:
            res.undecided.append(("RecursionError in engine", list(ctx.pc), list(ctx.decls), list(ctx.usorts)))
        for ob in ctx.obligs:
            res.obligs.append((ob, ctx.pc[:ob.npc], ctx.decls[:], list(ctx.usorts), list(ctx.values)))
        prefix = next_prefix(ctx.trace, len(root))
        if res.npaths >= limit and prefix is not None:
            res.truncated = True
            res.undecided.append((f"path limit {limit} reached", [], [], []))
            break
    return res


def run_path(it, c, cfg, mod, node, res):
    ctx = it.ctx
    closure = None
    func = RepoFunc(mod, c.qualname, node, closure=None, cls=c.qualname.split(".")[0] if "." in c.qualname else None)
    su = c.setup(it, cfg) if c.setup is not None else {"args": {}}
    args = su.get("args", {})
    spec = su.get("spec", {})
    if "closure" in su:
        func.closure = Frame(RepoFunc(mod, c.qualname.split(".<locals>.")[0], None), dict(su["closure"]), None)
    ctx.values = list(su.get("values", []))
    if c.ghost_init:
        ctx.ghost.update(c.ghost_init(it, cfg) or {})
    if c.decorated and node.decorator_list:
        func = decorate(it, mod, func, node)
        it.inline.add((mod.name, c.qualname))
    # parameters: defaults from the real signature
    env = it.bind_args(func, [], dict(args))
    base = spec_env(it, c, dict(env, **spec))
    base["cfg"] = cfg
    it.spec_names = {k: v for k, v in base.items() if k not in env}
    for cl in c.requires:
        ctx.assume(eval_clause(it, cl, base, func))
    it.old_env = {k: snapshot(v) for k, v in base.items()}
    it.old_env["__globals__"] = dict(it.env_over)
    fr = Frame(func, env, func.closure)
    it.frames.append(fr)
    outcome = None
    fnode = func.node
    try:
        if isinstance(fnode, ast.Lambda):
            result = it.eval(fnode.body, fr)
        else:
            from .interp import _is_generator
            if _is_generator(fnode):
                ys = []

                def sink(v):
                    ys.append(v)
                    if c.yield_may_raise and it.choose(2, "consumer raises at yield") == 1:
                        it.ctx.ghost["block_raised"] = True
                        raise PyRaise(ExcVal(KeyboardInterrupt if False else RuntimeError, ("raised inside the block",)))

                fr.yield_sink = sink
                it.exec_block(fnode.body, fr)
                result = ys
            else:
                it.exec_block(fnode.body, fr)
                result = None
        outcome = ("return", result)
    except _Return as r:
        outcome = ("return", r.v)
    except PyRaise as pr:
        outcome = ("raise", pr.exc)
    finally:
        it.frames.pop()
    post_env = dict(base)      # clauses speak about entry values of parameters; mutable objects are shared
    post_env["log"] = ctx.log
    if outcome[0] == "return":
        post_env["result"] = outcome[1]
        res.exits.append(("return", list(ctx.pc), list(ctx.decls), list(ctx.usorts)))
        for k, cl in enumerate(c.ensures):
            t = eval_clause(it, cl, post_env, func)
            ctx.oblige(f"post#{k}:{clause_text(cl)}", "post", t, where="normal exit", info={"result": repr(outcome[1])[:200]})
        for k, cl in enumerate(c.canaries):
            t = eval_clause(it, cl, post_env, func)
            ctx.oblige(f"canary#{k}:{clause_text(cl)}", "canary", t, where="normal exit")
    else:
        exc = outcome[1]
        res.exits.append((f"raise:{exc.cls.__name__}", list(ctx.pc), list(ctx.decls), list(ctx.usorts)))
        post_env["exc"] = exc
        allowed = None
        if c.raises_any:
            return
        for nm, cond in c.raises.items():
            if issubclass(exc.cls, exc_class(nm)):
                # most specific listed class wins
                if allowed is None or issubclass(exc_class(nm), exc_class(allowed[0])):
                    allowed = (nm, cond)
        if allowed is None:
            ctx.oblige(f"xpost:unexpected {exc.cls.__name__}", "xpost", B(False),
                       where=f"escaping {exc.cls.__name__}", info={"exc": repr(exc)[:200]})
        else:
            conds = allowed[1] if isinstance(allowed[1], (list, tuple)) else [allowed[1]]
            for cond in conds:
                if cond is None:
                    ctx.oblige(f"xpost:{allowed[0]}:allowed", "xpost", B(True), where="exceptional exit")
                    continue
                t = eval_clause(it, cond, post_env, func)
                ctx.oblige(f"xpost:{allowed[0]}:{clause_text(cond)}", "xpost", t, where="exceptional exit")


def split_roots(c, cfg, registry, want=48, max_probe=400):
    """decision prefixes whose subtrees partition the path space (for parallel exploration)"""
    mod = ModuleSrc.get(c.file)
    node = mod.find(c.qualname, c.which)
    roots = [[]]
    done = []
    probes = 0
    while roots and len(roots) + len(done) < want and probes < max_probe:
        r = roots.pop(0)
        ctx = Ctx(r)
        it = Interp(ctx, registry, c)
        it.cfg = cfg
        it.env_over.update(c.env)
        it.inline = set(c.inline)
        probes += 1
        res = PathResult()
        try:
            run_path(it, c, cfg, mod, node, res)
        except (PathEnd, Unsupported, RecursionError):
            pass
        except Exception:
            pass
        if len(ctx.trace) > len(r):
            n = ctx.trace[len(r)][0]
            roots.extend(r + [k] for k in range(n))
        else:
            done.append(r)
    return done + roots


def decorate(it, mod, func, node):
    """the callable that callers of a decorated method see: the decorators' inner
    wrapper functions (read from the real source) around the real body"""
    cur = func
    for d in reversed(node.decorator_list):
        name = ast.unparse(d)
        if name in ("property", "staticmethod", "classmethod"):
            continue
        dmod, dnode = None, None
        for m in (mod, it.repo_module("_common")):
            st = m.toplevel(name)
            if isinstance(st, ast.FunctionDef):
                dmod, dnode = m, st
                break
        if dnode is None:
            raise Unsupported(f"decorator {name} not found")
        # the decorator returns its inner function: find `return <name>` and that def
        ret = [s_ for s_ in dnode.body if isinstance(s_, ast.Return)]
        if not ret or not isinstance(ret[-1].value, ast.Name):
            raise Unsupported(f"decorator {name}: cannot identify the wrapper it returns")
        wname = ret[-1].value.id
        inner = [s_ for s_ in dnode.body if isinstance(s_, ast.FunctionDef) and s_.name == wname]
        if not inner:
            raise Unsupported(f"decorator {name}: wrapper {wname} not found")
        param = dnode.args.args[0].arg
        outer = RepoFunc(dmod, name, dnode)
        clo = Frame(outer, {param: cur}, None)
        # sibling helper defs of the decorator (cache_activate ...) are visible too
        for s_ in dnode.body:
            if isinstance(s_, ast.FunctionDef) and s_.name != wname:
                clo.env[s_.name] = RepoFunc(dmod, f"{name}.<locals>.{s_.name}", s_, closure=clo)
        cur = RepoFunc(dmod, f"{name}.<locals>.{wname}", inner[0], closure=clo)
    return cur
