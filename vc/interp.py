"""Symbolic executor for a subset of Python, run on the *real* function ASTs.

Re-execution based path exploration: a path is a list of decisions; the
interpreter walks the AST from the start for every path.  Values are ordinary
Python objects whose leaves may be SMT terms (smt.T).  Anything outside the
supported subset raises Unsupported (verdict: undecided), never a silent skip.
"""
import ast
import collections
import fractions
import hashlib
import os
import sys

from . import smt
from .smt import T, is_t, I, R, B, S, And, Or, Not, Implies, Ite, Eq, lift

PRUNE = os.environ.get('VERIF_PRUNE', '1') != '0'
TRUE_T = B(True)
FALSE_T = B(False)
REPO = os.environ.get("VERIF_REPO", "/repo")


class Unsupported(Exception):
    pass


class NoContract(Unsupported):
    pass


class PathEnd(Exception):
    """path cut (after inv.step, or assume false)"""


class Infeasible(PathEnd):
    """the path condition was proved inconsistent (pruned)"""


class PyRaise(Exception):
    def __init__(self, exc):
        self.exc = exc


class _Return(Exception):
    def __init__(self, v):
        self.v = v


class _Break(Exception):
    pass


class _Continue(Exception):
    pass


# --- psutil exception stand-ins (constructor signatures are checked against
# --- the _common.py AST by a table obligation, see contracts/common.py) -----
class Error(Exception):
    pass


class NoSuchProcess(Error):
    pass


class ZombieProcess(NoSuchProcess):
    pass


class AccessDenied(Error):
    pass


class TimeoutExpired(Error):
    pass


PS_EXC = {
    "Error": (Error, []),
    "NoSuchProcess": (NoSuchProcess, [("pid", "!"), ("name", None), ("msg", None)]),
    "ZombieProcess": (ZombieProcess, [("pid", "!"), ("name", None), ("ppid", None), ("msg", None)]),
    "AccessDenied": (AccessDenied, [("pid", None), ("name", None), ("msg", None)]),
    "TimeoutExpired": (TimeoutExpired, [("seconds", "!"), ("pid", None), ("name", None)]),
}
PS_EXC_BY_CLS = {v[0]: (k, v[1]) for k, v in PS_EXC.items()}


class ExcVal:
    def __init__(self, cls, args=(), fields=None):
        self.cls = cls
        self.args = tuple(args)
        self.fields = dict(fields or {})

    def __repr__(self):
        return f"ExcVal({self.cls.__name__}, {self.args}, {self.fields})"


class Opaque:
    """a value whose content is not modelled (message texts, reprs)"""

    def __init__(self, what=""):
        self.what = what

    def __repr__(self):
        return f"Opaque({self.what})"


class FStr:
    """f-string with symbolic pieces; parts are python str or terms/opaque"""

    def __init__(self, parts):
        self.parts = parts

    def __repr__(self):
        return "FStr(" + "+".join(p if isinstance(p, str) else "{" + (p.sx[:30] if is_t(p) else "?") + "}" for p in self.parts) + ")"

    def tail(self):
        return self.parts[-1] if self.parts and isinstance(self.parts[-1], str) else ""


class Obj:
    """instance of a repo class (attribute dict, concrete attribute names)"""

    def __init__(self, cls, attrs=None, module=None):
        self.cls = cls          # class name, e.g. 'Process'
        self.module = module    # ModuleSrc where methods are looked up
        self.attrs = dict(attrs or {})

    def __repr__(self):
        return f"Obj({self.cls})"


class SymMap:
    """dict with symbolic keys: presence array + value array (+ ghost key seq)"""

    def __init__(self, ksort, vsort, pres, vals, keys=None, kbk=None):
        self.ksort, self.vsort, self.pres, self.vals, self.keys, self.kbk = ksort, vsort, pres, vals, keys, kbk

    def __repr__(self):
        return f"SymMap({smt.sort_name(self.ksort)}->{smt.sort_name(self.vsort)})"


class SymSet:
    def __init__(self, esort, mem):
        self.esort, self.mem = esort, mem


class SymList:
    """python list (or tuple) of symbolic length: mutable cell holding a Seq term;
    elem_bk is the bytes/str flavour of String elements; wrap/unwrap convert
    between element terms and python-side element values (e.g. tuples)"""

    def __init__(self, seq, bk=None, is_tuple=False):
        self.seq, self.bk, self.is_tuple = seq, bk, is_tuple

    @property
    def esort(self):
        return self.seq.sort[1]

    def __repr__(self):
        return f"SymList({self.seq.sx[:40]})"


class SymFile:
    """open file: a sequence of lines (each line ends with \\n except maybe the last)"""

    def __init__(self, lines, bk, pos=None):
        self.lines = lines      # T (Seq String)
        self.bk = bk
        self.pos = pos if pos is not None else I(0)
        self.closed = False


class SymRange:
    def __init__(self, lo, hi):
        self.lo, self.hi = lo, hi


class RegexObj:
    def __init__(self, pattern, flags=0):
        self.pattern = pattern
        self.flags = int(flags)


class RepoFunc:
    def __init__(self, module, qualname, node, closure=None, cls=None):
        self.module, self.qualname, self.node, self.closure, self.cls = module, qualname, node, closure, cls
        self.defaults = None

    def __repr__(self):
        return f"RepoFunc({self.module.name}.{self.qualname})"


class BoundMethod:
    def __init__(self, obj, func):
        self.obj, self.func = obj, func


class Builtin:
    def __init__(self, name, fn):
        self.name, self.fn = name, fn

    def __call__(self, *a, **k):
        return self.fn(*a, **k)

    def __repr__(self):
        return f"Builtin({self.name})"


class EnvFunc:
    """environment / library model supplied by a contract module:
    fn(interp, *args, **kwargs)"""

    def __init__(self, name, fn):
        self.name, self.fn = name, fn


class PyModule:
    def __init__(self, mod, name):
        self.mod, self.name = mod, name


class RepoClass:
    def __init__(self, module, name, node):
        self.module, self.name, self.node = module, name, node


class GenObj:
    def __init__(self, func, args, kwargs):
        self.func, self.args, self.kwargs = func, args, kwargs


# ---------------------------------------------------------------------------
# repository source access
# ---------------------------------------------------------------------------

class ModuleSrc:
    _cache = {}

    def __init__(self, relpath):
        self.relpath = relpath
        self.path = os.path.join(REPO, relpath)
        self.name = os.path.splitext(os.path.basename(relpath))[0]
        with open(self.path, "rb") as f:
            self.src = f.read().decode("utf-8")
        self.tree = ast.parse(self.src, filename=self.path)
        self.sha = hashlib.sha256(self.src.encode()).hexdigest()

    @classmethod
    def get(cls, relpath):
        key = (REPO, relpath)
        if key not in cls._cache:
            cls._cache[key] = ModuleSrc(relpath)
        return cls._cache[key]

    @classmethod
    def reset(cls):
        cls._cache.clear()

    def _walk_defs(self, body):
        """yield statements of a body, descending into if/try/with blocks"""
        for st in body:
            yield st
            if isinstance(st, ast.If):
                yield from self._walk_defs(st.body)
                yield from self._walk_defs(st.orelse)
            elif isinstance(st, ast.Try):
                yield from self._walk_defs(st.body)
                for h in st.handlers:
                    yield from self._walk_defs(h.body)
                yield from self._walk_defs(st.orelse)
                yield from self._walk_defs(st.finalbody)
            elif isinstance(st, ast.With):
                yield from self._walk_defs(st.body)

    def find(self, qualname, which=0):
        """locate a FunctionDef/ClassDef by qualified name, e.g.
        'Process._parse_stat_file' or 'cpu_percent.<locals>.calculate'.
        'which' selects among several definitions with the same name."""
        parts = [p for p in qualname.split(".") if p != "<locals>"]
        body = self.tree.body
        node = None
        for k, p in enumerate(parts):
            cands = [st for st in self._walk_defs(body)
                     if isinstance(st, (ast.FunctionDef, ast.ClassDef, ast.AsyncFunctionDef)) and st.name == p]
            if not cands:
                raise Unsupported(f"{self.relpath}: cannot locate {qualname}")
            if callable(which) and k == len(parts) - 1 and len(parts) == 1:
                # several conditional definitions at module level: the contract says in which world it speaks
                # (which(node, guards) -> bool, guards = [(test AST, polarity)] of the enclosing ifs), not which position
                picked = [st for st, guards in self.guarded_defs(p) if st in cands and which(st, guards)]
                if len(picked) != 1:
                    raise Unsupported(f"{self.relpath}: {len(picked)} definitions of {qualname} match the contract's world")
                node = picked[0]
            else:
                w = which if isinstance(which, int) else 0
                node = cands[w if k == len(parts) - 1 and w < len(cands) else 0]
            body = node.body
        return node

    def guarded_defs(self, name):
        """every top-level statement binding `name`, each with the if-conditions guarding it: [(stmt, [(test, polarity)])]"""
        out = []

        def binds(st):
            if isinstance(st, (ast.FunctionDef, ast.ClassDef)):
                return st.name == name
            if isinstance(st, ast.Assign):
                for tg in st.targets:
                    if isinstance(tg, ast.Name) and tg.id == name:
                        return True
                    if isinstance(tg, ast.Tuple) and any(isinstance(e, ast.Name) and e.id == name for e in tg.elts):
                        return True
            return False

        def walk(body, guards):
            for st in body:
                if binds(st):
                    out.append((st, list(guards)))
                if isinstance(st, ast.If):
                    walk(st.body, guards + [(st.test, True)])
                    walk(st.orelse, guards + [(st.test, False)])
                elif isinstance(st, ast.Try):
                    walk(st.body, guards)
                    for h in st.handlers:
                        walk(h.body, guards)
                    walk(st.orelse, guards)
                elif isinstance(st, ast.With):
                    walk(st.body, guards)
        walk(self.tree.body, [])
        return out

    def toplevel(self, name):
        """last top-level statement binding name (Assign/def/class/import)"""
        found = None
        for st in self._walk_defs(self.tree.body):
            if isinstance(st, (ast.FunctionDef, ast.ClassDef)) and st.name == name:
                found = found or st
            elif isinstance(st, ast.Assign):
                for tg in st.targets:
                    if isinstance(tg, ast.Name) and tg.id == name:
                        found = found or st
                    elif isinstance(tg, ast.Tuple):
                        for e in tg.elts:
                            if isinstance(e, ast.Name) and e.id == name:
                                found = found or st
            elif isinstance(st, ast.ImportFrom):
                for al in st.names:
                    if (al.asname or al.name) == name:
                        found = found or st
            elif isinstance(st, ast.Import):
                for al in st.names:
                    if (al.asname or al.name.split(".")[0]) == name:
                        found = found or st
        return found


def func_source_info(mod, node):
    seg = ast.get_source_segment(mod.src, node) or ""
    return {"file": mod.relpath, "lines": [node.lineno, node.end_lineno],
            "sha256": hashlib.sha256(seg.encode()).hexdigest()}


# ---------------------------------------------------------------------------
# per-path context
# ---------------------------------------------------------------------------

class Oblig:
    __slots__ = ("name", "kind", "goal", "npc", "ndecl", "where", "info")

    def __init__(self, name, kind, goal, npc, ndecl, where, info=None):
        self.name, self.kind, self.goal, self.npc, self.ndecl, self.where, self.info = name, kind, goal, npc, ndecl, where, info


class Ctx:
    """state of one path"""

    def __init__(self, prefix):
        self.prefix = list(prefix)
        self.trace = []          # (n_options, chosen, label)
        self.decls = []          # (name, argsorts, ressort)
        self.declset = {}
        self.usorts = []
        self.pc = []             # list of T Bool (assumptions + branch conditions)
        self.obligs = []
        self.counter = collections.Counter()
        self.ghost = {}
        self.log = []            # effect log
        self.values = []         # input terms for counter-models
        self.notes = []
        self.univ = []           # assumed universal facts j -> Bool term (instantiated at loop indices)

    def decide(self, n, label=""):
        k = len(self.trace)
        if k < len(self.prefix):
            c = self.prefix[k]
        else:
            c = 0
        self.trace.append((n, c, label))
        return c

    def fresh(self, base, sort, bk=None):
        base = "".join(ch if ch.isalnum() or ch == "_" else "_" for ch in str(base)) or "v"
        if base in SMT_RESERVED or base[0].isdigit():
            base = base + "_"
        self.counter[base] += 1
        name = f"{base}!{self.counter[base]}" if self.counter[base] > 1 or base in self.declset else base
        while name in self.declset:
            self.counter[base] += 1
            name = f"{base}!{self.counter[base]}"
        self.declare(name, [], sort)
        if not isinstance(sort, str) and sort[0] == "U" and sort[1] not in self.usorts:
            self.usorts.append(sort[1])
        return T(sort, name if "!" not in name else f"|{name}|", bk)

    def declare(self, name, args, res):
        if name in self.declset:
            if self.declset[name] != (tuple(map(str, args)), str(res)):
                raise Unsupported(f"symbol {name} redeclared with a different sort")
            return
        self.declset[name] = (tuple(map(str, args)), str(res))
        self.decls.append((name if "!" not in name else f"|{name}|", list(args), res))
        for s in list(args) + [res]:
            self._note_usort(s)

    def _note_usort(self, s):
        if isinstance(s, str):
            return
        if s[0] == "U":
            if s[1] not in self.usorts:
                self.usorts.append(s[1])
        elif s[0] == "Tup":
            for x in s[1]:
                self._note_usort(x)
        else:
            for x in s[1:]:
                self._note_usort(x)

    def uf(self, name, args, res):
        self.declare(name, args, res)
        return name

    def assume(self, t):
        if t.sx != "true":
            self.pc.append(t)

    def const_names(self):
        if getattr(self, "_cn_len", -1) != len(self.decls):
            self._cn = frozenset(n for n, a, r in self.decls if not a)
            self._cn_len = len(self.decls)
        return self._cn

    def oblige(self, name, kind, goal, where="", info=None):
        self.obligs.append(Oblig(name, kind, goal, len(self.pc), len(self.decls), where, info))


SMT_RESERVED = set("""sin cos tan exp pi abs div mod not and or xor select store true false ite let forall exists as
 int real str re seq set bag min max sqrt pow to_int to_real is_int distinct iff implies par assert check define
 declare push pop exit get set_option match arcsin arccos arctan csc sec cot sinh cosh tanh iand int2bv bv2nat
 fp roundNearestTiesToEven RNE RNA RTP RTN RTZ NaN nil cons head tail insert tuple unit len contains at replace
 update rev prefixof suffixof indexof range loop opt comp diff inter union complement all allchar none member
 subset card choose witness lambda""".split())


def next_prefix(trace, floor=0):
    """next decision prefix in DFS order; None when the subtree rooted at the first
    'floor' decisions is exhausted"""
    tr = list(trace)
    while len(tr) > floor:
        n, c, _ = tr[-1]
        if c + 1 < n:
            return [x[1] for x in tr[:-1]] + [c + 1]
        tr.pop()
    return None


# ---------------------------------------------------------------------------
# the interpreter
# ---------------------------------------------------------------------------

class Frame:
    def __init__(self, func, env, parent=None):
        self.func = func
        self.env = env
        self.parent = parent     # enclosing (closure) frame
        self.cur_exc = None
        self.yield_sink = None


WS_CHARS = " \t\n\r\x0b\x0c"


class Interp:
    def __init__(self, ctx, registry, contract=None):
        self.ctx = ctx
        self.reg = registry      # contracts registry
        self.contract = contract
        self.spec_mode = 0
        self.frames = []
        self.env_over = {}       # name / dotted name -> value (contract env)
        self.inline = set()
        self.depth = 0
        self.loop_ord = {}       # id(node) -> ordinal within target function
        from . import lib
        self.lib = lib
        self.builtins = lib.make_builtins(self)

    # -- helpers ------------------------------------------------------------
    def fresh(self, base, sort, bk=None):
        return self.ctx.fresh(base, sort, bk)

    def assume(self, t):
        self.ctx.assume(self.as_bool(t))

    def choose(self, n, label=""):
        return self.ctx.decide(n, label)

    def prune(self, lit):
        """drop the path if the newest literal contradicts its cone of influence
        (in-process z3, small budget; only a proved 'unsat' prunes)"""
        if not PRUNE or self.spec_mode:
            return
        ctx = self.ctx
        consts = ctx.const_names()
        pc = [p.sx for p in ctx.pc]
        sub = smt.cone(pc, lit.sx, consts, 2)
        if any("(forall " in a or "(exists " in a for a in sub):
            sub = [a for a in sub if "(forall " not in a and "(exists " not in a]
        text = " ".join(sub)
        toks = set(smt._TOK.findall(text))
        header = [f"(declare-sort {u} 0)" for u in ctx.usorts]
        tsorts = smt.collect_tuple_sorts([r for n, a, r in ctx.decls if n in toks] +
                                         [x for n, a, r in ctx.decls if n in toks for x in a])
        for s_ in tsorts:
            fields = " ".join(f"({smt.tup_sel(s_, i)} {smt.sort_name(x)})" for i, x in enumerate(s_[1]))
            header.append(f"(declare-datatypes (({smt.sort_name(s_)} 0)) ((({smt.tup_mk(s_)} {fields}))))")
        for n, a, r in ctx.decls:
            if n in toks:
                header.append(f"(declare-fun {n} ({' '.join(smt.sort_name(x) for x in a)}) {smt.sort_name(r)})")
        stringy = any(("str." in a or "seq." in a) for a in sub)
        if smt.quick_unsat(header, sub, 80 if stringy else 300):
            raise Infeasible()

    def forall_int(self, fn, instances=()):
        """assume (forall j. fn(j)) and remember it, so that ground instances can be
        added at loop indices (instantiating an assumed universal fact is sound)"""
        self.ctx.counter["_q"] += 1
        j = T("Int", f"q{self.ctx.counter['_q']}_j")
        self.ctx.assume(smt.Forall([j], fn(j)))
        self.ctx.univ.append(fn)
        for x in instances:
            self.ctx.assume(fn(x))

    def raise_(self, cls, *args, **fields):
        raise PyRaise(ExcVal(cls, args, fields))

    def unsupported(self, msg, node=None):
        loc = f" at line {getattr(node, 'lineno', '?')}" if node is not None else ""
        raise Unsupported(msg + loc)

    def as_bool(self, v):
        """value -> Bool term without forking (spec use)"""
        if is_t(v):
            if v.sort == "Bool":
                return v
            if v.sort in ("Int", "Real"):
                return Not(Eq(v, lift(0, v.sort)))
            if v.sort == "String" or v.sort[0] == "Seq":
                return smt.Cmp(">", smt.Len(v), I(0))
            raise Unsupported(f"truth of {v.sort}")
        if isinstance(v, (SymMap, SymSet, SymFile, Obj)):
            raise Unsupported("truth value of symbolic container")
        if isinstance(v, FStr):
            return B(True)
        return B(bool(v))

    def truth(self, v, label="branch"):
        """python truthiness; forks on symbolic conditions (code mode)"""
        if is_t(v) or isinstance(v, (SymMap, SymSet)):
            if isinstance(v, SymMap):
                if v.keys is None:
                    raise Unsupported("truth of symbolic dict without key sequence")
                v = smt.Cmp(">", smt.Len(v.keys), I(0))
            elif isinstance(v, SymSet):
                raise Unsupported("truth of symbolic set")
            t = self.as_bool(v)
            if t.sx == "true":
                return True
            if t.sx == "false":
                return False
            if self.spec_mode:
                raise Unsupported("symbolic truth test in spec mode must use and/or/implies/ite")
            c = self.ctx.decide(2, label)
            lit = t if c == 0 else Not(t)
            self.ctx.assume(lit)
            self.prune(lit)
            return c == 0
        if isinstance(v, (FStr, Obj, Opaque, RepoFunc, BoundMethod, Builtin, EnvFunc)):
            return True
        if hasattr(v, "vc_truth"):
            return self.truth(v.vc_truth(self), label)
        return bool(v)

    # -- name resolution ----------------------------------------------------
    def lookup(self, name, frame):
        f = frame
        while f is not None:
            if name in f.env:
                return f.env[name]
            f = f.parent
        if self.spec_mode and name in self.spec_names:
            return self.spec_names[name]
        if name in self.env_over:
            return self.env_over[name]
        mod = frame.func.module if frame.func is not None else None
        if mod is not None:
            v = self.module_name(mod, name)
            if v is not _MISSING:
                return v
        if name in self.builtins:
            return self.builtins[name]
        raise Unsupported(f"unresolved name {name}")

    def module_name(self, mod, name, _seen=None):
        key = f"{mod.name}.{name}"
        if key in self.env_over:
            return self.env_over[key]
        cache = self.ctx.ghost.setdefault("__modcache__", {})
        if key in cache:
            return cache[key]
        st = mod.toplevel(name)
        if st is None:
            return _MISSING
        # several conditional definitions (`if FREEBSD: X = ... elif OPENBSD: X = ...`): take the one whose guards hold under
        # the platform flags of this contract
        cands = mod.guarded_defs(name)
        if len(cands) > 1 and any(g for _, g in cands):
            mfr = Frame(RepoFunc(mod, "<module>", None), {})
            for cst, guards in cands:
                ok = True
                for test, pol in guards:
                    try:
                        tv = self.eval(test, mfr)
                    except (PyRaise, Unsupported, NoContract):
                        tv = None
                    if isinstance(tv, bool) or tv is None or isinstance(tv, int):
                        if tv is not None and bool(tv) != pol:
                            ok = False
                            break
                if ok:
                    st = cst
                    break
        if isinstance(st, ast.FunctionDef):
            v = RepoFunc(mod, name, st)
        elif isinstance(st, ast.ClassDef):
            v = self.make_class(mod, st)
        elif isinstance(st, ast.ImportFrom):
            al = [a for a in st.names if (a.asname or a.name) == name][0]
            if st.level >= 1:
                if st.module is None:
                    v = self.repo_module(al.name)
                else:
                    sub = self.repo_module(st.module)
                    v = self.module_name(sub, al.name)
                    if v is _MISSING:
                        raise Unsupported(f"cannot resolve {al.name} in {st.module}")
            else:
                pm = __import__(st.module, fromlist=[al.name])
                v = self.wrap_py(getattr(pm, al.name), f"{st.module}.{al.name}")
        elif isinstance(st, ast.Import):
            al = [a for a in st.names if (a.asname or a.name.split(".")[0]) == name][0]
            v = PyModule(__import__(al.name.split(".")[0]), al.name.split(".")[0])
        else:  # Assign
            fr = Frame(RepoFunc(mod, "<module>", None), {})
            val = self.eval(st.value, fr)
            tg = st.targets[0]
            if isinstance(tg, ast.Name):
                v = val
            else:
                names = [e.id for e in tg.elts]
                v = list(val)[names.index(name)]
            if isinstance(v, (dict, list, set)):
                # module-level statements that extend the container after its definition
                # (e.g. `if AF_INET6 is not None: conn_tmap.update({...})`)
                cache[key] = v
                after = False
                for st2 in mod.tree.body:
                    if st2 is st:
                        after = True
                        continue
                    if not after:
                        continue
                    if isinstance(st2, (ast.If, ast.Expr, ast.Assign, ast.AugAssign)) and _mutates(st2, name):
                        try:
                            self.exec(st2, Frame(RepoFunc(mod, "<module>", None), {name: v}))
                        except (PyRaise, Unsupported):
                            pass
        cache[key] = v
        return v

    def repo_module(self, name):
        return ModuleSrc.get(f"psutil/{name}.py")

    def wrap_py(self, v, dotted):
        if dotted in self.env_over:
            return self.env_over[dotted]
        if isinstance(v, type(os)):
            return PyModule(v, dotted)
        return v

    def make_class(self, mod, node):
        if node.name in PS_EXC and mod.name == "_common":
            return PS_EXC[node.name][0]
        bases = [ast.unparse(b) for b in node.bases]
        if any(b.endswith("IntEnum") or b.endswith("Enum") for b in bases):
            import enum
            members = {}
            for st in node.body:
                if isinstance(st, ast.Assign) and isinstance(st.targets[0], ast.Name):
                    members[st.targets[0].id] = ast.literal_eval(st.value)
            base = enum.IntEnum if any(b.endswith("IntEnum") for b in bases) else enum.Enum
            return base(node.name, members)
        if any(b in ("Exception",) or b.endswith("Error") for b in bases):
            return type(node.name, (Exception,), {})
        return RepoClass(mod, node.name, node)

    # -- expressions --------------------------------------------------------
    def eval(self, node, fr):
        m = getattr(self, "e_" + type(node).__name__, None)
        if m is None:
            self.unsupported(f"expression {type(node).__name__}", node)
        return m(node, fr)

    def e_Constant(self, node, fr):
        return node.value

    def e_Name(self, node, fr):
        return self.lookup(node.id, fr)

    def e_Tuple(self, node, fr):
        return tuple(self._elts(node.elts, fr))

    def e_List(self, node, fr):
        return list(self._elts(node.elts, fr))

    def _elts(self, elts, fr):
        out = []
        for e in elts:
            if isinstance(e, ast.Starred):
                out.extend(self.iterate_concrete(self.eval(e.value, fr)))
            else:
                out.append(self.eval(e, fr))
        return out

    def e_Set(self, node, fr):
        vals = self._elts(node.elts, fr)
        if any(is_t(v) for v in vals):
            self.unsupported("set literal with symbolic members", node)
        return set(vals)

    def e_Dict(self, node, fr):
        d = {}
        for k, v in zip(node.keys, node.values):
            if k is None:
                d.update(self.eval(v, fr))
            else:
                kk = self.eval(k, fr)
                if is_t(kk):
                    self.unsupported("dict literal with symbolic key", node)
                d[kk] = self.eval(v, fr)
        return d

    def e_JoinedStr(self, node, fr):
        parts = []
        for v in node.values:
            if isinstance(v, ast.Constant):
                parts.append(v.value)
            else:
                x = self.eval(v.value, fr)
                if v.conversion == -1 and v.format_spec is None and isinstance(x, (str, int)) and not isinstance(x, bool):
                    parts.append(str(x))
                elif v.conversion == -1 and v.format_spec is None and isinstance(x, FStr):
                    parts.extend(x.parts)
                elif v.conversion == -1 and v.format_spec is None and is_t(x):
                    parts.append(x)
                else:
                    parts.append(Opaque("fmt"))
        merged = []
        for p in parts:
            if isinstance(p, str) and merged and isinstance(merged[-1], str):
                merged[-1] += p
            else:
                merged.append(p)
        if all(isinstance(p, str) for p in merged):
            return "".join(merged)
        return FStr(merged)

    def e_Lambda(self, node, fr):
        f = RepoFunc(fr.func.module if fr.func else None, "<lambda>", node, closure=fr)
        return f

    def e_IfExp(self, node, fr):
        c = self.eval(node.test, fr)
        if self.spec_mode and is_t(c):
            cb = self.as_bool(c)
            if cb.sx not in ("true", "false"):
                a, b = self.eval(node.body, fr), self.eval(node.orelse, fr)
                return self.ite_val(cb, a, b)
        return self.eval(node.body, fr) if self.truth(c, "ifexp") else self.eval(node.orelse, fr)

    def ite_val(self, c, a, b):
        if not is_t(a) and not is_t(b) and type(a) is type(b) and isinstance(a, (tuple, list)) and len(a) == len(b):
            return type(a)(self.ite_val(c, x, y) for x, y in zip(a, b))
        if not is_t(a) and not is_t(b):
            try:
                if a == b:
                    return a
            except TypeError:
                pass
        return Ite(c, self.term(a), self.term(b, like=a))

    def term(self, v, like=None):
        """python value -> term"""
        if is_t(v):
            return v
        if isinstance(v, FStr):
            return self.fstr_term(v)
        if isinstance(v, tuple) and v and all(is_t(x) or isinstance(x, (int, float, str, bytes, bool)) for x in v):
            ts = [self.term(x) for x in v]
            return smt.MkTup(("Tup", tuple(t.sort for t in ts)), *ts)
        want = None
        if is_t(like) and like.sort == "Real":
            want = "Real"
        try:
            return lift(v, want)
        except TypeError:
            raise Unsupported(f"cannot turn {type(v).__name__} into a term")

    def fstr_term(self, fs):
        acc = None
        for p in fs.parts:
            if isinstance(p, str):
                t = S(p)
            elif is_t(p) and p.sort == "String":
                t = p
            elif is_t(p) and p.sort == "Int":
                self.ctx.uf("py_str_of_int", ["Int"], "String")
                t = smt.app("py_str_of_int", "String", p, bk="str")
            else:
                raise Unsupported("f-string piece not representable")
            acc = t if acc is None else smt.Concat(acc, t)
        return acc

    def e_BoolOp(self, node, fr):
        if self.spec_mode:
            # concrete operands short-circuit (python semantics); symbolic ones are combined
            is_and = isinstance(node.op, ast.And)
            ts = []
            last = None
            for v in node.values:
                x = self.eval(v, fr)
                last = x
                if is_t(x):
                    ts.append(self.as_bool(x))
                    continue
                if is_and and not x:
                    return x if not ts else FALSE_T
                if not is_and and x:
                    return x if not ts else TRUE_T
            if ts:
                return And(*ts) if is_and else Or(*ts)
            return last
        res = None
        for k, v in enumerate(node.values):
            res = self.eval(v, fr)
            if k == len(node.values) - 1:
                return res
            tv = self.truth(res, "boolop")
            if isinstance(node.op, ast.And) and not tv:
                return res if not is_t(res) else (False if res.sort == "Bool" else res)
            if isinstance(node.op, ast.Or) and tv:
                return res if not is_t(res) else (True if res.sort == "Bool" else res)
        return res

    def e_UnaryOp(self, node, fr):
        v = self.eval(node.operand, fr)
        if isinstance(node.op, ast.Not):
            if self.spec_mode and is_t(v):
                return Not(self.as_bool(v))
            return not self.truth(v, "not")
        if isinstance(node.op, ast.USub):
            return smt.Neg(v) if is_t(v) else -v
        if isinstance(node.op, ast.UAdd):
            return v
        if isinstance(node.op, ast.Invert) and not is_t(v):
            return ~v
        self.unsupported("unary op", node)

    def e_BinOp(self, node, fr):
        a = self.eval(node.left, fr)
        b = self.eval(node.right, fr)
        return self.binop(type(node.op).__name__, a, b, node)

    def binop(self, op, a, b, node=None):
        L = self.lib
        if not (is_t(a) or is_t(b) or isinstance(a, (FStr, SymSet, SymMap)) or isinstance(b, (FStr, SymSet, SymMap))):
            if isinstance(a, (list, tuple)) and isinstance(b, (list, tuple)) and op == "Add":
                return a + b
            if op == "Div" and isinstance(a, (int, float, fractions.Fraction)) and isinstance(b, (int, float, fractions.Fraction)) \
                    and not isinstance(a, bool):
                if b == 0:
                    self.raise_(ZeroDivisionError, "division by zero")
                return fractions.Fraction(_frac(a)) / fractions.Fraction(_frac(b))
            if isinstance(a, float) or isinstance(b, float):
                a = _frac(a) if isinstance(a, (int, float)) and not isinstance(a, bool) else a
                b = _frac(b) if isinstance(b, (int, float)) and not isinstance(b, bool) else b
            try:
                return L.PY_BINOPS[op](a, b)
            except ZeroDivisionError:
                self.raise_(ZeroDivisionError, "division by zero")
            except KeyError:
                self.unsupported(f"binary op {op}", node)
            except TypeError as e:
                if any(is_t(x) for x in _leaves(a)) or any(is_t(x) for x in _leaves(b)):
                    self.unsupported(f"binary op {op} on containers with symbolic leaves", node)
                self.raise_(TypeError, str(e))
        return L.sym_binop(self, op, a, b, node)

    def e_Compare(self, node, fr):
        left = self.eval(node.left, fr)
        results = []
        for op, rn in zip(node.ops, node.comparators):
            right = self.eval(rn, fr)
            r = self.compare(type(op).__name__, left, right, node)
            results.append(r)
            left = right
            if not self.spec_mode and len(node.ops) > 1:
                if not self.truth(r, "cmpchain"):
                    return False
        if len(results) == 1:
            return results[0]
        if self.spec_mode:
            if any(is_t(r) for r in results):
                return And(*[self.as_bool(r) for r in results])
            return all(results)
        return True

    def compare(self, op, a, b, node=None):
        return self.lib.compare(self, op, a, b, node)

    def mangle(self, name, fr):
        """private name mangling inside a class body: self.__x -> self._Class__x"""
        if not (name.startswith("__") and not name.endswith("__")):
            return name
        f = fr
        while f is not None:
            q = getattr(getattr(f, "func", None), "qualname", "") or ""
            parts = [x for x in q.split(".") if x != "<locals>"]
            if len(parts) >= 2 and parts[-2][:1].isupper():
                return "_" + parts[-2].lstrip("_") + name
            f = getattr(f, "parent", None)
        return name

    def e_Attribute(self, node, fr):
        obj = self.eval(node.value, fr)
        return self.getattr_(obj, self.mangle(node.attr, fr), node)

    def getattr_(self, obj, name, node=None, default=None, has_default=False):
        return self.lib.getattr_(self, obj, name, node, default, has_default)

    def e_Subscript(self, node, fr):
        obj = self.eval(node.value, fr)
        if isinstance(node.slice, ast.Slice):
            lo = self.eval(node.slice.lower, fr) if node.slice.lower is not None else None
            hi = self.eval(node.slice.upper, fr) if node.slice.upper is not None else None
            st = self.eval(node.slice.step, fr) if node.slice.step is not None else None
            return self.lib.slice_(self, obj, lo, hi, st, node)
        idx = self.eval(node.slice, fr)
        return self.lib.index(self, obj, idx, node)

    def e_Call(self, node, fr):
        # special forms of the spec language
        if isinstance(node.func, ast.Name) and node.func.id in ("old", "forall", "exists", "implies", "ite") and self.spec_mode:
            return self.spec_form(node, fr)
        f = self.eval(node.func, fr)
        args = []
        for a in node.args:
            if isinstance(a, ast.Starred):
                args.extend(self.iterate_concrete(self.eval(a.value, fr)))
            else:
                args.append(self.eval(a, fr))
        kwargs = {}
        for kw in node.keywords:
            if kw.arg is None:
                d = self.eval(kw.value, fr)
                if not isinstance(d, dict):
                    self.unsupported("**kwargs of non-dict", node)
                kwargs.update(d)
            else:
                kwargs[kw.arg] = self.eval(kw.value, fr)
        return self.call(f, args, kwargs, node, fr)

    def spec_form(self, node, fr):
        name = node.func.id
        if name == "old":
            ofr = Frame(fr.func, dict(self.old_env), None)
            saved = self.old_mode
            self.old_mode = True
            try:
                return self.eval(node.args[0], ofr)
            finally:
                self.old_mode = saved
        if name == "implies":
            a = self.eval(node.args[0], fr)
            try:
                if not is_t(a):
                    if not a:
                        return True
                    return self.eval(node.args[1], fr)
                b = self.eval(node.args[1], fr)
            except PyRaise:
                b = False      # an undefined consequent (missing key, index out of range) does not hold
                if not is_t(a):
                    return False
            return Implies(self.as_bool(a), self.as_bool(b))
        if name == "ite":
            c = self.eval(node.args[0], fr)
            if not is_t(c):
                return self.eval(node.args[1], fr) if c else self.eval(node.args[2], fr)
            return self.ite_val(self.as_bool(c), self.eval(node.args[1], fr), self.eval(node.args[2], fr))
        # forall(domain, lambda i: body) / exists
        dom = self.eval(node.args[0], fr)
        lam = node.args[1]
        if not isinstance(lam, ast.Lambda):
            self.unsupported("forall/exists needs a lambda", node)
        var = lam.args.args[0].arg
        if isinstance(dom, (range, list, tuple, set, frozenset, dict)):
            parts = []
            for x in dom:
                sub = Frame(fr.func, {var: x}, fr)
                parts.append(self.as_bool(self.eval(lam.body, sub)))
            return And(*parts) if name == "forall" else Or(*parts)
        if isinstance(dom, SymRange):
            lo, hi = dom.lo, dom.hi
        elif is_t(dom) and (dom.sort == "String" or dom.sort[0] == "Seq"):
            lo, hi = I(0), smt.Len(dom)
        elif isinstance(dom, str) and dom in ("Int", "String", "Real"):
            self.ctx.counter["_q"] += 1
            bv = T(dom, f"q{self.ctx.counter['_q']}_{var}")
            sub = Frame(fr.func, {var: bv}, fr)
            body = self.as_bool(self.eval(lam.body, sub))
            return smt.Forall([bv], body) if name == "forall" else smt.Exists([bv], body)
        else:
            self.unsupported("quantifier domain", node)
        self.ctx.counter["_q"] += 1
        bv = T("Int", f"q{self.ctx.counter['_q']}_{var}")
        sub = Frame(fr.func, {var: bv}, fr)
        body = self.as_bool(self.eval(lam.body, sub))
        rng = And(smt.Cmp("<=", self.term(lo), bv), smt.Cmp("<", bv, self.term(hi)))
        if name == "forall":
            return smt.Forall([bv], Implies(rng, body))
        return smt.Exists([bv], And(rng, body))

    old_env = {}
    old_mode = False
    spec_names = {}

    def e_ListComp(self, node, fr):
        return list(self._comp(node, fr))

    def e_GeneratorExp(self, node, fr):
        return list(self._comp(node, fr))

    def e_SetComp(self, node, fr):
        vals = self._comp(node, fr)
        if any(is_t(v) for v in vals):
            self.unsupported("set comprehension with symbolic members", node)
        return set(vals)

    def e_DictComp(self, node, fr):
        out = {}

        def rec(k, sub):
            if k == len(node.generators):
                out[self.eval(node.key, sub)] = self.eval(node.value, sub)
                return
            g = node.generators[k]
            for x in self.iterate_concrete(self.eval(g.iter, sub), node):
                s2 = Frame(fr.func, {}, sub)
                self.assign(g.target, x, s2)
                if all(self.truth(self.eval(c, s2), "compif") for c in g.ifs):
                    rec(k + 1, s2)

        rec(0, fr)
        return out

    def _comp(self, node, fr):
        out = []

        def rec(k, sub):
            if k == len(node.generators):
                out.append(self.eval(node.elt, sub))
                return
            g = node.generators[k]
            for x in self.iterate_concrete(self.eval(g.iter, sub), node):
                s2 = Frame(fr.func, {}, sub)
                self.assign(g.target, x, s2)
                if all(self.truth(self.eval(c, s2), "compif") for c in g.ifs):
                    rec(k + 1, s2)

        rec(0, fr)
        return out

    def iterate_concrete(self, v, node=None):
        """iterate a value whose spine is concrete (python container)"""
        if isinstance(v, (list, tuple, range, set, frozenset, dict, str, bytes)) or isinstance(v, collections.abc.KeysView) \
                or isinstance(v, (collections.abc.ValuesView, collections.abc.ItemsView)):
            return list(v)
        if isinstance(v, GenObj):
            return self.run_generator_to_list(v)
        if isinstance(v, (collections.abc.Iterator, map, zip)) and not is_t(v):
            return list(v)           # a python iterator / generator handed in by a contract
        if is_t(v) and not isinstance(v.sort, str) and v.sort[0] == "Tup":
            return [smt.TupGet(v, i) for i in range(len(v.sort[1]))]
        if is_t(v) and not isinstance(v.sort, str) and v.sort[0] == "Seq":
            n = self.concrete_len(v)
            if n is not None:
                return [smt.Nth(v, I(i)) for i in range(n)]
        raise Unsupported(f"iteration over symbolic-length value needs a loop contract ({type(v).__name__})")

    def concrete_len(self, v):
        """length of a Seq term if the contract fixed it (ghost table)"""
        return self.ctx.ghost.get("__fixedlen__", {}).get(v.sx)

    # -- calls --------------------------------------------------------------
    def call(self, f, args, kwargs, node=None, fr=None):
        self.depth += 1
        if self.depth > 60:
            raise Unsupported("call depth exceeded")
        try:
            return self._call(f, args, kwargs, node, fr)
        finally:
            self.depth -= 1

    def _call(self, f, args, kwargs, node, fr):
        if isinstance(f, Builtin):
            return f.fn(*args, **kwargs)
        if isinstance(f, EnvFunc):
            try:
                return f.fn(self, *args, **kwargs)
            except (KeyError, IndexError, AttributeError, TypeError) as e:
                # the environment model of a contract was asked something it has no answer for (changed code calls it with
                # arguments the contract never anticipated): this path is outside the model, not a crash of the checker
                raise Unsupported(f"environment model {f.name}: {type(e).__name__}: {e}")
        if isinstance(f, BoundMethod):
            if isinstance(f.func, RepoFunc):
                return self.call_repo(f.func, [f.obj] + list(args), kwargs, node)
            return self._call(f.func, [f.obj] + list(args), kwargs, node, fr)
        if isinstance(f, RepoFunc):
            return self.call_repo(f, args, kwargs, node)
        if isinstance(f, RepoClass):
            return self.lib.construct(self, f, args, kwargs, node)
        if isinstance(f, type) and issubclass(f, BaseException):
            return self.lib.make_exc(self, f, args, kwargs)
        if isinstance(f, type) and issubclass(f, tuple) and hasattr(f, "_fields"):
            if kwargs:
                vals = list(args) + [kwargs[k] for k in f._fields[len(args):]]
            else:
                vals = list(args)
            if len(vals) != len(f._fields):
                self.raise_(TypeError, "namedtuple arity")
            return f(*vals)
        if callable(f) and not isinstance(f, (Obj,)):
            return self.lib.call_python(self, f, args, kwargs, node)
        self.unsupported(f"call of {type(f).__name__}", node)

    def call_repo(self, f, args, kwargs, node):
        key = (f.module.name if f.module else None, f.qualname)
        wants_inline = key in self.inline or (f.module and f.qualname.split(".")[-1] in self.inline)
        c = self.reg.lookup(key, self.contract)
        if c is not None and not wants_inline:
            return self.apply_contract(c, f, args, kwargs, node)
        if f.closure is not None or wants_inline:
            return self.run_function(f, args, kwargs)
        # a callee without a contract is executed (its body is real code of the same repository): this keeps proofs
        # robust against "extract helper" refactorings; callees whose bodies reach the OS stop at the first primitive
        # that has no environment model (Unsupported -> undecided, never assumed harmless)
        if f.node is not None and os.environ.get("VERIF_NO_AUTO_INLINE") != "1":
            return self.run_function(f, args, kwargs)
        raise NoContract(f"NO-CONTRACT callee {key[0]}.{key[1]} (line {getattr(node, 'lineno', '?')})")

    def inline_stack(self):
        return set()

    def bind_args(self, f, args, kwargs):
        a = f.node.args
        env = {}
        params = [x.arg for x in a.posonlyargs + a.args]
        if f.defaults is None:
            dfr = f.closure or Frame(RepoFunc(f.module, "<module>", None), {})
            f.defaults = [self.eval(d, dfr) for d in a.defaults]
            f.kwdefaults = [self.eval(d, dfr) if d is not None else _MISSING for d in a.kw_defaults]
        nd = len(f.defaults)
        args = list(args)
        if len(args) > len(params) and a.vararg is None:
            self.raise_(TypeError, f"{f.qualname}() takes {len(params)} positional arguments")
        for i, p in enumerate(params):
            if i < len(args):
                env[p] = args[i]
            elif p in kwargs:
                env[p] = kwargs.pop(p)
            elif i >= len(params) - nd:
                env[p] = f.defaults[i - (len(params) - nd)]
            else:
                self.raise_(TypeError, f"{f.qualname}() missing argument {p}")
        if a.vararg is not None:
            env[a.vararg.arg] = tuple(args[len(params):])
        for k, p in enumerate(a.kwonlyargs):
            if p.arg in kwargs:
                env[p.arg] = kwargs.pop(p.arg)
            elif f.kwdefaults[k] is not _MISSING:
                env[p.arg] = f.kwdefaults[k]
            else:
                self.raise_(TypeError, "missing kw-only argument")
        if a.kwarg is not None:
            env[a.kwarg.arg] = dict(kwargs)
        elif kwargs:
            self.raise_(TypeError, f"{f.qualname}() got an unexpected keyword argument")
        return env

    def run_function(self, f, args, kwargs, env=None):
        if env is None:
            env = self.bind_args(f, args, dict(kwargs))
        fr = Frame(f, env, f.closure)
        if isinstance(f.node, ast.Lambda):
            return self.eval(f.node.body, fr)
        if _is_generator(f.node):
            return self._make_gen(f, fr)
        self.frames.append(fr)
        try:
            self.exec_block(f.node.body, fr)
        except _Return as r:
            return r.v
        finally:
            self.frames.pop()
        return None

    def _make_gen(self, f, fr):
        g = GenObj(f, None, None)
        g.frame = fr
        return g

    def run_generator_to_list(self, g):
        """drive a generator whose loops are all concrete (or have contracts
        with sink None): collect yielded values"""
        out = []
        fr = g.frame
        fr.yield_sink = lambda v: out.append(v)
        self.frames.append(fr)
        try:
            self.exec_block(g.func.node.body, fr)
        except _Return:
            pass
        finally:
            self.frames.pop()
        return out

    # -- contracts at call sites ---------------------------------------------
    def apply_contract(self, c, f, args, kwargs, node):
        from . import contract as cm
        return cm.apply_contract(self, c, f, args, kwargs, node)

    # -- statements ---------------------------------------------------------
    def exec_block(self, body, fr):
        for st in body:
            self.exec(st, fr)

    def exec(self, st, fr):
        m = getattr(self, "s_" + type(st).__name__, None)
        if m is None:
            self.unsupported(f"statement {type(st).__name__}", st)
        return m(st, fr)

    def s_Expr(self, st, fr):
        if isinstance(st.value, ast.Constant):
            return  # docstring
        if isinstance(st.value, (ast.Yield,)):
            self.do_yield(st.value, fr)
            return
        self.eval(st.value, fr)

    def e_Yield(self, node, fr):
        self.do_yield(node, fr)
        return None

    def do_yield(self, node, fr):
        v = self.eval(node.value, fr) if node.value is not None else None
        if fr.yield_sink is None:
            self.unsupported("yield outside a driven generator", node)
        fr.yield_sink(v)

    def s_Pass(self, st, fr):
        pass

    def s_Global(self, st, fr):
        fr.env.setdefault("__globals__", set()).update(st.names)

    def s_Nonlocal(self, st, fr):
        fr.env.setdefault("__nonlocals__", set()).update(st.names)

    def s_Import(self, st, fr):
        for al in st.names:
            fr.env[al.asname or al.name.split(".")[0]] = PyModule(__import__(al.name.split(".")[0]), al.name)

    def s_Assign(self, st, fr):
        v = self.eval(st.value, fr)
        for tg in st.targets:
            self.assign(tg, v, fr)

    def s_AnnAssign(self, st, fr):
        if st.value is not None:
            self.assign(st.target, self.eval(st.value, fr), fr)

    def s_AugAssign(self, st, fr):
        tg = st.target
        if isinstance(tg, ast.Name):
            cur = self.lookup(tg.id, fr)
        elif isinstance(tg, ast.Subscript):
            obj = self.eval(tg.value, fr)
            idx = self.eval(tg.slice, fr)
            cur = self.lib.index(self, obj, idx, st)
        elif isinstance(tg, ast.Attribute):
            obj = self.eval(tg.value, fr)
            cur = self.getattr_(obj, self.mangle(tg.attr, fr), st)
        else:
            self.unsupported("augassign target", st)
        rhs = self.eval(st.value, fr)
        if isinstance(cur, list) and isinstance(st.op, ast.Add):
            cur.extend(self.iterate_concrete(rhs))
            return
        val = self.binop(type(st.op).__name__, cur, rhs, st)
        if isinstance(tg, ast.Name):
            self.set_name(tg.id, val, fr)
        elif isinstance(tg, ast.Subscript):
            self.lib.setitem(self, obj, idx, val, st)
        else:
            self.lib.setattr_(self, obj, tg.attr, val, st)

    def set_name(self, name, v, fr):
        if name in fr.env.get("__globals__", ()):
            self.env_over[f"{fr.func.module.name}.{name}"] = v
            self.ctx.ghost.setdefault("__modcache__", {})[f"{fr.func.module.name}.{name}"] = v
            self.ctx.ghost.setdefault("__globals_written__", {})[name] = v
            return
        if name in fr.env.get("__nonlocals__", ()):
            f = fr.parent
            while f is not None:
                if name in f.env:
                    f.env[name] = v
                    return
                f = f.parent
        fr.env[name] = v

    def assign(self, tg, v, fr):
        if isinstance(tg, ast.Name):
            self.set_name(tg.id, v, fr)
        elif isinstance(tg, (ast.Tuple, ast.List)):
            star = [i for i, e in enumerate(tg.elts) if isinstance(e, ast.Starred)]
            vals = self.unpack(v, len(tg.elts) if not star else None, tg)
            if star:
                k = star[0]
                n_after = len(tg.elts) - k - 1
                if len(vals) < len(tg.elts) - 1:
                    self.raise_(ValueError, "not enough values to unpack")
                for e, x in zip(tg.elts[:k], vals[:k]):
                    self.assign(e, x, fr)
                self.assign(tg.elts[k].value, list(vals[k:len(vals) - n_after]), fr)
                for e, x in zip(tg.elts[k + 1:], vals[len(vals) - n_after:]):
                    self.assign(e, x, fr)
            else:
                for e, x in zip(tg.elts, vals):
                    self.assign(e, x, fr)
        elif isinstance(tg, ast.Subscript):
            obj = self.eval(tg.value, fr)
            idx = self.eval(tg.slice, fr)
            self.lib.setitem(self, obj, idx, v, tg)
        elif isinstance(tg, ast.Attribute):
            obj = self.eval(tg.value, fr)
            self.lib.setattr_(self, obj, self.mangle(tg.attr, fr), v, tg)
        else:
            self.unsupported("assignment target", tg)

    def unpack(self, v, n, node=None):
        """tuple-unpack to exactly n values (ValueError otherwise)"""
        if isinstance(v, self.lib.SymMapped):
            sl = v.sl
            if n is None:
                self.unsupported("starred unpack of map()", node)
            if self.truth(Eq(smt.Len(sl.seq), I(n)), "unpack"):
                return [self.call(v.f, [self.lib.elem_value(self, sl, smt.Nth(sl.seq, I(i)))], {}) for i in range(n)]
            self.raise_(ValueError, "unpack: wrong number of values")
        if isinstance(v, SymList):
            sl = v
            if n is None:
                self.unsupported("starred unpack of symbolic sequence", node)
            ok = Eq(smt.Len(sl.seq), I(n))
            if self.truth(ok, "unpack"):
                return [self.lib.elem_value(self, sl, smt.Nth(sl.seq, I(i))) for i in range(n)]
            self.raise_(ValueError, "unpack: wrong number of values")
        if is_t(v) and not isinstance(v.sort, str) and v.sort[0] == "Seq":
            fl = self.concrete_len(v)
            if fl is not None:
                vals = [smt.Nth(v, I(i)) for i in range(fl)]
            else:
                if n is None:
                    self.unsupported("starred unpack of symbolic sequence", node)
                ok = Eq(smt.Len(v), I(n))
                if self.truth(ok, "unpack"):
                    return [smt.Nth(v, I(i)) for i in range(n)]
                self.raise_(ValueError, "unpack: wrong number of values")
        elif is_t(v) and not isinstance(v.sort, str) and v.sort[0] == "Tup":
            vals = [smt.TupGet(v, i) for i in range(len(v.sort[1]))]
        elif isinstance(v, (list, tuple)):
            vals = list(v)
        elif isinstance(v, (GenObj, range, dict, set, frozenset)) or hasattr(v, "__iter__") and not is_t(v):
            vals = self.iterate_concrete(v, node)
        else:
            self.unsupported(f"unpack of {type(v).__name__}", node)
        if n is not None and len(vals) != n:
            self.raise_(ValueError, "unpack: wrong number of values")
        return vals

    def s_Delete(self, st, fr):
        for tg in st.targets:
            if isinstance(tg, ast.Subscript):
                obj = self.eval(tg.value, fr)
                idx = self.eval(tg.slice, fr)
                self.lib.delitem(self, obj, idx, st)
            elif isinstance(tg, ast.Attribute):
                obj = self.eval(tg.value, fr)
                self.lib.delattr_(self, obj, self.mangle(tg.attr, fr), st)
            elif isinstance(tg, ast.Name):
                fr.env.pop(tg.id, None)
            else:
                self.unsupported("del target", st)

    def s_Return(self, st, fr):
        raise _Return(self.eval(st.value, fr) if st.value is not None else None)

    def s_If(self, st, fr):
        if self.truth(self.eval(st.test, fr), f"if@{st.lineno}"):
            self.exec_block(st.body, fr)
        else:
            self.exec_block(st.orelse, fr)

    def s_Assert(self, st, fr):
        v = self.eval(st.test, fr)
        if is_t(v):
            self.ctx.oblige(f"assert@{st.lineno}", "assert", self.as_bool(v), where=f"line {st.lineno}")
            self.ctx.assume(self.as_bool(v))
        elif not v:
            self.ctx.oblige(f"assert@{st.lineno}", "assert", B(False), where=f"line {st.lineno}")
            raise PathEnd()

    def s_Raise(self, st, fr):
        if st.exc is None:
            if fr.cur_exc is None:
                self.unsupported("bare raise outside handler", st)
            raise PyRaise(fr.cur_exc)
        v = self.eval(st.exc, fr)
        if isinstance(v, type) and issubclass(v, BaseException):
            v = self.lib.make_exc(self, v, [], {})
        if not isinstance(v, ExcVal):
            self.unsupported("raise of non-exception value", st)
        raise PyRaise(v)

    def exc_matches(self, exc, spec):
        if isinstance(spec, tuple):
            return any(self.exc_matches(exc, s) for s in spec)
        if not (isinstance(spec, type) and issubclass(spec, BaseException)):
            raise Unsupported(f"except clause with non-class {spec!r}")
        return issubclass(exc.cls, spec)

    def s_Try(self, st, fr):
        try:
            try:
                self.exec_block(st.body, fr)
            except PyRaise as pr:
                exc = pr.exc
                for h in st.handlers:
                    if h.type is None or self.exc_matches(exc, self.eval(h.type, fr)):
                        saved = fr.cur_exc
                        fr.cur_exc = exc
                        if h.name:
                            fr.env[h.name] = exc
                        try:
                            self.exec_block(h.body, fr)
                        finally:
                            fr.cur_exc = saved
                            if h.name:
                                fr.env.pop(h.name, None)
                        break
                else:
                    raise
            else:
                self.exec_block(st.orelse, fr)
        except (PyRaise, _Return, _Break, _Continue):
            if st.finalbody:
                self.exec_block(st.finalbody, fr)
            raise
        else:
            if st.finalbody:
                self.exec_block(st.finalbody, fr)

    def s_With(self, st, fr):
        self.lib.with_stmt(self, st, fr)

    def s_FunctionDef(self, st, fr):
        q = (fr.func.qualname + ".<locals>." + st.name) if fr.func and fr.func.qualname != "<module>" else st.name
        fr.env[st.name] = RepoFunc(fr.func.module, q, st, closure=fr)

    def s_For(self, st, fr):
        from . import loops
        loops.for_loop(self, st, fr)

    def s_While(self, st, fr):
        from . import loops
        loops.while_loop(self, st, fr)

    def s_Break(self, st, fr):
        raise _Break()

    def s_Continue(self, st, fr):
        raise _Continue()


def _mutates(st, name):
    """does a module-level statement (or the body of a module-level if) change the container bound to `name` in place:
    name.update(...) / append / extend / add / setdefault / insert, name[k] = v, name += ..."""
    for n in ast.walk(st):
        if isinstance(n, ast.Call) and isinstance(n.func, ast.Attribute) and isinstance(n.func.value, ast.Name) \
                and n.func.value.id == name and n.func.attr in ("update", "append", "extend", "add", "setdefault", "insert"):
            return True
        if isinstance(n, ast.Assign) and any(isinstance(t, ast.Subscript) and isinstance(t.value, ast.Name)
                                             and t.value.id == name for t in n.targets):
            return True
        if isinstance(n, ast.AugAssign) and isinstance(n.target, ast.Name) and n.target.id == name:
            return True
    return False


class _Missing:
    def __repr__(self):
        return "<missing>"


_MISSING = _Missing()


def _frac(x):
    if isinstance(x, float):
        return fractions.Fraction(repr(x))
    return x


def _leaves(v):
    if isinstance(v, (list, tuple, set, frozenset)):
        for x in v:
            yield from _leaves(x)
    elif isinstance(v, dict):
        for k, x in v.items():
            yield from _leaves(k)
            yield from _leaves(x)
    else:
        yield v


def _is_generator(fn):
    def walk(n):
        for ch in ast.iter_child_nodes(n):
            if isinstance(ch, (ast.Yield, ast.YieldFrom)):
                return True
            if isinstance(ch, (ast.FunctionDef, ast.Lambda, ast.AsyncFunctionDef, ast.ClassDef)):
                continue
            if walk(ch):
                return True
        return False
    return walk(fn)
