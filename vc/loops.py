"""Loops: concrete iterables are unrolled exactly; symbolic-length iterables and
symbolic while-loops are cut by the invariant given in the sidecar contract
(assert-init, havoc modified state, assume invariant, one body execution,
assert-preserve / decreases).  A loop without invariant is an error."""
import ast

from . import smt
from .smt import T, is_t, I, R, B, S, And, Or, Not, Implies, Ite, Eq, lift
from .interp import (Unsupported, PyRaise, PathEnd, _Break, _Continue, _Return, Frame, SymList, SymMap, SymSet,
                     SymFile, SymRange, GenObj, Obj, FStr, Opaque)
from . import lib

MUTATORS = {"append", "extend", "add", "update", "pop", "remove", "discard", "clear", "sort", "insert",
            "setdefault", "popitem", "reverse"}


def loop_key(it, st, fr):
    """(root qualname, ordinal) of a loop statement"""
    f = fr.func
    mod = f.module
    root = f.qualname.split(".<locals>.")[0]
    cache = it.ctx.ghost.setdefault("__loopords__", {})
    ck = (mod.name, root)
    if ck not in cache:
        try:
            node = mod.find(root) if root != "<module>" else None
        except Unsupported:
            node = None
        # a function defined twice (conditional defs): search all candidates for this statement
        ords = {}
        cands = [node] if node is not None else []
        if f.node is not None and not any(_contains(c, st) for c in cands):
            cands = [n for n in ast.walk(mod.tree) if isinstance(n, ast.FunctionDef) and n.name == root.split(".")[-1]]
        for cand in cands:
            k = 0
            for n in _preorder(cand):
                if isinstance(n, (ast.For, ast.While)):
                    ords[id(n)] = k
                    k += 1
        cache[ck] = ords
    return root, cache[ck].get(id(st))


def _contains(root, st):
    return any(n is st for n in ast.walk(root))


def _preorder(node):
    yield node
    for ch in ast.iter_child_nodes(node):
        yield from _preorder(ch)


def get_spec(it, st, fr):
    c = it.contract
    if c is None:
        return None
    root, k = loop_key(it, st, fr)
    if k is None:
        return None
    assigned, mutated = modified_names(st.body)
    written = set(assigned) | set(mutated)

    def fits(v):
        return not getattr(v, "havoc", None) or set(v.havoc) <= written

    if root == c.qualname.split(".<locals>.")[0] or root == c.qualname:
        sp = c.loops.get(k)
        if sp is not None and fits(sp):
            return sp
        if sp is not None or k is not None:
            # the loops of the function were renumbered (one was moved out or in): take the loop contract that talks about
            # the variables this loop writes, if there is exactly one
            cands = [v for kk, v in c.loops.items() if isinstance(kk, int) and getattr(v, "havoc", None) and set(v.havoc) <= written]
            if len(cands) == 1:
                return cands[0]
            if sp is not None:
                return sp
    sp = c.loops.get((root, k))
    if sp is not None:
        return sp
    # a loop of the contract's function that a refactoring moved into a helper (executed here because it has no contract of
    # its own): adopt the one loop contract whose havocked variables are exactly what this loop writes.  A wrong guess can
    # only break inv.init / inv.step, i.e. leave the proof undecided - those kinds never become a violation by themselves.
    if root != c.qualname and root != c.qualname.split(".<locals>.")[0]:
        cands = [v for v in c.loops.values() if getattr(v, "havoc", None) and set(v.havoc) <= written]
        if len(cands) == 1:
            return cands[0]
        if not cands and len(c.loops) == 1:
            # the function's only loop contract, and it havocs nothing (a search loop): it can only belong to this loop
            only = next(iter(c.loops.values()))
            if not getattr(only, "havoc", None):
                return only
    return None


def modified_names(body):
    """names assigned or mutated inside statements (not descending into nested defs)"""
    assigned, mutated = set(), set()

    def tgt(t):
        if isinstance(t, ast.Name):
            assigned.add(t.id)
        elif isinstance(t, (ast.Tuple, ast.List)):
            for e in t.elts:
                tgt(e)
        elif isinstance(t, ast.Starred):
            tgt(t.value)
        elif isinstance(t, ast.Subscript):
            b = t.value
            while isinstance(b, (ast.Subscript, ast.Attribute)):
                b = b.value
            if isinstance(b, ast.Name):
                mutated.add(b.id)
        elif isinstance(t, ast.Attribute):
            b = t.value
            if isinstance(b, ast.Name):
                mutated.add(b.id + "." + t.attr)

    def walk(n):
        if isinstance(n, (ast.FunctionDef, ast.Lambda, ast.ClassDef)):
            if isinstance(n, ast.FunctionDef):
                assigned.add(n.name)
            return
        if isinstance(n, ast.Assign):
            for t in n.targets:
                tgt(t)
        elif isinstance(n, (ast.AugAssign, ast.AnnAssign)):
            tgt(n.target)
        elif isinstance(n, (ast.For, ast.comprehension)):
            tgt(n.target)
        elif isinstance(n, ast.With):
            for i in n.items:
                if i.optional_vars is not None:
                    tgt(i.optional_vars)
        elif isinstance(n, ast.ExceptHandler):
            if n.name:
                assigned.add(n.name)
        elif isinstance(n, ast.Delete):
            for t in n.targets:
                tgt(t)
        elif isinstance(n, ast.Call) and isinstance(n.func, ast.Attribute) and n.func.attr in MUTATORS:
            b = n.func.value
            while isinstance(b, (ast.Subscript,)):
                b = b.value
            if isinstance(b, ast.Name):
                mutated.add(b.id)
            elif isinstance(b, ast.Attribute) and isinstance(b.value, ast.Name):
                mutated.add(b.value.id + "." + b.attr)
        elif isinstance(n, ast.NamedExpr):
            tgt(n.target)
        for ch in ast.iter_child_nodes(n):
            walk(ch)

    for s in body:
        walk(s)
    return assigned, mutated


def fresh_like(it, name, cur, spec_sort=None):
    """fresh value of the same python type / sort as cur"""
    from .contract import make_value
    if spec_sort is not None:
        return make_value(it, name, spec_sort)
    if is_t(cur):
        return it.fresh(name, cur.sort, cur.bk)
    if isinstance(cur, bool):
        return it.fresh(name, "Bool")
    if isinstance(cur, int):
        return it.fresh(name, "Int")
    import fractions
    if isinstance(cur, (float, fractions.Fraction)):
        return it.fresh(name, "Real")
    if isinstance(cur, str):
        return it.fresh(name, "String", "str")
    if isinstance(cur, bytes):
        return it.fresh(name, "String", "bytes")
    if isinstance(cur, tuple) and hasattr(cur, "_fields"):
        return type(cur)(*[fresh_like(it, f"{name}_{f}", v) for f, v in zip(cur._fields, cur)])
    if isinstance(cur, tuple):
        return tuple(fresh_like(it, f"{name}_{k}", v) for k, v in enumerate(cur))
    raise Unsupported(f"loop modifies '{name}' ({type(cur).__name__}): the loop contract must give its sort in havoc=")


def havoc_state(it, fr, spec, names_assigned, names_mutated, extra_frames=()):
    frames = [fr] + list(extra_frames)
    hv = spec.havoc if spec is not None else {}
    for fx in frames:
        for n in sorted(names_assigned | {m for m in names_mutated if "." not in m}):
            holder = _holder(fx, n)
            if holder is None:
                continue
            cur = holder.env[n]
            if n in hv and hv[n] == "keep":
                continue
            if isinstance(cur, (SymList, SymMap, SymSet)) and n not in hv:
                havoc_container(it, n, cur)
                continue
            if isinstance(cur, SymFile):
                continue
            if n in names_assigned or n in hv or not isinstance(cur, (Obj,)):
                if isinstance(cur, (list, dict, set)) and n not in hv:
                    if n in names_mutated or n in names_assigned:
                        raise Unsupported(f"loop modifies container '{n}': the loop contract must give its sort in havoc=")
                if cur is None and n not in hv:
                    raise Unsupported(f"loop assigns '{n}' (initially None): give havoc= with an Opt sort")
                if isinstance(cur, (Obj, Opaque, FStr)) and n not in hv:
                    if n in names_assigned:
                        holder.env[n] = Opaque("havoc")
                    continue
                holder.env[n] = fresh_like(it, n, cur, hv.get(n))
        for m in sorted(x for x in names_mutated if "." in x):
            base, attr = m.split(".", 1)
            holder = _holder(fx, base)
            if holder is None:
                continue
            o = holder.env[base]
            if isinstance(o, Obj) and attr in o.attrs:
                cur = o.attrs[attr]
                if isinstance(cur, (SymList, SymMap, SymSet)):
                    havoc_container(it, m, cur)
                else:
                    o.attrs[attr] = fresh_like(it, m, cur, hv.get(m))


def _holder(fr, name):
    f = fr
    while f is not None:
        if name in f.env:
            return f
        f = f.parent
    return None


def havoc_container(it, n, cur):
    if isinstance(cur, SymList):
        cur.seq = it.fresh(n, cur.seq.sort)
    elif isinstance(cur, SymMap):
        cur.pres = it.fresh(n + "_pres", cur.pres.sort)
        cur.vals = it.fresh(n + "_vals", cur.vals.sort)
        if cur.keys is not None:
            cur.keys = it.fresh(n + "_keys", cur.keys.sort)
    elif isinstance(cur, SymSet):
        cur.mem = it.fresh(n + "_mem", cur.mem.sort)


def eval_clauses(it, clauses, fr, extra):
    """evaluate invariant clauses (strings) in spec mode -> list of (text, Bool term)"""
    out = []
    sub = Frame(fr.func, dict(extra), fr)
    it.spec_mode += 1
    try:
        for cl in clauses:
            tree = ast.parse(cl.strip(), mode="eval")
            v = it.eval(tree.body, sub)
            out.append((cl, it.as_bool(v)))
    finally:
        it.spec_mode -= 1
    return out


def sink_frames(it):
    return [s[0] for s in getattr(it, "sink_stack", [])]


def sink_modified(it):
    a, m = set(), set()
    for _, body in getattr(it, "sink_stack", []):
        x, y = modified_names(body)
        a |= x
        m |= y
    return a, m


def run_body(it, st, fr):
    """-> 'normal' | 'break'"""
    try:
        it.exec_block(st.body, fr)
    except _Continue:
        return "normal"
    except _Break:
        return "break"
    return "normal"


def for_loop(it, st, fr):
    itv = it.eval(st.iter, fr)
    if isinstance(itv, lib.SymMapped):
        raise Unsupported("for over map() of symbolic list")
    # generator: invert control (consumer body runs at each yield)
    if isinstance(itv, GenObj):
        return for_generator(it, st, fr, itv)
    spec = get_spec(it, st, fr)
    sym = isinstance(itv, (SymList, SymFile, SymRange, SymMap, lib.MapView)) or \
        (is_t(itv) and not isinstance(itv.sort, str) and itv.sort[0] == "Seq" and it.concrete_len(itv) is None) or \
        (is_t(itv) and itv.sort == "String")
    if not sym:
        items = it.iterate_concrete(itv, st)
        broke = False
        for x in items:
            it.assign(st.target, x, fr)
            if run_body(it, st, fr) == "break":
                broke = True
                break
        if not broke:
            it.exec_block(st.orelse, fr)
        return
    if spec is None:
        root, k = loop_key(it, st, fr)
        raise Unsupported(f"loop #{k} of {root} (line {st.lineno}) iterates a symbolic-length value and has no invariant")
    # --- cut ---------------------------------------------------------------
    if isinstance(itv, SymList):
        seq, lo = itv.seq, I(0)

        def elem(i):
            return lib.elem_value(it, itv, smt.Nth(seq, i))
    elif is_t(itv) and itv.sort != "String":
        seq, lo = itv, I(0)

        def elem(i):
            return smt.Nth(seq, i)
    elif isinstance(itv, SymFile):
        seq, lo = itv.lines, itv.pos

        def elem(i):
            v = smt.Nth(seq, i)
            return T("String", v.sx, itv.bk)
    elif isinstance(itv, SymRange):
        seq, lo = None, itv.lo

        def elem(i):
            return i
    elif isinstance(itv, SymMap):
        if itv.keys is None:
            raise Unsupported("iteration over symbolic dict without key sequence")
        seq, lo = itv.keys, I(0)
        m0 = itv

        def elem(i):
            v = smt.Nth(seq, i)
            return T(v.sort, v.sx, m0.kbk) if v.sort == "String" else v
    elif isinstance(itv, lib.MapView):
        m0 = itv.m
        if m0.keys is None:
            raise Unsupported("iteration over symbolic dict without key sequence")
        seq, lo = m0.keys, I(0)
        vals0 = m0.vals

        def elem(i):
            k = smt.Nth(seq, i)
            kv = T(k.sort, k.sx, m0.kbk) if k.sort == "String" else k
            v = lib.map_value(it, m0, smt.Select(vals0, k))
            return (kv, v) if itv.kind == "items" else v
    else:
        raise Unsupported("iteration over symbolic string")
    hi = smt.Len(seq) if seq is not None else itv.hi
    root, k = loop_key(it, st, fr)
    tag = f"loop{k}@{st.lineno}"
    ivar = spec.index or "_i"
    seqval = SymList(seq, bk=getattr(itv, "bk", None)) if seq is not None else None
    base_extra = {"_seq": seqval, "_n": hi, "_lo": lo}
    # init
    if seq is None and not it.truth(smt.Cmp("<=", lo, hi), "range-nonempty"):
        it.exec_block(st.orelse, fr)
        return
    for cl, t in eval_clauses(it, spec.inv, fr, dict(base_extra, **{ivar: lo})):
        it.ctx.oblige(f"inv.init:{tag}:{cl[:60]}", "inv.init", t, where=f"line {st.lineno}")
    a, m = modified_names(st.body + st.orelse)
    a2, m2 = sink_modified(it)
    tnames = set()
    _target_names(st.target, tnames)
    havoc_state(it, fr, spec, (a | a2) - tnames, m | m2, extra_frames=sink_frames(it))
    if spec.on_havoc is not None:
        spec.on_havoc(it, fr)
    i = it.fresh(ivar.strip("_") or "i", "Int")
    it.ctx.assume(And(smt.Cmp("<=", lo, i), smt.Cmp("<=", i, hi)))
    for fn in list(it.ctx.univ):
        it.ctx.assume(fn(i))      # ground instance of an assumed universal fact at the loop index
    for cl, t in eval_clauses(it, spec.inv, fr, dict(base_extra, **{ivar: i})):
        it.ctx.assume(t)
    if isinstance(itv, SymFile):
        itv.pos = i
    c = it.ctx.decide(2, f"{tag}:iter/exit")
    if c == 0:
        it.ctx.assume(smt.Cmp("<", i, hi))
        it.assign(st.target, elem(i), fr)
        if isinstance(itv, SymFile):
            itv.pos = smt.Add(i, I(1))
        r = run_body(it, st, fr)
        if r == "break":
            return
        for cl, t in eval_clauses(it, spec.inv, fr, dict(base_extra, **{ivar: smt.Add(i, I(1))})):
            it.ctx.oblige(f"inv.step:{tag}:{cl[:60]}", "inv.step", t, where=f"line {st.lineno}")
        raise PathEnd()
    it.ctx.assume(Eq(i, hi))
    if isinstance(itv, SymFile):
        itv.pos = hi
    it.exec_block(st.orelse, fr)


def _target_names(t, out):
    if isinstance(t, ast.Name):
        out.add(t.id)
    elif isinstance(t, (ast.Tuple, ast.List)):
        for e in t.elts:
            _target_names(e, out)


def for_generator(it, st, fr, gen):
    if not hasattr(it, "sink_stack"):
        it.sink_stack = []

    def sink(v):
        it.assign(st.target, v, fr)
        try:
            it.exec_block(st.body, fr)
        except _Continue:
            pass
        except _Break:
            raise Unsupported(f"break out of a generator-driven loop (line {st.lineno})")

    gfr = gen.frame
    gfr.yield_sink = sink
    it.sink_stack.append((fr, st.body))
    it.frames.append(gfr)
    try:
        it.exec_block(gen.func.node.body, gfr)
    except _Return:
        pass
    finally:
        it.frames.pop()
        it.sink_stack.pop()
    it.exec_block(st.orelse, fr)


def while_loop(it, st, fr):
    spec = get_spec(it, st, fr)
    if spec is None:
        # concrete unrolling while the guard stays concrete
        n = 0
        while True:
            g = it.eval(st.test, fr)
            if is_t(g) or isinstance(g, (SymList, SymMap, SymSet)):
                root, k = loop_key(it, st, fr)
                raise Unsupported(f"while-loop #{k} of {root} (line {st.lineno}) has a symbolic guard and no invariant")
            if not it.truth(g):
                it.exec_block(st.orelse, fr)
                return
            n += 1
            if n > 256:
                raise Unsupported(f"while-loop at line {st.lineno}: more than 256 concrete iterations")
            if run_body(it, st, fr) == "break":
                return
    root, k = loop_key(it, st, fr)
    tag = f"loop{k}@{st.lineno}"
    for cl, t in eval_clauses(it, spec.inv, fr, {}):
        it.ctx.oblige(f"inv.init:{tag}:{cl[:60]}", "inv.init", t, where=f"line {st.lineno}")
    a, m = modified_names(st.body + st.orelse)
    a2, m2 = sink_modified(it)
    havoc_state(it, fr, spec, a | a2, m | m2, extra_frames=sink_frames(it))
    if spec.on_havoc is not None:
        spec.on_havoc(it, fr)
    for cl, t in eval_clauses(it, spec.inv, fr, {}):
        it.ctx.assume(t)
    g = it.eval(st.test, fr)
    if it.truth(g, f"{tag}:guard"):
        m0 = None
        if spec.decreases:
            m0 = _measure(it, spec.decreases, fr)
        r = run_body(it, st, fr)
        if r == "break":
            return
        for cl, t in eval_clauses(it, spec.inv, fr, {}):
            it.ctx.oblige(f"inv.step:{tag}:{cl[:60]}", "inv.step", t, where=f"line {st.lineno}")
        if spec.decreases:
            m1 = _measure(it, spec.decreases, fr)
            it.ctx.oblige(f"dec:{tag}", "dec", And(smt.Cmp("<=", lift(0, m1.sort), m1), smt.Cmp("<", m1, m0)),
                          where=f"line {st.lineno}")
        raise PathEnd()
    it.exec_block(st.orelse, fr)


def _measure(it, clause, fr):
    sub = Frame(fr.func, {}, fr)
    it.spec_mode += 1
    try:
        v = it.eval(ast.parse(clause.strip(), mode="eval").body, sub)
    finally:
        it.spec_mode -= 1
    return it.term(v)
