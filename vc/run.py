"""Driver: ./check Cxx --tier quick|thorough

exit 0 every obligation discharged (only listed known findings remain)
exit 1 VIOLATION (refuted top-level obligation)
exit 2 UNDECIDED (solver unknown, unsupported construct, missing contract, broken proof artefact)
exit 3 checker crash / engine self-check failed
"""
import argparse
import hashlib
import importlib
import json
import multiprocessing
import os
import re
import subprocess
import sys
import time
import traceback

HERE = os.path.dirname(os.path.dirname(os.path.abspath(__file__)))
sys.path.insert(0, HERE)

from vc import smt  # noqa: E402
from vc.interp import ModuleSrc  # noqa: E402
from vc import contract as cm  # noqa: E402

TOP_KINDS = {"post", "xpost", "pre", "safe", "frame", "table", "lemma", "assert"}
INTERNAL_KINDS = {"inv.init", "inv.step", "dec"}
PYTHON = "/venv/bin/python"


def load_prop(prop):
    mod = importlib.import_module(f"contracts.{prop}")
    return mod


# ---------------------------------------------------------------------------
# stage 1: generate obligations (one worker per contract x config)
# ---------------------------------------------------------------------------

def uses_strings(texts):
    for t in texts:
        if "String" in t or "str." in t or "seq." in t or "(Seq" in t:
            return True
    return False


def split_worker(job):
    prop, ci, gi = job
    try:
        mod = load_prop(prop)
        reg = mod.REGISTRY
        c = [x for x in reg.all if not x.callee_only][ci]
        if not getattr(c, "parallel", False):
            return [job + ((),)]
        roots = cm.split_roots(c, c.configs[gi], reg)
        return [job + (tuple(r),) for r in roots]
    except Exception:
        return [job + ((),)]


def gen_worker(job):
    prop, ci, gi = job[:3]
    root = job[3] if len(job) > 3 else ()
    t0 = time.time()
    try:
        mod = load_prop(prop)
        reg = mod.REGISTRY
        c = [x for x in reg.all if not x.callee_only][ci]
        cfg = c.configs[gi]
        res = cm.verify_contract(c, cfg, reg, root=root)
        groups = {}
        for ob, pc, decls, usorts, values in res.obligs:
            pct = tuple(p.sx for p in pc)
            key = (pct,)
            g = groups.setdefault(key, {"pc": pct, "decls": {}, "usorts": [], "goals": {}, "values": {}, "conflict": False})
            for name, args, r in decls:
                sig = (tuple(smt.sort_name(a) for a in args), smt.sort_name(r), _tsorts(list(args) + [r]))
                if name in g["decls"] and g["decls"][name][:2] != sig[:2]:
                    g["conflict"] = True
                g["decls"].setdefault(name, sig)
            for u in usorts:
                if u not in g["usorts"]:
                    g["usorts"].append(u)
            for v in values:
                g["values"].setdefault(v.sx, smt.sort_name(v.sort))
            gk = (ob.name, ob.goal.sx)
            g["goals"].setdefault(gk, {"name": ob.name, "kind": ob.kind, "goal": ob.goal.sx, "where": ob.where,
                                        "info": ob.info})
        scripts = []
        for g in groups.values():
            scripts.append({
                "contract": c.name, "cfg": cfg_name(cfg), "prop": c.prop, "role": c.role,
                "pc": list(g["pc"]), "decls": [(n, s[0], s[1]) for n, s in g["decls"].items()],
                "tsorts": sorted({x for s in g["decls"].values() for x in s[2]}, key=lambda z: (z.count("Tup_"), len(z), z)),
                "usorts": g["usorts"], "goals": list(g["goals"].values()), "values": list(g["values"].items()),
            })
        und = []
        for msg, pc, decls, usorts in res.undecided:
            und.append({"msg": msg, "pc": [p.sx for p in pc],
                        "decls": [(n, [smt.sort_name(a) for a in args], smt.sort_name(r)) for n, args, r in decls],
                        "tsorts": sorted({x for _, args, r in decls for x in _tsorts(list(args) + [r])},
                                         key=lambda z: (z.count("Tup_"), len(z), z)),
                        "usorts": usorts})
        exits = {}
        exit_scripts = []
        for kind, pc, decls, usorts in res.exits:
            exits[kind] = exits.get(kind, 0) + 1
        # feasibility witnesses: one pc per exit kind is checked for satisfiability (vacuity guard)
        seen = set()
        for kind, pc, decls, usorts in res.exits:
            if kind in seen or kind == "cut":
                continue
            seen.add(kind)
            exit_scripts.append({"kind": kind, "pc": [p.sx for p in pc],
                                 "decls": [(n, [smt.sort_name(a) for a in args], smt.sort_name(r)) for n, args, r in decls],
                                 "tsorts": sorted({x for _, args, r in decls for x in _tsorts(list(args) + [r])},
                                                  key=lambda z: (z.count("Tup_"), len(z), z)),
                                 "usorts": usorts})
        return {"ok": True, "contract": c.name, "cfg": cfg_name(cfg), "scripts": scripts, "undecided": und,
                "npaths": res.npaths, "exits": exits, "exit_scripts": exit_scripts, "source": res.source,
                "gen_s": time.time() - t0, "truncated": res.truncated}
    except Exception:
        return {"ok": False, "job": job, "error": traceback.format_exc()}


def merge_gens(gens):
    """results of the sub-trees of one contract x config are merged back"""
    out = {}
    order = []
    for g in gens:
        if not g["ok"]:
            return [g] + [x for x in gens if x["ok"]]
        key = (g["contract"], g["cfg"])
        if key not in out:
            out[key] = g
            order.append(key)
            continue
        m = out[key]
        m["scripts"].extend(g["scripts"])
        m["undecided"].extend(g["undecided"])
        m["npaths"] += g["npaths"]
        for k, v in g["exits"].items():
            m["exits"][k] = m["exits"].get(k, 0) + v
        kinds = {e["kind"] for e in m["exit_scripts"]}
        m["exit_scripts"].extend(e for e in g["exit_scripts"] if e["kind"] not in kinds)
        m["gen_s"] = max(m["gen_s"], g["gen_s"])
        m["truncated"] = m["truncated"] or g["truncated"]
    return [out[k] for k in order]


def _tsorts(sorts):
    out = []
    for s in smt.collect_tuple_sorts(sorts):
        fields = " ".join(f"({smt.tup_sel(s, i)} {smt.sort_name(x)})" for i, x in enumerate(s[1]))
        out.append(f"(declare-datatypes (({smt.sort_name(s)} 0)) ((({smt.tup_mk(s)} {fields}))))")
    return tuple(out)


def cfg_name(cfg):
    if not cfg:
        return "-"
    return ",".join(f"{k}={v}" for k, v in sorted(cfg.items(), key=lambda kv: kv[0]))


# ---------------------------------------------------------------------------
# stage 2: discharge
# ---------------------------------------------------------------------------

def script_text(s, goals, backend, timeout_ms, with_values=True, extra_asserts=(), check_pc=False):
    L = []
    if backend == "z3":
        L.append(f"(set-option :timeout {timeout_ms * smt.WALL_FACTOR})")       # safety net; the budget is rlimit (smt.py)
    L.append("(set-logic ALL)")
    for u in s["usorts"]:
        L.append(f"(declare-sort {u} 0)")
    for d in s["tsorts"]:
        L.append(d)
    for n, args, r in s["decls"]:
        L.append(f"(declare-fun {n} ({' '.join(args)}) {r})")
    for a in s["pc"]:
        L.append(f"(assert {a})")
    for a in extra_asserts:
        L.append(f"(assert {a})")
    if check_pc or not goals:
        L.append('(echo "@pc")')
        L.append("(check-sat)")
    for g in goals:
        L.append("(push 1)")
        L.append(f'(echo "@goal {g["id"]}")')
        L.append(f"(assert (not {g['goal']}))")
        L.append("(check-sat)")
        if with_values and s.get("values"):
            L.append('(echo "@model")')
            L.append("(get-value (" + " ".join(v for v, _ in s["values"]) + "))")
        L.append("(pop 1)")
    return "\n".join(L) + "\n"


def _quantified(a):
    return "(forall " in a or "(exists " in a


_TOK = smt._TOK


def _syms(text, consts):
    return smt.syms_of(text, consts)


cone = smt.cone


def _backend_order(texts):
    return ["cvc5", "z3"] if uses_strings(texts) else ["z3", "cvc5"]


def _run_goals(s, pc, goals, backend, timeout_s, with_values=True):
    """both back ends race on the same obligation text; per goal the first decisive
    answer wins (a sat/unsat disagreement is reported as unknown + engine note)"""
    texts = {be: script_text(dict(s, pc=pc), goals, be, int(timeout_s * 1000), with_values=with_values)
             for be in ("z3", "cvc5")}
    budget = timeout_s * (len(goals) + 1)

    def decisive(out):
        p = smt.parse_output(out)
        return all(p["goals"].get(g["id"], ["unknown"])[0] in ("sat", "unsat") for g in goals) or p["pc"] == "unsat"

    outs = smt.run_portfolio(texts, timeout_s, budget, decisive)
    merged = {"pc": None, "goals": {}, "by": {}}
    secs = 0.0
    raw = ""
    for be, (out, t) in outs.items():
        secs = max(secs, t)
        raw += out[-300:]
        p = smt.parse_output(out)
        if p["pc"] in ("sat", "unsat") and merged["pc"] is None:
            merged["pc"] = p["pc"]
        for gid, r in p["goals"].items():
            cur = merged["goals"].get(gid)
            if r[0] in ("sat", "unsat"):
                if cur is None or cur[0] not in ("sat", "unsat"):
                    merged["goals"][gid] = r
                    merged["by"][gid] = be
                elif cur[0] != r[0]:
                    merged["goals"][gid] = ["unknown", "DISAGREEMENT between back ends"]
            elif cur is None:
                merged["goals"][gid] = r
    return merged, secs, raw


def _prune_decls(s, pc, goals):
    """keep only declarations that occur in the text (smaller scripts, and the
    back end choice then depends on what the query really contains)"""
    text = " ".join(pc) + " " + " ".join(g["goal"] for g in goals) + " " + " ".join(v for v, _ in s.get("values", []))
    toks = set(_TOK.findall(text))
    return [d for d in s["decls"] if d[0] in toks]


def solve_script(args):
    """Discharge the goals of one path-condition group.
    A: all goals as one conjunction under the quantifier-free part of the pc;
    B: goal by goal under the quantifier-free part ('sat' is final only if nothing was dropped);
    C: goal by goal under growing cones of influence of the full pc;
    D: remaining goals under the full pc, first back end then the other.
    Dropping assumptions (A-C) is sound: it can only make a proof harder."""
    s, timeout_s, both = args
    deep = both == "deep"
    for k, g in enumerate(s["goals"]):
        g["id"] = f"g{k}"
    results = {g["id"]: {"res": "unknown", "backend": None, "ms": 0, "model": ""} for g in s["goals"]}
    full_pc = s["pc"]
    qf_pc = [a for a in full_pc if not _quantified(a)]
    dropped = len(qf_pc) != len(full_pc)
    consts = {n for n, args_, r in s["decls"] if not args_}
    pcres = None
    cands = {}

    def record(g, res, backend, secs, n, model=""):
        results[g["id"]] = {"res": res, "backend": backend, "ms": int(secs * 1000 / max(1, n)), "model": model}

    pending = [g for g in s["goals"] if g["kind"] != "canary"]
    quick = min(timeout_s, 3)
    # canaries: a deliberately false clause; one cheap attempt, anything but 'unsat' is the expected outcome
    for g in s["goals"]:
        if g["kind"] == "canary":
            sub = cone(qf_pc, g["goal"], consts, 2)
            neg = f"(not {g['goal']})"
            toks = set(_TOK.findall(" ".join(sub) + " " + neg))
            header = [f"(declare-sort {u} 0)" for u in s["usorts"]] + list(s["tsorts"]) + \
                [f"(declare-fun {n} ({' '.join(a)}) {r})" for n, a, r in s["decls"] if n in toks]
            if smt.z3api():
                res = "unsat" if smt.quick_unsat(header, sub + [neg], 500) else "unknown"
                results[g["id"]] = {"res": res, "backend": "z3", "ms": 0, "model": ""}
            else:
                s2 = dict(s, decls=_prune_decls(s, sub, [g]), values=[])
                parsed, secs, out = _run_goals(s2, sub, [g], None, 1, with_values=False)
                r = parsed["goals"].get(g["id"], ["unknown", ""])
                results[g["id"]] = {"res": r[0], "backend": parsed["by"].get(g["id"]), "ms": int(secs * 1000), "model": ""}
    # 0: per goal, cone of influence (2 hops) of the quantifier-free pc, in-process z3, memoised
    #    on (cone, goal): paths that differ only in unrelated decisions share the work
    if os.environ.get("VERIF_STEP0", "1") != "0" and smt.z3api() and not deep:
        still = []
        t0 = time.time()
        hdr_cache = {}
        for g in pending:
            sub = cone(qf_pc, g["goal"], consts, 2)
            neg = f"(not {g['goal']})"
            if uses_strings(sub + [neg]):
                still.append(g)      # z3's sequence solver is the weak one: leave strings to the race below
                continue
            toks = set(_TOK.findall(" ".join(sub) + " " + neg))
            header = [f"(declare-sort {u} 0)" for u in s["usorts"]] + list(s["tsorts"]) + \
                [f"(declare-fun {n} ({' '.join(a)}) {r})" for n, a, r in s["decls"] if n in toks]
            if smt.quick_unsat(header, sub + [neg], 500):
                record(g, "unsat", "z3", 0, 1)
            else:
                still.append(g)
        dt = time.time() - t0
        for g in pending:
            if g not in still:
                results[g["id"]]["ms"] = int(dt * 1000 / max(1, len(pending) - len(still)))
        pending = still
    # A
    if len(pending) > 1 and not deep:
        conj = {"id": "conj", "goal": "(and " + " ".join(g["goal"] for g in pending) + ")"}
        be = _backend_order(qf_pc + [conj["goal"]])[0]
        s2 = dict(s, decls=_prune_decls(s, qf_pc, [conj]), values=[])
        parsed, secs, out = _run_goals(s2, qf_pc, [conj], be, quick, with_values=False)
        if parsed["pc"] == "unsat":
            pcres = "unsat"
        if parsed["goals"].get("conj", ["unknown"])[0] == "unsat":
            for g in pending:
                record(g, "unsat", parsed["by"].get("conj", be), secs, len(pending))
            pending = []
    # B
    if pending and not deep:
        be = _backend_order(qf_pc + [g["goal"] for g in pending])[0]
        parsed, secs, out = _run_goals(s, qf_pc, pending, be, quick)
        if parsed["pc"] == "unsat":
            pcres = "unsat"
        elif parsed["pc"] == "sat" and not dropped:
            pcres = "sat"
        still = []
        for g in pending:
            r = parsed["goals"].get(g["id"], ["unknown", ""])
            if r[0] == "unsat" or (r[0] == "sat" and not dropped):
                record(g, r[0], parsed["by"].get(g["id"], be), secs, len(pending), r[1] if r[0] == "sat" else "")
            elif r[0] == "sat":
                # counter-model of a subset of the assumptions: a *candidate*, to be replayed on the
                # real code if the obligation is not proved from the full assumptions below
                cands[g["id"]] = (parsed["by"].get(g["id"], be), r[1])
                still.append(g)
            else:
                still.append(g)
        pending = still
    # C
    for hops in (1, 2, 4):
        if not pending:
            break
        still = []
        for g in pending:
            sub = cone(full_pc, g["goal"], consts, hops)
            if len(sub) == len(full_pc):
                still.append(g)
                continue
            be = _backend_order(sub + [g["goal"]])[0]
            s2 = dict(s, decls=_prune_decls(s, sub, [g]), values=[])
            parsed, secs, out = _run_goals(s2, sub, [g], be, quick, with_values=False)
            r = parsed["goals"].get(g["id"], ["unknown", ""])
            if r[0] == "unsat":
                record(g, "unsat", parsed["by"].get(g["id"], be), secs, 1)
            else:
                still.append(g)
        pending = still
    # D
    if pending:
        parsed, secs, out = _run_goals(s, full_pc, pending, None, timeout_s)
        if parsed["pc"] in ("sat", "unsat") and pcres not in ("sat", "unsat"):
            pcres = parsed["pc"]
        for g in pending:
            r = parsed["goals"].get(g["id"], ["unknown", ""])
            if r[0] in ("sat", "unsat"):
                record(g, r[0], parsed["by"].get(g["id"]), secs, len(pending), r[1] if r[0] == "sat" else "")
            else:
                results[g["id"]]["raw"] = out[-400:]
    for g in s["goals"]:
        if results[g["id"]]["res"] == "unknown" and g["id"] in cands:
            results[g["id"]] = {"res": "cand", "backend": cands[g["id"]][0], "ms": results[g["id"]]["ms"],
                                "model": cands[g["id"]][1]}
    return {"script": s, "results": results, "pc": pcres}


def check_sat(s, timeout_s, extra=()):
    """satisfiability of a pc (vacuity / feasibility)"""
    parsed, secs, out = _run_goals(dict(s, pc=list(s["pc"]) + list(extra), values=[]), list(s["pc"]) + list(extra), [],
                                   None, timeout_s, with_values=False)
    return parsed["pc"] if parsed["pc"] in ("sat", "unsat") else "unknown"


def feas_worker(args):
    s, timeout_s = args
    s = dict(s, pc=[a for a in s["pc"] if not _quantified(a)])
    return check_sat(s, min(timeout_s, 3))


# ---------------------------------------------------------------------------
# known findings
# ---------------------------------------------------------------------------

def load_known(prop):
    path = os.path.join(HERE, "KNOWN_FINDINGS.txt")
    out = []
    if not os.path.exists(path):
        return out
    cur = None
    for ln in open(path):
        ln = ln.rstrip("\n")
        if ln.startswith("#") or not ln.strip():
            continue
        if ln.startswith("finding:"):
            cur = {"what": "", "match": [], "region": None}
            for kv in ln[len("finding:"):].split():
                if "=" in kv:
                    k, v = kv.split("=", 1)
                    cur[k] = v
            out.append(cur)
        elif cur is not None and ln.startswith("  "):
            k, _, v = ln.strip().partition(":")
            v = v.strip()
            if k == "match":
                cur["match"].append(v)
            else:
                cur[k] = v
    return [k for k in out if k.get("property") == prop]


def known_for(known, contract, cfg, gname):
    for k in known:
        if k.get("contract") and k["contract"] != contract:
            continue
        if k.get("cfg") and k["cfg"] != cfg:
            continue
        pats = k["match"] or [""]
        if any(p in gname for p in pats):
            return k
    return None


# ---------------------------------------------------------------------------
# main
# ---------------------------------------------------------------------------

def strip_lines(name):
    return re.sub(r"@\d+", "@", name)


def main(argv=None):
    ap = argparse.ArgumentParser()
    ap.add_argument("prop")
    ap.add_argument("--tier", default=os.environ.get("VERIF_TIER", "quick"))
    ap.add_argument("--only", default=None, help="substring filter on contract names")
    ap.add_argument("--jobs", type=int, default=int(os.environ.get("VERIF_JOBS", "16")))
    ap.add_argument("--no-evidence", action="store_true")
    ap.add_argument("--verbose", "-v", action="store_true")
    ap.add_argument("--dump", default=None, help="directory to dump failing scripts")
    args = ap.parse_args(argv)
    t_start = time.time()
    prop = args.prop
    seed = int(os.environ.get("VERIF_SEED", "0") or 0)
    tier = args.tier
    os.environ["VERIF_TIER"] = tier      # contract modules size their configuration tables by tier
    timeout_s = 10 if tier == "quick" else 60
    if os.environ.get("VERIF_TIMEOUT"):
        timeout_s = float(os.environ["VERIF_TIMEOUT"])
    try:
        rc = run(prop, tier, seed, timeout_s, args, t_start)
    except SystemExit:
        raise
    except Exception:
        traceback.print_exc()
        print(f"CHECKER-CRASH property={prop}")
        rc = 3
    sys.exit(rc)


def run(prop, tier, seed, timeout_s, args, t_start):
    ModuleSrc.reset()
    mod = load_prop(prop)
    reg = mod.REGISTRY
    targets = [c for c in reg.all if not c.callee_only]
    jobs = []
    for ci, c in enumerate(targets):
        if args.only and args.only not in c.name:
            continue
        for gi in range(len(c.configs)):
            jobs.append((prop, ci, gi))
    known = load_known(prop)
    pool = multiprocessing.Pool(args.jobs)
    early = False
    try:
        t_a = time.time()
        jobs = [j for js in pool.map(split_worker, jobs, chunksize=1) for j in js]
        gens = merge_gens(pool.map(gen_worker, jobs, chunksize=1))
        t_gen = time.time() - t_a
        crashed = [g for g in gens if not g["ok"]]
        if crashed:
            for g in crashed:
                print("ENGINE-ERROR in", g["job"], "\n", g["error"])
            return 3
        all_scripts = []
        for g in gens:
            for s in g["scripts"]:
                all_scripts.append(s)
        # split big scripts so that the pool is balanced
        work = []
        for s in all_scripts:
            gl = s["goals"]
            step = 3 if uses_strings(s["pc"][-6:] + [x["goal"] for x in gl[:3]]) else 40
            for k in range(0, len(gl), step):
                s2 = dict(s)
                s2["goals"] = [dict(x) for x in gl[k:k + step]]
                work.append((s2, timeout_s, tier == "thorough"))
        t_b = time.time()
        # deterministic shuffle: failing paths tend to sit together in DFS order
        import random
        random.Random(seed).shuffle(work)
        solved = []
        ncand = 0
        for sr in pool.imap_unordered(solve_script, work, chunksize=2):
            solved.append(sr)
            if any(r["res"] in ("sat", "cand") and g["kind"] != "canary"
                   for g in sr["script"]["goals"] for r in [sr["results"][g["id"]]]):
                ncand += 1
            if ncand >= 8 and len(solved) < len(work) and os.environ.get("VERIF_NO_EARLY") != "1" and not known:
                early = True     # enough refuted obligations to triage: fail fast
                break
        # second chance for goals left undecided while all cores were busy: alone, with four times the budget
        if not early:
            retry = []
            for idx, sr in enumerate(solved):
                for g in sr["script"]["goals"]:
                    if g["kind"] != "canary" and sr["results"][g["id"]]["res"] not in ("unsat", "sat", "cand"):
                        s2 = dict(sr["script"])
                        s2["goals"] = [dict(g)]
                        retry.append((idx, g["id"], (s2, timeout_s * 4, False)))
            if retry and len(retry) <= 64:
                for (idx, gid, _), sr2 in zip(retry, pool.map(solve_script, [w for _, _, w in retry], chunksize=1)):
                    r2 = sr2["results"].get(gid)
                    if r2 is not None and r2["res"] in ("unsat", "sat", "cand"):
                        r2["ms"] += solved[idx]["results"][gid]["ms"]
                        solved[idx]["results"][gid] = r2
        t_solve = time.time() - t_b
        t_c = time.time()
        # undecided paths: ignore if infeasible
        und_jobs = []
        for g in gens:
            for u in g["undecided"]:
                und_jobs.append((g, u))
        und_res = [] if early else pool.map(feas_worker, [({"pc": u["pc"], "decls": u["decls"], "tsorts": u["tsorts"], "usorts": u["usorts"]},
                                          timeout_s) for _, u in und_jobs], chunksize=1) if und_jobs else []
        exit_jobs = []
        for g in gens:
            for e in g["exit_scripts"]:
                exit_jobs.append((g, e))
        exit_res = pool.map(feas_worker, [(e, timeout_s) for _, e in exit_jobs], chunksize=1) if exit_jobs and not early else []
        t_feas = time.time() - t_c
        if os.environ.get("VERIF_TIMING"):
            for g_ in sorted(gens, key=lambda x: -x.get("gen_s", 0))[:4]:
                print(f"  gen {g_['contract']} [{g_['cfg']}] {g_.get('gen_s', 0):.1f}s paths={g_['npaths']}")
            print(f"timing: gen {t_gen:.1f}s (max single {max(g.get('gen_s', 0) for g in gens if g['ok']):.1f}s) solve {t_solve:.1f}s feasibility {t_feas:.1f}s")
    finally:
        if early:
            pool.terminate()
        else:
            pool.close()
        pool.join()

    # --- collect ----------------------------------------------------------
    report = {"obligations": [], "violations": [], "undecided": [], "known": [], "canary_fail": []}
    solver_ms = 0
    canary_seen = {}
    for sr in solved:
        s = sr["script"]
        for g in s["goals"]:
            r = sr["results"][g["id"]]
            solver_ms += r["ms"]
            rec = {"contract": s["contract"], "cfg": s["cfg"], "name": g["name"], "kind": g["kind"],
                   "backend": r["backend"], "ms": r["ms"], "where": g["where"]}
            if g["kind"] == "canary":
                key = (s["contract"], s["cfg"], g["name"])
                canary_seen[key] = canary_seen.get(key, False) or (r["res"] != "unsat" and sr["pc"] != "unsat")
                continue
            if r["res"] == "unsat":
                rec["result"] = "vacuous" if sr["pc"] == "unsat" else "proved"
            elif r["res"] in ("sat", "cand"):
                rec["result"] = "refuted" if r["res"] == "sat" else "cand"
                rec["model"] = smt.parse_model(r["model"], [smt.T(so, v) for v, so in s["values"]])
                rec["_script"] = s
                rec["_goal"] = g
            else:
                rec["result"] = "unknown"
                rec["_script"] = s
                rec["_goal"] = g
                rec["raw"] = r.get("raw", "")
            report["obligations"].append(rec)
    for key, seen in canary_seen.items():
        if not seen:
            report["canary_fail"].append(key)
    if early:
        print(f"note: stopped after {len(solved)} of {len(work)} obligation groups: refuted obligations found, triaging them first")
    for (g, u), r in zip(und_jobs, und_res):
        if r != "unsat":
            report["undecided"].append({"contract": g["contract"], "cfg": g["cfg"], "msg": u["msg"], "pc_status": r})
    feasible = {}
    for (g, e), r in zip(exit_jobs, exit_res):
        feasible.setdefault((g["contract"], g["cfg"]), {})[e["kind"]] = r

    # --- triage refuted obligations ----------------------------------------
    os.makedirs(os.path.join(HERE, "replays"), exist_ok=True)
    for fn in os.listdir(os.path.join(HERE, "replays")):
        if fn.startswith(prop + "_") and not args.only:
            os.unlink(os.path.join(HERE, "replays", fn))
    viol_lines = []
    known_lines = []
    groups = {}
    for rec in report["obligations"]:
        if rec["result"] in ("refuted", "cand"):
            groups.setdefault((rec["contract"], strip_lines(rec["name"])), []).append(rec)
            continue
        if rec["result"] == "unknown":
            kf0 = known_for(known, rec["contract"], rec["cfg"], rec["name"])
            if kf0 is not None and kf0.get("region"):
                # undecided, but a recorded finding covers part of its input space: decide it outside the region
                groups.setdefault((rec["contract"], strip_lines(rec["name"])), []).append(rec)
                continue
        if rec["result"] == "unknown":
            if args.dump:
                dump_script(args.dump, rec["_script"], rec["_goal"])
    replays_left = [int(os.environ.get("VERIF_MAX_REPLAYS", "24"))]
    for (cname, gname), recs in groups.items():
        c = next(x for x in reg.all if x.name == cname)
        # known findings: the obligation must hold outside the listed region
        kf = known_for(known, cname, recs[0]["cfg"], recs[0]["name"])
        if kf is not None:
            left = []
            for rec in recs:
                if not kf.get("region"):
                    rec["result"] = "known-finding"
                    continue
                s_, g_ = rec["_script"], rec["_goal"]
                region = kf["region"]
                if region.startswith("@"):
                    region = getattr(mod, "REGIONS")[region[1:]](rec["cfg"])
                r2 = solve_script((dict(s_, pc=s_["pc"] + [f"(not {region})"], goals=[dict(g_)]), timeout_s, False))
                rr = list(r2["results"].values())[0]
                if rr["res"] == "unsat":
                    rec["result"] = "known-finding"
                else:
                    if rr["res"] in ("sat", "cand"):
                        rec["model"] = smt.parse_model(rr["model"], [smt.T(so, v) for v, so in s_["values"]])
                        rec["result"] = "refuted" if rr["res"] == "sat" else "cand"
                    left.append(rec)
            if any(r["result"] == "known-finding" for r in recs):
                known_lines.append((kf.get("id", ""), kf.get("what", "")))
            for r in recs:
                if r["result"] == "known-finding":
                    r["finding"] = kf.get("id", "")
                    r.pop("_script", None)
                    r.pop("_goal", None)
            recs = left
            if not recs:
                continue
        internal = recs[0]["kind"] in INTERNAL_KINDS
        # replay candidate models on the real code (a few per clause)
        reproduced_rec = None
        last_replay = None
        order = sorted(recs, key=lambda r: 0 if r["result"] == "refuted" else 1)
        for rec in order[:3]:
            if replays_left[0] <= 0 or c.replay is None:
                break
            replays_left[0] -= 1
            p, ok, observed = do_replay(prop, c, rec, rec["_script"], rec["_goal"])
            rec["replay"], rec["reproduced"] = p, ok
            last_replay = (p, rec)
            if ok:
                reproduced_rec = (p, rec)
                break
        if reproduced_rec is not None:
            for rec in recs:
                rec["result"] = "refuted"
            viol_lines.append((reproduced_rec[0], True, reproduced_rec[1]))
        else:
            # no failing input found: a genuine refutation needs a model of the *full* path condition
            finals = [r for r in recs if r["result"] == "refuted"]
            if not finals:
                # candidates only: leave them to the witness search below (and, failing that, undecided)
                for r in recs:
                    if r["result"] == "cand":
                        r["result"] = "unknown"
                        r["raw"] = "only a candidate counter-model (of a subset of the assumptions) exists and it did not replay"
            if finals:
                if internal:
                    for r in recs:
                        if r["result"] in ("refuted", "cand"):
                            r["result"] = "proof-broken"
                else:
                    rec = finals[0]
                    # the counter-models did not replay (inputs outside the witness builder's vocabulary): look for a
                    # failing input of the same clause with the contract's generator before giving up
                    found = do_search(prop, c, rec, tier, seed) if c.replay is not None else None
                    for r in recs:
                        if r["result"] == "cand":
                            r["result"] = "refuted"
                    if found is not None:
                        viol_lines.append((found, True, rec))
                    else:
                        if last_replay is not None:
                            p = last_replay[0]
                        else:
                            p, _, _ = do_replay(prop, c, rec, rec["_script"], rec["_goal"], run=False)
                        viol_lines.append((p, False, rec))
        for r in recs:
            r.pop("_script", None)
            r.pop("_goal", None)
    # obligations the solvers left undecided: search for a concrete failing input (a found one is a
    # real violation, replayed on the real code; finding none leaves the obligation undecided)
    ugroups = {}
    for rec in report["obligations"]:
        if (rec["result"] == "unknown" and rec["kind"] in TOP_KINDS) or rec["result"] == "proof-broken":
            ugroups.setdefault((rec["contract"], strip_lines(rec["name"])), []).append(rec)
        elif rec["result"] == "unknown" and rec["kind"] in INTERNAL_KINDS and "candidate counter-model" in str(rec.get("raw", "")):
            # an invariant / frame / callee precondition with a candidate counter-model that did not replay: one witness
            # search per contract over ALL its clauses (a found input is a real violation, none leaves it undecided)
            ugroups.setdefault((rec["contract"], "proof-artefact"), []).append(rec)
    sjobs = []
    for (cname, gname), recs in ugroups.items():
        c = next(x for x in reg.all if x.name == cname)
        if c.replay is None:
            continue
        if recs[0]["result"] != "proof-broken" and not (gname.startswith("post#") or gname.startswith("xpost:")
                                                         or gname.startswith("pre@") or gname == "proof-artefact"):
            continue
        sjobs.append((c, recs))
    if sjobs:
        from concurrent.futures import ThreadPoolExecutor
        with ThreadPoolExecutor(max_workers=min(12, len(sjobs))) as ex:
            founds = list(ex.map(lambda cr: do_search(prop, cr[0], cr[1][0], tier, seed), sjobs[:48]))
        for (c, recs), found in zip(sjobs, founds):
            if found is not None:
                for r in recs:
                    r["result"] = "refuted"
                viol_lines.append((found, True, recs[0]))
    # paths the engine could not execute (construct outside the subset): the function is out of the verifier's reach on
    # those paths, so the contract's clauses are tried on generated inputs against the real code (bounded fallback).  A
    # failing input is a real, replayed violation; finding none leaves the function undecided (exit 2), never "held".
    fb_seen = set()
    for u in list(report["undecided"]):
        key = (u["contract"], u["cfg"])
        if key in fb_seen or len(fb_seen) >= 12 or u.get("pc_status") == "unsat":
            continue
        c = next((x for x in reg.all if x.name == u["contract"]), None)
        if c is None or c.replay is None:
            continue
        fb_seen.add(key)
        rec = {"contract": u["contract"], "cfg": u["cfg"], "name": "bounded fallback (path outside the engine's subset: "
               + str(u["msg"])[:80] + ")", "kind": "bounded", "where": "witness search over the contract's input grammar",
               "backend": "cpython", "result": "unknown", "ms": 0}
        found = do_search(prop, c, rec, tier, seed)
        if found is not None:
            rec["result"] = "refuted"
            report["obligations"].append(rec)
            viol_lines.append((found, True, rec))
    for rec in report["obligations"]:
        rec.pop("_script", None)
        rec.pop("_goal", None)

    # --- extra sections: tables / lemmas / bounded --------------------------
    extra = {"tables": [], "bounded": [], "lemmas": []}
    for fn in getattr(mod, "TABLES", []):
        try:
            for row in fn():
                name, ok, detail = row[:3]
                if len(row) > 3 and row[3] == "coverage" and not ok:
                    # a coverage row: code the property speaks about that no contract reaches (a new entry point, a call
                    # site moved into a new helper).  Unverified is not violated: undecided (exit 2), never exit 1.
                    extra["tables"].append({"name": name, "ok": False, "detail": detail, "coverage": True})
                    report["undecided"].append({"contract": "table", "cfg": "-", "msg": f"not under contract: {name} ({detail})",
                                                "pc_status": "-"})
                    continue
                extra["tables"].append({"name": name, "ok": bool(ok), "detail": detail})
                rec = {"contract": "table", "cfg": "-", "name": name, "kind": "table", "backend": "eval", "ms": 0,
                       "where": "exhaustive evaluation", "result": "proved" if ok else "refuted"}
                report["obligations"].append(rec)
                if not ok:
                    kf = known_for(known, "table", "-", name)
                    if kf is not None:
                        rec["result"] = "known-finding"
                        known_lines.append((kf.get("id", ""), kf.get("what", "")))
                        continue
                    p = write_replay(prop, {"obligation": name, "kind": "table", "detail": detail, "reproduced": True})
                    viol_lines.append((p, True, rec))
        except Exception:
            traceback.print_exc()
            return 3
    # --- C functions (vc/cvc.py): VCs from clang's AST of the working tree, bit-vector back end ----------------
    extra["c_functions"] = []
    cspecs = list(getattr(mod, "CPROOFS", []))
    if cspecs and not args.only:
        from . import cvc
        try:
            cvc.dump_many(sorted({(c.file, c.filt) for c in cspecs}))
        except Exception:
            traceback.print_exc()
            return 3
        for c in cspecs:
            try:
                r = cvc.verify(c)
            except cvc.Unsupported as e:
                report["undecided"].append({"contract": c.name, "cfg": "-", "msg": f"outside the C subset: {e}",
                                            "pc_status": "-"})
                continue
            except Exception:
                traceback.print_exc()
                return 3
            xc = cvc.cross_check_cvc5([o for o in r["raw"]], limit=80 if tier == "quick" else 400)
            if r["exits"] == 0 or not r["obligations"]:
                print(f"ENGINE-GUARD: zero exits/obligations for C function {c.name}")
                return 3
            extra["c_functions"].append({"function": c.name, "file": c.file, "paths": r["paths"], "exits": r["exits"],
                                         "obligations": len(r["obligations"]), "seconds": r["seconds"],
                                         "cvc5_cross_check": {k: v for k, v in xc.items() if k != "sat_names"},
                                         "note": c.note})
            solver_ms += sum(o["ms"] for o in r["obligations"])
            for rec in r["obligations"]:
                report["obligations"].append(rec)
                if rec["result"] == "unknown":
                    continue
                if rec["result"] == "proved":
                    if rec["name"] in xc["sat_names"]:
                        rec["result"] = "unknown"
                        rec["raw"] = "z3 proved, cvc5 found a model: back ends disagree"
                    continue
                kf = known_for(known, rec["contract"], "-", rec["name"])
                if kf is not None:
                    rec["result"] = "known-finding"
                    known_lines.append((kf.get("id", ""), kf.get("what", "")))
                    continue
                internal = rec["kind"] == "c-inv"      # loop-cut artefact: only a failure on the real code makes it a violation
                data = {"property": prop, "obligation": f"{rec['contract']} :: {rec['name']}", "kind": rec["kind"],
                        "where": rec["where"], "model": rec.get("model", {}), "solver": rec["backend"],
                        "reproduced": False, "observed": None, "rerun": f"cd {HERE} && ./check {prop} --tier quick"}
                reproduced = False
                if c.replay:
                    try:
                        cmd = [PYTHON, os.path.join(HERE, "replay", "run.py"), c.replay, json.dumps(rec.get("model", {})),
                               json.dumps({"cfg": "-", "obligation": rec["name"], "prop": prop, "contract": rec["contract"]})]
                        env = dict(os.environ, PYTHONPATH=os.environ.get("VERIF_REPO", "/repo"))
                        pr = subprocess.run(cmd, capture_output=True, text=True, timeout=300, env=env, cwd=HERE)
                        out = pr.stdout.strip().splitlines()
                        try:
                            ob = json.loads(out[-1])
                        except Exception:
                            ob = {"reproduced": False, "observed": (pr.stdout + pr.stderr)[-1500:]}
                        reproduced = bool(ob.get("reproduced"))
                        data["observed"] = ob.get("observed")
                        data["replay_cmd"] = " ".join(repr(x) if " " in x or "{" in x else x for x in cmd)
                    except Exception as e:
                        data["observed"] = f"replay harness error: {e}"
                data["reproduced"] = reproduced
                if internal and not reproduced:
                    rec["result"] = "proof-broken"
                    rec["raw"] = "loop invariant no longer inductive; no failing input on the real code"
                    continue
                if not reproduced:
                    data["note"] = "no-failing-input-found: the obligation is refuted by the solver; the counter-model " \
                                   "did not reproduce on the real code (or no witness builder exists)"
                viol_lines.append((write_replay(prop, data), reproduced, rec))
    bounded_fail = []
    for fn in getattr(mod, "BOUNDED", []):
        try:
            b = fn(tier, seed)
            extra["bounded"].append({k: v for k, v in b.items() if k != "failures"})
            for f in b.get("failures", []):
                kf = known_for(known, "bounded", "-", f["name"])
                if kf is not None:
                    known_lines.append((kf.get("id", ""), kf.get("what", "")))
                    continue
                p = write_replay(prop, dict(f, kind="bounded", reproduced=True))
                viol_lines.append((p, True, {"name": f["name"], "kind": "bounded", "contract": "bounded"}))
        except Exception:
            traceback.print_exc()
            return 3

    # --- verdict ------------------------------------------------------------
    obl = report["obligations"]
    n_total = len(obl)
    n_dis = sum(1 for r in obl if r["result"] in ("proved", "vacuous", "known-finding"))
    n_vac = sum(1 for r in obl if r["result"] == "vacuous")
    unknowns = [r for r in obl if r["result"] in ("unknown", "proof-broken")]
    wall = time.time() - t_start
    rc = 0
    # vacuity guards
    guard_msgs = []
    for g in ([] if early else gens):
        fe = feasible.get((g["contract"], g["cfg"]), {})
        if fe and not any(v in ("sat", "unknown") for v in fe.values()):
            c = next(x for x in reg.all if x.name == g["contract"])
            if not getattr(c, "allow_no_exit", False):
                guard_msgs.append(f"no feasible exit for {g['contract']} [{g['cfg']}] (contradictory requires?) {fe}")
        if not g["scripts"] and not g["undecided"]:
            guard_msgs.append(f"zero obligations for {g['contract']} [{g['cfg']}]")
    if report["canary_fail"] and not early:
        guard_msgs.append(f"canary not refuted: {report['canary_fail']}")
    seen_k = set()
    for kid, what in known_lines:
        if kid in seen_k:
            continue
        seen_k.add(kid)
        print(f"KNOWN-FINDING: property={prop} {kid} {what}")
    for p, reproduced, rec in viol_lines:
        tail = "" if reproduced else " no-failing-input-found"
        print(f"VIOLATION property={prop} replay={p}{tail}")
        print(f"  obligation: {rec.get('contract')} :: {rec.get('name')}")
        rc = 1
    for r in unknowns[:20]:
        print(f"UNDECIDED {r['result']} {r['contract']} [{r['cfg']}] :: {r['name']} {r.get('raw', '')[-200:]}")
    seen_u = set()
    for u in report["undecided"]:
        if (u["contract"], u["msg"]) in seen_u:
            continue
        seen_u.add((u["contract"], u["msg"]))
        if len(seen_u) <= 20:
            print(f"UNDECIDED {u['contract']} [{u['cfg']}] :: {u['msg']} (path {u['pc_status']})")
    for m in guard_msgs:
        print("ENGINE-GUARD:", m)
    if rc == 0 and (unknowns or report["undecided"]):
        rc = 2
    if rc == 0 and guard_msgs:
        rc = 3
    print(f"{prop}: {len(gens)} function-configs, {sum(g['npaths'] for g in gens)} paths, "
          f"{n_total} obligations, {n_dis} discharged ({n_vac} on infeasible paths), "
          f"{len(viol_lines)} violations, {len(unknowns) + len(report['undecided'])} undecided, "
          f"{len(seen_k)} known findings, solver {solver_ms / 1000:.1f}s, wall {wall:.1f}s -> exit {rc}")
    if args.verbose:
        for r in obl:
            print(f"  [{r['result']:>8}] {r['contract']} [{r['cfg']}] {r['name']} ({r['backend']}, {r['ms']}ms)")
    if not args.no_evidence and not args.only:
        write_evidence(prop, mod, reg, gens, obl, extra, tier, seed, wall, solver_ms, n_total, n_dis, len(viol_lines),
                       all_scripts, report, seen_k)
    return rc


def region_term(mod, c, kf, s):
    """SMT text of a known-finding region (a predicate over the contract's input symbols)"""
    return kf["region"]


def dump_script(d, s, g):
    os.makedirs(d, exist_ok=True)
    h = hashlib.sha1((s["contract"] + g["name"] + g["goal"]).encode()).hexdigest()[:10]
    g = dict(g, id="g0")
    for be in ("z3", "cvc5"):
        with open(os.path.join(d, f"{h}.{be}.smt2"), "w") as f:
            f.write(f"; {s['contract']} [{s['cfg']}] {g['name']}\n")
            f.write(script_text(s, [g], be, 60000))


def write_replay(prop, data):
    os.makedirs(os.path.join(HERE, "replays"), exist_ok=True)
    h = hashlib.sha1(json.dumps(data, sort_keys=True, default=str).encode()).hexdigest()[:12]
    p = os.path.join(HERE, "replays", f"{prop}_{h}.json")
    with open(p, "w") as f:
        json.dump(data, f, indent=1, default=str)
    return p


def do_replay(prop, c, rec, s, g, run=True):
    """run the contract's witness builder on the counter-model against the real code"""
    model = {k: _jsonable(v) for k, v in rec.get("model", [])}
    data = {"property": prop, "obligation": f"{rec['contract']} [{rec['cfg']}] :: {rec['name']}",
            "kind": rec["kind"], "where": rec["where"], "model": model, "goal": g["goal"][:4000],
            "solver": rec["backend"], "path_condition": s["pc"][-12:], "reproduced": False, "observed": None,
            "rerun": f"cd {HERE} && ./check {prop} --tier quick"}
    reproduced = False
    if c.replay is not None and run:
        try:
            cmd = [PYTHON, os.path.join(HERE, "replay", "run.py"), c.replay, json.dumps(model),
                   json.dumps({"cfg": rec["cfg"], "obligation": rec["name"], "prop": prop, "contract": rec["contract"]})]
            env = dict(os.environ, PYTHONPATH=os.environ.get("VERIF_REPO", "/repo"))
            p = subprocess.run(cmd, capture_output=True, text=True, timeout=120, env=env, cwd=HERE)
            out = p.stdout.strip().splitlines()
            last = out[-1] if out else ""
            try:
                ob = json.loads(last)
            except Exception:
                ob = {"reproduced": False, "observed": (p.stdout + p.stderr)[-1500:]}
            reproduced = bool(ob.get("reproduced"))
            data["observed"] = ob.get("observed")
            data["replay_cmd"] = " ".join(repr(x) if " " in x or "{" in x else x for x in cmd)
        except Exception as e:
            data["observed"] = f"replay harness error: {e}"
    data["reproduced"] = reproduced
    if not reproduced:
        data["note"] = "no-failing-input-found: the obligation is refuted by the solver but the counter-model " \
                       "did not reproduce on the real code (or no witness builder exists for this contract)"
    return write_replay(prop, data), reproduced, data["observed"]


def do_search(prop, c, rec, tier, seed):
    meta = {"cfg": rec["cfg"], "obligation": rec["name"], "prop": prop, "contract": rec["contract"]}
    budget = 300 if tier == "quick" else 5000
    try:
        cmd = [PYTHON, os.path.join(HERE, "replay", "run.py"), "--search", c.replay, json.dumps(meta), str(budget), str(seed)]
        env = dict(os.environ, PYTHONPATH=os.environ.get("VERIF_REPO", "/repo"))
        p = subprocess.run(cmd, capture_output=True, text=True, timeout=300 if tier == "quick" else 1800, env=env, cwd=HERE)
        out = p.stdout.strip().splitlines()
        ob = json.loads(out[-1]) if out else {}
    except Exception as e:
        ob = {"reproduced": False, "observed": f"search harness error: {e}"}
    if not ob.get("reproduced"):
        return None
    data = {"property": prop, "obligation": f"{rec['contract']} [{rec['cfg']}] :: {rec['name']}", "kind": rec["kind"],
            "where": rec["where"], "model": ob.get("model"),
            "solver": ("refuted by " + str(rec.get("backend")) + "; its counter-model did not replay, " if rec.get("result") in ("refuted", "cand")
                       else "undecided by cvc5/z3 within the budget; ") +
            "failing input found by witness search over the contract's input grammar", "reproduced": True,
            "observed": ob.get("observed"), "inputs": ob.get("inputs"), "tried": ob.get("tried"),
            "rerun": f"cd {HERE} && ./check {prop} --tier quick"}
    return write_replay(prop, data)


def _jsonable(v):
    import fractions
    if isinstance(v, fractions.Fraction):
        return {"frac": [v.numerator, v.denominator]}
    if isinstance(v, (list, tuple)):
        return [_jsonable(x) for x in v]
    if isinstance(v, (int, str, bool)) or v is None:
        return v
    return {"raw": str(v)}


def write_evidence(prop, mod, reg, gens, obl, extra, tier, seed, wall, solver_ms, n_total, n_dis, n_viol,
                   all_scripts, report, known_ids):
    funcs = []
    for g in gens:
        funcs.append({"contract": g["contract"], "cfg": g["cfg"], "paths": g["npaths"], "exits": g["exits"],
                      **g["source"]})
    for cf in extra.get("c_functions", []):
        try:
            sha = hashlib.sha256(open(os.path.join(os.environ.get("VERIF_REPO", "/repo"), cf["file"]), "rb").read()).hexdigest()
        except OSError:
            sha = None
        funcs.append({"contract": cf["function"], "cfg": "-", "paths": cf["paths"], "exits": cf["exits"],
                      "file": cf["file"], "language": "C (clang AST, bit-vector VCs)", "file_sha256": sha})
    samples = []
    for s in all_scripts[:400]:
        if len(samples) >= 3:
            break
        if s["goals"]:
            g0 = dict(s["goals"][0], id="g0")
            txt = script_text(s, [g0], "cvc5", 10000, with_values=False)
            if len(txt) < 6000:
                samples.append({"obligation": f"{s['contract']} [{s['cfg']}] :: {g0['name']}", "smtlib": txt})
    if not samples and obl:
        samples.append({"obligation": obl[0]["name"], "kind": obl[0]["kind"]})
    callee_only = [c.name for c in reg.all if c.callee_only]
    by_backend = {}
    for r in obl:
        by_backend[r["backend"] or "none"] = by_backend.get(r["backend"] or "none", 0) + 1
    level = getattr(mod, "LEVEL", "proof")
    ev = {
        "property_id": prop, "tier": tier, "seed": seed, "level": level, "wall_s": round(wall, 2),
        "violations": n_viol,
        "coverage": {
            "obligations": n_total, "discharged": n_dis,
            "checker_cmd": f"./check {prop} --tier {tier}",
            "trusted_base": list(getattr(mod, "TRUSTED", [])) + [
                "own VC generators vc/ (python AST -> SMT-LIB; clang JSON AST -> bit-vector VCs), guarded by canaries, "
                "exit-feasibility checks, cvc5 re-check of the C queries and the seeded changes under seeded/",
                "cvc5 1.0.3, z3 5.1.0", "python semantics per DESIGN.md 3.1 (ints exact, floats as reals, bytes/str as code point sequences)"],
            "functions_under_contract": funcs,
            "assumed_contracts": callee_only,
            "obligations_by_backend": by_backend,
            "obligations_by_kind": _count(obl, "kind"),
            "obligations_by_result": _count(obl, "result"),
            "solver_ms_total": solver_ms,
            "known_findings": sorted(known_ids),
            "tables": extra["tables"][:200],
            "c_functions": extra.get("c_functions", []),
            "bounded": extra["bounded"],
            "not_covered": list(getattr(mod, "NOT_COVERED", [])),
            "undecided": report["undecided"][:50],
            "samples": samples,
            "obligation_list": [{k: v for k, v in r.items() if k in ("contract", "cfg", "name", "kind", "result", "backend", "ms")}
                                for r in obl][:3000],
        },
        "assumptions": list(getattr(mod, "ASSUMPTIONS", [])),
    }
    # generic counters of the bounded stand-ins (required keys when the level is exploration; informative otherwise)
    bs = extra.get("bounded", [])
    if bs:
        ev["coverage"]["evaluations"] = sum(int(b.get("evaluations", 0)) for b in bs)
        ev["coverage"]["distinct_nontrivial"] = sum(int(b.get("distinct_inputs", 0)) for b in bs)
        ev["coverage"]["rule"] = ("bounded stand-ins only: inputs come from each runner's generator (a corpus of adversarial "
                                  "cases, then seeded random ones, VERIF_SEED); distinct = distinct generated inputs by their "
                                  "JSON form; every generated input exercises the real function and is judged by the executable "
                                  "contract / an independent decoding, so all of them count as non-trivial")
        if level != "proof":
            ev["coverage"]["samples"] = [s_ for b in bs for s_ in b.get("samples", [])][:6] or ev["coverage"]["samples"]
    os.makedirs(os.path.join(HERE, "evidence"), exist_ok=True)
    with open(os.path.join(HERE, "evidence", f"{prop}.json"), "w") as f:
        json.dump(ev, f, indent=1, default=str)


def _count(obl, key):
    d = {}
    for r in obl:
        d[r[key]] = d.get(r[key], 0) + 1
    return d


if __name__ == "__main__":
    main()
