#!/bin/sh
# run every check of a tier sequentially and print one line each (used with `vp run`)
tier=${1:-thorough}
for p in C01 C02 C03 C04 C05 C06 C07 C08 C09 C10 C11 C12 C13 C14 C15 C16 C17 C18 C19 C20; do
  s=$(date +%s); ./check $p --tier $tier > out_$p.log 2>&1; rc=$?; e=$(date +%s)
  echo "$p rc=$rc wall=$((e-s))s $(grep -c '^VIOLATION' out_$p.log) viol $(grep -c '^KNOWN-FINDING' out_$p.log) known $(grep -c '^UNDECIDED' out_$p.log) undecided"
  tail -n 1 out_$p.log
done
