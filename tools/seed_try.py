#!/venv/bin/python
"""Try a candidate change against a property's check WITHOUT touching /repo: copy /repo's working tree (incl. the built
extension) to a scratch directory, apply the patch there, run `./check <id>` with VERIF_REPO pointing at the copy,
remove the copy.   usage: seed_try.py <Cxx> <patch file> [--tier quick|thorough]"""
import os
import re
import shutil
import subprocess
import sys
import tempfile

HERE = os.path.dirname(os.path.dirname(os.path.abspath(__file__)))


def main():
    sid, patch = sys.argv[1], os.path.abspath(sys.argv[2])
    tier = sys.argv[sys.argv.index("--tier") + 1] if "--tier" in sys.argv else "quick"
    d = tempfile.mkdtemp(prefix="vftry_")
    try:
        shutil.copytree("/repo/psutil", os.path.join(d, "psutil"))
        os.makedirs(os.path.join(d, "docs"), exist_ok=True)
        shutil.copy("/repo/docs/index.rst", os.path.join(d, "docs"))
        for f in ("setup.py", "pyproject.toml"):
            if os.path.exists("/repo/" + f):
                shutil.copy("/repo/" + f, d)
        p = subprocess.run(["patch", "-s", "-p1", "-d", d, "-i", patch], capture_output=True, text=True)
        if p.returncode != 0:
            print("patch does not apply:", (p.stdout + p.stderr)[-400:])
            return 2
        env = dict(os.environ, VERIF_REPO=d)
        r = subprocess.run(["./check", sid, "--tier", tier, "--no-evidence"], cwd=HERE, env=env, capture_output=True, text=True,
                           timeout=3600)
        out = r.stdout + r.stderr
        lines = out.splitlines()
        seen = []
        for i, ln in enumerate(lines):
            if ln.startswith("VIOLATION") and i + 1 < len(lines):
                o = re.sub(r"@\d+", "@", lines[i + 1].split("obligation:", 1)[-1].strip())
                t = " (no-failing-input-found)" if ln.rstrip().endswith("no-failing-input-found") else ""
                if o + t not in seen:
                    seen.append(o + t)
        print(f"{sid}: rc={r.returncode} {'DETECTED' if r.returncode == 1 and seen else 'NOT DETECTED'}")
        for o in seen[:5]:
            print("   ", o[:220])
        for ln in lines:
            if ln.startswith(("UNDECIDED", "ENGINE")):
                print("   ", ln[:200])
        print("   ", lines[-1][:200] if lines else "")
        return 0
    finally:
        shutil.rmtree(d, ignore_errors=True)


if __name__ == "__main__":
    sys.exit(main())
